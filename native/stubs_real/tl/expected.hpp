// A small working stand-in for https://github.com/TartanLlama/expected (third-party, not generated), enough to
// compile *and link* the generated C++ sources that use ``common::expected`` (stringification of base64).
#pragma once
#include <optional>
#include <type_traits>
#include <utility>
namespace tl {
template <class E> class unexpected {
 public:
  explicit unexpected(const E& e) : e_(e) {}
  explicit unexpected(E&& e) : e_(std::move(e)) {}
  const E& value() const& { return e_; }
  E& value() & { return e_; }
  E&& value() && { return std::move(e_); }
 private:
  E e_;
};
template <class E> unexpected<typename std::decay<E>::type> make_unexpected(E&& e) {
  return unexpected<typename std::decay<E>::type>(std::forward<E>(e));
}
template <class T, class E> class expected {
 public:
  expected() : v_(T()) {}
  template <class U = T, typename std::enable_if<std::is_convertible<U&&, T>::value>::type* = nullptr>
  expected(U&& v) : v_(std::forward<U>(v)) {}  // NOLINT
  template <class G> expected(const unexpected<G>& u) : e_(u.value()) {}  // NOLINT
  template <class G> expected(unexpected<G>&& u) : e_(std::move(u).value()) {}  // NOLINT
  bool has_value() const noexcept { return v_.has_value(); }
  explicit operator bool() const noexcept { return v_.has_value(); }
  T& value() & { return *v_; }
  const T& value() const& { return *v_; }
  T&& value() && { return std::move(*v_); }
  T& operator*() & { return *v_; }
  const T& operator*() const& { return *v_; }
  T&& operator*() && { return std::move(*v_); }
  T* operator->() { return &*v_; }
  const T* operator->() const { return &*v_; }
  E& error() & { return *e_; }
  const E& error() const& { return *e_; }
  E&& error() && { return std::move(*e_); }
 private:
  std::optional<T> v_;
  std::optional<E> e_;
};
}  // namespace tl
