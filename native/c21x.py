"""C21 (examples-bounded): inter-structure collisions -- two distinct meta-model names that every target's naming
scheme maps to one identifier (they differ only in the letter case of one part) must be reported by every target.

The intra-structure verifiers are under contract (contracts/naming.py); the checks between types, constants and
functions are spread over the eight generators and are exercised here on a list of examples through main.execute.
"""
import io
import pathlib
import tempfile
from typing import Any, Dict, List, Optional, Tuple

from aas_core_codegen import main as cg_main
from native import c02

HEAD = '''\
@abstract
@serialization(with_model_type=True)
class Root(DBC):
    """Represent the root."""


'''
TAIL = '''

__version__ = "dummy"
__xml_namespace__ = "https://dummy.com"
'''


def _cls(name: str, parent: str = "Root", abstract: bool = False) -> str:
    return (("@abstract\n" if abstract else "") + f'class {name}({parent}):\n    """Represent {name}."""\n\n\n')


# (description, kind and name of the first type, kind and name of the second type, meta-model body)
CASES: List[Tuple[str, Tuple[str, str], Tuple[str, str], str]] = [
    ("abstract class vs concrete class with descendants", ("class", "Some_node"), ("class", "Some_NODE"),
     HEAD + _cls("Some_node", abstract=True) + _cls("Leaf_a", "Some_node") + _cls("Some_NODE") + _cls("Leaf_b", "Some_NODE")),
    ("two concrete classes", ("class", "Some_node"), ("class", "Some_NODE"), HEAD + _cls("Some_node") + _cls("Some_NODE")),
    ("two classes differing in an underscore", ("class", "Some_node"), ("class", "Somenode"),
     HEAD + _cls("Some_node") + _cls("Somenode")),
    ("class vs enumeration", ("class", "Some_node"), ("enum", "Some_NODE"),
     HEAD + _cls("Some_node") + 'class Some_NODE(Enum):\n    """Represent an enumeration."""\n\n    A = "a"\n\n\n'),
    ("class vs enumeration, same words", ("class", "Some_node"), ("enum", "Some_Node"),
     HEAD + _cls("Some_node") + 'class Some_Node(Enum):\n    """Represent an enumeration."""\n\n    A = "a"\n\n\n'),
    ("two enumerations", ("enum", "Some_kind"), ("enum", "Some_KIND"),
     HEAD + _cls("Thing") + 'class Some_kind(Enum):\n    """Kind."""\n\n    A = "a"\n\n\n'
     'class Some_KIND(Enum):\n    """Kind again."""\n\n    B = "b"\n\n\n'),
    ("two enumerations, same words", ("enum", "Some_kind"), ("enum", "Some_Kind"),
     HEAD + _cls("Thing") + 'class Some_kind(Enum):\n    """Kind."""\n\n    A = "a"\n\n\n'
     'class Some_Kind(Enum):\n    """Kind again."""\n\n    B = "b"\n\n\n'),
]
TARGETS = ["cpp", "csharp", "golang", "java", "python", "typescript"]


def _target_name(target: str, kind: str, name: str) -> str:
    import importlib
    from aas_core_codegen.common import Identifier
    naming = importlib.import_module(f"aas_core_codegen.{target}.naming")
    if kind == "enum":
        return str(naming.enum_name(Identifier(name)))
    f = getattr(naming, "class_name", None) or getattr(naming, "struct_name")
    return str(f(Identifier(name)))


def bounded(seed: int = 0, **_: Any) -> Dict[str, Any]:
    failures: List[Dict[str, Any]] = []
    cases = 0
    accepted_by_front_end = 0
    with tempfile.TemporaryDirectory() as d:
        root = pathlib.Path(d)
        (root / "snippets").mkdir()
        for fn, content in c02.SNIPPETS.items():
            (root / "snippets" / fn).write_text(content, encoding="utf-8")
        for k in ("csharp", "cpp", "golang", "java", "python", "typescript"):
            pass
        for name, first, second, body in CASES:
            text = body + TAIL
            model = root / "meta_model.py"
            model.write_text(text, encoding="utf-8")
            from aas_core_codegen import run
            try:
                _, why = run.load_model(model)
            except BaseException as e:  # noqa
                failures.append({"case": name, "target": "<front end>", "observed": f"raised {type(e).__name__}"})
                continue
            if why is not None:
                continue  # rejected already by the front end: nothing left to collide
            accepted_by_front_end += 1
            for t in TARGETS:
                a, b = _target_name(t, *first), _target_name(t, *second)
                collide = a == b
                cases += 1
                out = root / f"out_{cases}"
                out.mkdir()
                so, se = io.StringIO(), io.StringIO()
                try:
                    rc = cg_main.execute(cg_main.Parameters(model_path=model, target=cg_main.Target(t),
                                                            snippets_dir=root / "snippets", output_dir=out,
                                                            cache_model=False), stdout=so, stderr=se)
                except BaseException as e:  # noqa
                    failures.append({"case": name, "target": t, "generated_names": [a, b], "kind": "raised",
                                     "observed": f"the generator raised {type(e).__name__}: {str(e)[:160]}"})
                    continue
                if collide and rc == 0:
                    failures.append({"case": name, "target": t, "generated_names": [a, b], "kind": "accepted",
                                     "observed": f"{first[1]!r} and {second[1]!r} both become {a!r}, yet no collision "
                                                 f"is reported and the code is generated"})
                if not collide and rc != 0 and "collide" in se.getvalue():
                    failures.append({"case": name, "target": t, "generated_names": [a, b], "kind": "spurious",
                                     "observed": f"a collision is reported although the names differ: {se.getvalue()[:200]}"})
    return {"cases": cases, "distinct": accepted_by_front_end, "failures": failures, "exhaustive": False,
            "samples": [{"cases": [c[0] for c in CASES]}]}
