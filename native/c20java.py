"""C20 (bounded, Java target): every generated ``*.java`` file parses; the files that need no third-party library compile.

For a handful of meta-models (hostile texts in descriptions / enumeration values / constants / invariant messages,
constants of every primitive type, a model with inheritance and invariants, methods with 0..3 arguments) the Java
target is run; when it succeeds, every generated Java file is parsed with the JDK's own parser (``JavacTask.parse()``,
no symbol resolution: ``native/ParseOnly.java``), and the files that import neither Jackson nor JUnit are compiled
together with ``javac`` (a compile error there is reported as such: a file that does not compile is not a well-formed
source file of an SDK, although the property's wording is "parses").
"""
import io
import pathlib
import shutil
import subprocess
import tempfile
from typing import Any, Dict, List, Tuple

from aas_core_codegen import main as cg_main

from native import c02, c20sdk, c30

HERE = pathlib.Path(__file__).resolve().parent


def _constants_model(ascii_only: bool = False) -> str:
    saved = (c30.INT_VALUES, c30.STR_VALUES, c30.ENUM_VALUES)
    try:
        c30.INT_VALUES = [0, 1, 7, 2 ** 31, 2 ** 63 - 1]  # beyond 64 bits the Java target reports an error
        if ascii_only:
            c30.STR_VALUES = [v if v.isascii() else f"ascii {k}" for k, v in enumerate(c30.STR_VALUES)]
            c30.ENUM_VALUES = [v if v.isascii() else f"ascii {k}" for k, v in enumerate(c30.ENUM_VALUES)]
        return c30.build_model()[0]
    finally:
        c30.INT_VALUES, c30.STR_VALUES, c30.ENUM_VALUES = saved


def _models(ascii_only: bool = False) -> List[Tuple[str, str]]:
    # "*/" in a description ends a Javadoc comment (recorded finding): it gets a model of its own so that it does not
    # hide what the other texts do to the same files
    others = [x for x in c20sdk.DESCRIPTIONS if "*/" not in x]
    # the C++ generator refuses non-ASCII texts in narrow literals (recorded finding of C02): ASCII texts only there
    values = [v for v in c20sdk.VALUES if v.isascii()] if ascii_only else None
    out = [("hostile texts (native/c20sdk.py) without the description that contains */",
            c20sdk.build_model(others, values)),
           ("hostile texts (native/c20sdk.py), all descriptions", c20sdk.build_model(None, values)),
           ("constants of every primitive type (native/c30.py, integers within 64 bits)", _constants_model(ascii_only)),
           ("base model 2 of native/c02.py", c02.BASE2)]
    for what, text in c02.signature_models():
        if "with 2 argument" in what or "with 3 argument" in what or "with 0 argument" in what:
            out.append((what, text))
    return out


def bounded(seed: int = 0, **_: Any) -> Dict[str, Any]:
    if shutil.which("javac") is None or shutil.which("java") is None:
        return {"cases": 0, "distinct": 0, "failures": [], "exhaustive": False,
                "error": "javac / java are not installed: generated Java cannot be parsed"}
    failures: List[Dict[str, Any]] = []
    cases = 0
    generated = 0
    skipped: List[str] = []
    compile_errors: List[str] = []
    compiled = 0
    with tempfile.TemporaryDirectory() as d:
        root = pathlib.Path(d)
        (root / "tool").mkdir()
        cp = subprocess.run(["javac", "-d", str(root / "tool"), str(HERE / "ParseOnly.java")], capture_output=True,
                            text=True, timeout=300)
        if cp.returncode != 0:
            return {"cases": 0, "distinct": 0, "exhaustive": False, "failures": [],
                    "error": "the parse-only tool does not compile: " + cp.stderr[:400]}
        (root / "snippets").mkdir()
        for name, content in c02.SNIPPETS.items():
            (root / "snippets" / name).write_text(content, encoding="utf-8")
        for k, (what, text) in enumerate(_models()):
            model = root / f"model_{k}.py"
            model.write_text(text, encoding="utf-8")
            out = root / f"out_{k}"
            out.mkdir()
            stdout, stderr = io.StringIO(), io.StringIO()
            try:
                rc = cg_main.execute(cg_main.Parameters(model_path=model, target=cg_main.Target.JAVA,
                                                        snippets_dir=root / "snippets", output_dir=out,
                                                        cache_model=False), stdout=stdout, stderr=stderr)
            except BaseException as e:  # noqa
                skipped.append(f"{what}: the generator raised {type(e).__name__} (C02, not C20)")
                continue
            if rc != 0:
                skipped.append(f"{what}: the generator reported errors: {stderr.getvalue()[:160]}")
                continue
            generated += 1
            files = sorted(str(p) for p in out.rglob("*.java"))
            cases += len(files)
            run = subprocess.run(["java", "-cp", str(root / "tool"), "ParseOnly"] + files, capture_output=True,
                                 text=True, timeout=600)
            lines = run.stdout.splitlines()
            if run.returncode != 0 or not lines or not lines[-1].startswith("PARSED"):
                failures.append({"model": what, "kind": "tool", "observed": "the parser tool failed: " + run.stderr[:300]})
                continue
            for line in lines[:-1]:
                path, _, rest = line.partition(":")
                lineno, _, msg = rest.partition(":")
                src = ""
                try:
                    src = pathlib.Path(path).read_text(encoding="utf-8").splitlines()[int(lineno) - 1].strip()[:160]
                except (OSError, ValueError, IndexError):
                    pass
                whole = pathlib.Path(path).read_text(encoding="utf-8")
                kind = "syntax"
                if "*/ which closes a block comment" in whole and what.endswith("all descriptions"):
                    kind = "syntax-after-*/-of-a-description"
                failures.append({"model": what, "kind": kind, "file": str(pathlib.Path(path).relative_to(out)),
                                 "line": lineno, "source_line": src,
                                 "observed": f"javac's parser rejects the generated file: {msg.strip()}"})
            if any(f["model"] == what and f["kind"].startswith("syntax") for f in failures):
                continue
            plain = [f for f in files if "com.fasterxml" not in pathlib.Path(f).read_text(encoding="utf-8")
                     and "org.junit" not in pathlib.Path(f).read_text(encoding="utf-8")]
            (root / f"classes_{k}").mkdir()
            comp = subprocess.run(["javac", "-proc:none", "-nowarn", "-d", str(root / f"classes_{k}")] + plain,
                                  capture_output=True, text=True, timeout=900)
            if comp.returncode != 0:
                # beyond the wording of the property ("parses"): recorded in the evidence, not reported
                errs = [ln for ln in comp.stderr.splitlines() if ": error:" in ln]
                for ln in errs[:2]:
                    compile_errors.append(f"{what}: " + ln.replace(str(out) + "/", "")[:200])
            else:
                compiled += 1
    if generated == 0:
        failures.append({"observed": "the Java target did not succeed on any of the models", "skipped": skipped})
    seen = set()
    unique = []
    for f in failures:
        key = (f.get("kind"), f.get("file") if f.get("kind") == "syntax" else None, f.get("observed")[:60])
        if key not in seen:
            seen.add(key)
            unique.append(f)
    failures = unique
    return {"cases": cases, "distinct": generated, "failures": failures[:6], "exhaustive": False,
            "samples": [{"models": generated, "java_files_parsed": cases, "not_generated": skipped[:4],
                         "models_whose_library_free_files_compile": compiled,
                         "compile_errors_beyond_the_property": compile_errors[:4]}]}
