"""C20 (bounded, Python target only): every file of the Python SDK generated for a meta-model full of hostile texts
parses with CPython.

Hostile texts sit where the generator copies text into source code: enumeration literal values, string constants,
invariant descriptions (plain strings) and descriptions (reStructuredText: written so that docutils renders the
hostile text, e.g. ``\\*/`` renders ``*/``).  The other targets' files cannot be parsed in this sandbox (no tsc /
go / dotnet; Java and C++ need third-party libraries): not covered.
"""
import ast
import io
import pathlib
import tempfile
from typing import Any, Dict, List

from aas_core_codegen import main as cg_main

VALUES = ["plain", 'ends with a quote"', 'ends with two quotes""', 'triple """ inside', "single ''' triple",
          "back\\slash", "ends with a backslash\\", 'backslash quote\\"', "*/ closes a block comment", "line\nbreak",
          "tab\there", "separator \u2028 inside", "percent %s {braces} ${dollar} `tick`", "#: directive", '"', "'",
          "\\", '"""', "'''", "\x00nul", "\x85next line", "{", "}", "{0}", "\\N{DASH}", "\\x41 \\u0041"]
# reStructuredText sources whose rendering is hostile for a docstring / comment
DESCRIPTIONS = ['Represent something "quoted".', 'Represent a text that ends with a quote "', 'Ends with two quotes ""',
                "Contains a triple \\\"\\\"\\\" quote.", "Contains '''.", "Contains a back\\\\slash.", "Ends with a backslash \\\\",
                'Ends with a backslash and a quote \\\\"', "Contains \\*/ which closes a block comment.",
                "Contains %s {braces} ${dollar}.", "Contains a hash #: here."]


def build_model(descriptions: Any = None, values: Any = None) -> str:
    lines: List[str] = []
    DESCRIPTIONS = descriptions if descriptions is not None else globals()["DESCRIPTIONS"]
    VALUES = values if values is not None else globals()["VALUES"]
    for k, v in enumerate(VALUES):
        lines.append(f"class Enum_{k}(Enum):")
        lines.append(f"    {DESCRIPTIONS[k % len(DESCRIPTIONS)]!r}")
        lines.append("")
        lines.append(f"    Lit_{k} = {v!r}")
        lines.append(f"    {DESCRIPTIONS[(k + 1) % len(DESCRIPTIONS)]!r}")
        lines.append("")
        lines.append("")
    for k, v in enumerate(VALUES):
        lines.append(f"Const_{k}: str = constant_str(value={v!r}, description={DESCRIPTIONS[k % len(DESCRIPTIONS)]!r})")
    lines.append("")
    lines.append("")
    for k, v in enumerate(VALUES):
        lines.append(f"@invariant(lambda self: len(self.prop) > {k}, {('Invariant ' + str(k) + ': ' + v)!r})")
    lines.append("class Subject(DBC):")
    lines.append(f"    {DESCRIPTIONS[3]!r}")
    lines.append("")
    lines.append("    prop: str")
    lines.append(f"    {DESCRIPTIONS[7]!r}")
    lines.append("")
    lines.append("    def __init__(self, prop: str) -> None:")
    lines.append("        self.prop = prop")
    lines += ["", "", '__version__ = "dummy"', '__xml_namespace__ = "https://dummy.com"', ""]
    return "\n".join(lines)


def python_sdk_parses(seed: int = 0, **_: Any) -> Dict[str, Any]:
    text = build_model()
    failures: List[Dict[str, Any]] = []
    cases = 0
    with tempfile.TemporaryDirectory() as d:
        root = pathlib.Path(d)
        (root / "snippets").mkdir()
        (root / "snippets" / "qualified_module_name.txt").write_text("dummy", encoding="utf-8")
        (root / "meta_model.py").write_text(text, encoding="utf-8")
        (root / "out").mkdir()
        stdout, stderr = io.StringIO(), io.StringIO()
        try:
            rc = cg_main.execute(cg_main.Parameters(model_path=root / "meta_model.py", target=cg_main.Target.PYTHON,
                                                    snippets_dir=root / "snippets", output_dir=root / "out",
                                                    cache_model=False), stdout=stdout, stderr=stderr)
        except BaseException as e:  # noqa
            return {"cases": 1, "distinct": 0, "exhaustive": False,
                    "failures": [{"observed": f"the generator raised {type(e).__name__}: {str(e)[:300]}"}]}
        if rc != 0:
            return {"cases": 1, "distinct": 0, "exhaustive": False,
                    "failures": [{"observed": f"the model with hostile texts is not accepted: {stderr.getvalue()[:700]}"}]}
        for p in sorted((root / "out").glob("**/*.py")):
            cases += 1
            src = p.read_text(encoding="utf-8")
            try:
                ast.parse(src)
            except SyntaxError as e:
                ln = src.splitlines()[e.lineno - 1][:200] if e.lineno and e.lineno <= len(src.splitlines()) else ""
                failures.append({"file": str(p.relative_to(root / "out")),
                                 "observed": f"does not parse: {e.msg} at line {e.lineno}", "line": ln})
    return {"cases": cases, "distinct": cases, "failures": failures[:5], "exhaustive": False,
            "samples": [{"values": len(VALUES), "descriptions": len(DESCRIPTIONS)}]}


def python_sdk_parses_for_models(seed: int = 0, **_: Any) -> Dict[str, Any]:
    """The same for the other harness meta-models (constants, inheritance, classes without properties, methods /
    constructors with 0..3 arguments): every *.py that the Python target writes must parse."""
    from native import c02, c20java
    failures: List[Dict[str, Any]] = []
    cases = 0
    generated = 0
    with tempfile.TemporaryDirectory() as d:
        root = pathlib.Path(d)
        (root / "snippets").mkdir()
        for name, content in c02.SNIPPETS.items():
            (root / "snippets" / name).write_text(content, encoding="utf-8")
        for k, (what, text) in enumerate(c20java._models()):
            model = root / f"model_{k}.py"
            model.write_text(text, encoding="utf-8")
            out = root / f"out_{k}"
            out.mkdir()
            stdout, stderr = io.StringIO(), io.StringIO()
            try:
                rc = cg_main.execute(cg_main.Parameters(model_path=model, target=cg_main.Target.PYTHON,
                                                        snippets_dir=root / "snippets", output_dir=out,
                                                        cache_model=False), stdout=stdout, stderr=stderr)
            except BaseException:  # noqa
                continue  # C02, not C20
            if rc != 0:
                continue
            generated += 1
            for p in sorted(out.glob("**/*.py")):
                cases += 1
                src = p.read_text(encoding="utf-8")
                try:
                    ast.parse(src)
                except SyntaxError as e:
                    ln = src.splitlines()[e.lineno - 1][:200] if e.lineno and e.lineno <= len(src.splitlines()) else ""
                    failures.append({"model": what, "file": str(p.relative_to(out)),
                                     "observed": f"does not parse: {e.msg} at line {e.lineno}", "line": ln})
    if generated == 0:
        failures.append({"observed": "the Python target did not succeed on any of the models"})
    return {"cases": cases, "distinct": generated, "failures": failures[:5], "exhaustive": False,
            "samples": [{"models": generated, "python_files_parsed": cases}]}
