"""Native replays for C20: the real docstring / comment wrappers, judged by CPython's compiler (Python) and by
the comment grammar (Java / TypeScript / C++ / Go) and, where installed, node / javac."""
import importlib
import itertools
import os
import shutil
import subprocess
import tempfile
from typing import Any, Dict, List, Optional

from aas_core_codegen.common import Stripped
from specs import comments as C


def _text(model: Optional[Dict[str, str]]) -> str:
    model = model or {}
    cps = []
    k = 0
    while f"text.{k}" in model:
        cps.append(int(model[f"text.{k}"]))
        k += 1
    return "".join(chr(c) for c in cps)


def _texts(model: Optional[Dict[str, str]]) -> List[str]:
    t = _text(model)
    out = [t] if t else []
    for n in range(0, 5):
        for combo in itertools.product('"\\a', repeat=n):
            out.append("".join(combo))
    out += ["*/", "a */ b", "x\r*/", "line1\nline2", "a b", "tab\there"]
    return [x for x in out if x == x.strip()]


def replay_docstring(obligation: str = "", model: Optional[Dict[str, str]] = None, **_: Any) -> Dict[str, Any]:
    from aas_core_codegen.python.description import docstring
    for t in _texts(model):
        if "\x00" in t:
            continue
        try:
            lit = str(docstring(Stripped(t)))
        except BaseException as e:  # noqa
            return {"confirmed": True, "input": {"text": t}, "observed": f"raised {type(e).__name__}"}
        try:
            val = eval(compile(lit, "<docstring>", "eval"))  # noqa: S307
            ok = isinstance(val, str) and val.strip("\n") == t.strip("\n")
            why = f"the literal denotes {val!r}"
        except SyntaxError as e:
            ok, why = False, f"CPython rejects the literal: {e.msg}"
        if not ok:
            return {"confirmed": True, "input": {"text": t}, "literal": lit, "observed": why, "judge": "CPython compile()"}
    return {"confirmed": False}


def _gxx_sees_declaration(comment: str) -> bool:
    if shutil.which("g++") is None:
        return C.no_line_continuation(comment)
    with tempfile.NamedTemporaryFile("w", suffix=".cpp", delete=False, encoding="utf-8", newline="") as f:
        f.write(comment + "\nint declared_after_the_comment = 1;\nint user = declared_after_the_comment;\n")
        fn = f.name
    try:
        return subprocess.run(["g++", "-fsyntax-only", "-w", fn], capture_output=True, timeout=60).returncode == 0
    finally:
        os.unlink(fn)


def _node_ok(src: str) -> Optional[bool]:
    if shutil.which("node") is None:
        return None
    with tempfile.NamedTemporaryFile("w", suffix=".js", delete=False, encoding="utf-8") as f:
        f.write(src + "\nconst x = 1;\n")
        fn = f.name
    try:
        return subprocess.run(["node", "--check", fn], capture_output=True, timeout=60).returncode == 0
    finally:
        os.unlink(fn)


def replay_comment(obligation: str = "", model: Optional[Dict[str, str]] = None, unit: str = "", **_: Any) -> Dict[str, Any]:
    tgt = unit.split(".")[0] if unit else ""
    targets = [tgt] if tgt in ("java", "typescript", "cpp", "golang", "python") else ["java", "typescript", "cpp", "golang", "python"]
    for target in targets:
        mod = importlib.import_module(f"aas_core_codegen.{target}.description")
        f = getattr(mod, "documentation_comment")
        for t in _texts(model):
            try:
                res = str(f(Stripped(t)))
            except BaseException as e:  # noqa
                return {"confirmed": True, "input": {"target": target, "text": t}, "observed": f"raised {type(e).__name__}: {str(e)[:80]}"}
            if target in ("java", "typescript"):
                ok = C.block_comment_ok(res)
                judge = "comment grammar"
                if target == "typescript" and not ok:
                    n = _node_ok(res)
                    if n is not None:
                        judge = "comment grammar + node --check"
                        ok = n
            else:
                prefix = {"cpp": "///", "golang": "//", "python": "#:"}[target]
                ok = C.line_comment_ok(res, prefix)
                judge = "line-comment grammar"
                if ok and target == "cpp":
                    # g++ as judge: the comment followed by a declaration; a spliced line swallows the declaration
                    ok = _gxx_sees_declaration(res)
                    judge = "g++ -fsyntax-only on the comment followed by a declaration that is then used"
            if not ok:
                return {"confirmed": True, "input": {"target": target, "text": t}, "emitted": res,
                        "observed": "the emitted text is not a single comment", "judge": judge}
    return {"confirmed": False}

