"""C09 (bounded, partial): the generated Java SDK against the generated Python SDK.

What can be run in this sandbox: ``javac`` / ``java`` without third-party libraries.  The Java SDK's types,
verification, constants and stringification need none (JSON needs Jackson: not covered; TypeScript has no compiler
here; the C++ SDK is covered for syntax only, see C20).  One meta-model (an enumeration; a class with 18 arithmetic /
boolean invariants; a class with length, pattern, optional-guarded and enumeration-typed properties nested in a
container with a list; constants) goes through the Python and the Java target.  The same instances are built in both
SDKs (the Java side by a generated ``Main.java``); both run their ``verify``: the sets of (path, message) must be
equal per instance; the constants and the texts of the enumeration literals must be equal.
"""
import importlib
import io
import itertools
import pathlib
import shutil
import subprocess
import sys
import tempfile
from typing import Any, Dict, List, Optional, Tuple

from aas_core_codegen import main as cg_main

from native import c02, c11

MODEL = '''\
class Color(Enum):
    """Represent a color."""

    Red = "RED"
    """Red"""

    Dark_green = "dark green"
    """Green"""

    Quoted = "say \\"hi\\""
    """Quoted"""


@verification
def matches_code(text: str) -> bool:
    """Check that :paramref:`text` is a code."""
    pattern = f"^[A-Z][a-z0-9]*$"
    return match(pattern, text) is not None


#FORMULAS#
class Formula(DBC):
    """Represent a formula playground."""

    a: int
    """A"""

    b: int
    """B"""

    c: int
    """C"""

    p: bool
    """P"""

    q: bool
    """Q"""

    def __init__(self, a: int, b: int, c: int, p: bool, q: bool) -> None:
        self.a = a
        self.b = b
        self.c = c
        self.p = p
        self.q = q


@invariant(lambda self: len(self.name) >= 2, "Name at least 2 characters")
@invariant(lambda self: len(self.name) <= 6, "Name at most 6 characters")
@invariant(lambda self: matches_code(self.name), "Name must be a code")
@invariant(lambda self: not (self.remark is not None) or len(self.remark) >= 3, "Note at least 3 characters if given")
@invariant(
    lambda self: not (self.remark is not None and self.color is not None) or self.color == Color.Red,
    "Only red items carry notes"
)
@invariant(lambda self: not (self.weight is not None) or self.weight > 0, "Weight positive")
class Item(DBC):
    """Represent an item."""

    name: str
    """Name"""

    remark: Optional[str]
    """Remark"""

    color: Optional[Color]
    """Color"""

    weight: Optional[int]
    """Weight"""

    def __init__(
        self,
        name: str,
        remark: Optional[str] = None,
        color: Optional[Color] = None,
        weight: Optional[int] = None,
    ) -> None:
        self.name = name
        self.remark = remark
        self.color = color
        self.weight = weight


@invariant(lambda self: len(self.items) >= 1, "At least one item")
@invariant(lambda self: len(self.items) <= 3, "At most three items")
@invariant(lambda self: not (self.formula is not None) or self.formula.a >= 0, "Formula starts non-negative")
class Carton(DBC):
    """Represent a carton."""

    items: List[Item]
    """Items"""

    formula: Optional[Formula]
    """Formula"""

    nested: Optional[List["Carton"]]
    """Nested cartons"""

    def __init__(
        self,
        items: List[Item],
        formula: Optional[Formula] = None,
        nested: Optional[List["Carton"]] = None,
    ) -> None:
        self.items = items
        self.formula = formula
        self.nested = nested


Default_name: str = constant_str(value="un\\"named\\"\\\\", description="Default name")

Answer: int = constant_int(value=4200000000, description="Answer")

Enabled: bool = constant_bool(value=True, description="Enabled")

__version__ = "dummy"
__xml_namespace__ = "https://dummy.com"
'''.replace("#FORMULAS#\n", "".join(f'@invariant(lambda self: {e}, "Formula {k}")\n' for k, e in enumerate(c11.FORMULAS)))

# instances: (kind, arguments) -- built in both SDKs
FORMULA_ARGS = [(a, b, c, p, q) for a in (-1, 0, 2) for b in (-1, 0, 2) for c in (-1, 1) for p in (False, True)
                for q in (False, True)]
ITEM_ARGS: List[Tuple[str, Optional[str], Optional[str], Optional[int]]] = [
    ("Ab", None, None, None), ("A", None, None, None), ("Abcdefg", None, None, None), ("ab", None, None, None),
    ("Ab1", "no", None, None), ("Ab1", "note", "Red", 5), ("Ab1", "note", "Dark_green", 0), ("A b", "x", "Quoted", -3),
    ("Ab\U0001F600c", None, "Red", 1), ("", "", None, None),
]
# boxes: (indices into ITEM_ARGS, index into FORMULA_ARGS or None)
BOX_ARGS: List[Tuple[List[int], Optional[int]]] = [([0], None), ([], None), ([0, 1, 2, 3], 0), ([5, 6], 17), ([7, 9], 3)]


# trees for the traversal comparison: (indices into ITEM_ARGS, index into FORMULA_ARGS or None, nested trees or None)
TREES: List[Any] = [
    ([0], None, None),
    ([], None, []),
    ([0, 1], 2, [([2], None, None), ([], 3, [([3, 4], None, [])])]),
    ([5], None, [([], None, [([], None, [([6], 4, None)])]), ([7], None, None)]),
]


def _java_string(s: str) -> str:
    out = ['"']
    for ch in s:
        if ch in '"\\':
            out.append("\\" + ch)
        elif ord(ch) < 32 or ord(ch) > 126:
            for unit in ch.encode("utf-16-be").hex(" ", 2).split():
                out.append("\\u" + unit)
        else:
            out.append(ch)
    out.append('"')
    return "".join(out)


def _java_main() -> str:
    from aas_core_codegen.common import Identifier
    from aas_core_codegen.java import naming as jn
    lit = {n: jn.enum_literal_name(Identifier(n)) for n in ("Red", "Dark_green", "Quoted")}

    def item(args: Any) -> str:
        name, note, color, weight = args
        return (f"new Item({_java_string(name)}, {'null' if note is None else _java_string(note)}, "
                f"{'null' if color is None else 'Color.' + lit[color]}, {'null' if weight is None else str(weight) + 'L'})")

    def formula(args: Any) -> str:
        a, b, c, p, q = args
        return f"new Formula({a}L, {b}L, {c}L, {'true' if p else 'false'}, {'true' if q else 'false'})"
    lines = ["import dummy.constants.Constants;", "import dummy.reporting.Reporting;",
             "import dummy.stringification.Stringification;", "import dummy.types.enums.*;", "import dummy.types.impl.*;",
             "import dummy.types.model.*;", "import dummy.verification.Verification;", "import java.util.*;",
             "public class Main {",
             "  static String esc(String s) { StringBuilder b = new StringBuilder(); for (int i = 0; i < s.length(); i++) {"
             " char c = s.charAt(i); if (c < 32 || c > 126 || c == '|' || c == '\\\\') { b.append(String.format(\"\\\\u%04x\","
             " (int) c)); } else { b.append(c); } } return b.toString(); }",
             "  static void report(String label, IClass that) {",
             "    List<String> out = new ArrayList<>();",
             "    for (Reporting.Error e : Verification.verify(that)) {",
             "      out.add(esc(Reporting.generateJsonPath(e.getPathSegments())) + \"|\" + esc(e.getCause()));",
             "    }",
             "    Collections.sort(out);",
             "    System.out.println(\"I|\" + label + \"|\" + out.size());",
             "    for (String s : out) { System.out.println(\"E|\" + label + \"|\" + s); }",
             "  }",
             "  static String tag(IClass x) {",
             "    if (x instanceof IItem) { return \"Item:\" + esc(((IItem) x).getName()); }",
             "    if (x instanceof IFormula) { return \"Formula:\" + ((IFormula) x).getA() + \",\" + ((IFormula) x).getB(); }",
             "    if (x instanceof ICarton) { return \"Carton:\" + ((ICarton) x).getItems().size(); }",
             "    return \"?\";",
             "  }",
             "  static void walk(String label, IClass that) {",
             "    StringBuilder all = new StringBuilder(); StringBuilder once = new StringBuilder();",
             "    for (IClass x : that.descend()) { all.append(tag(x)).append(';'); }",
             "    for (IClass x : that.descendOnce()) { once.append(tag(x)).append(';'); }",
             "    System.out.println(\"W|\" + label + \"|\" + all);",
             "    System.out.println(\"O|\" + label + \"|\" + once);",
             "  }",
             "  public static void main(String[] args) {"]
    for k, a in enumerate(FORMULA_ARGS):
        lines.append(f"    report(\"formula {k}\", {formula(a)});")
    for k, a in enumerate(ITEM_ARGS):
        lines.append(f"    report(\"item {k}\", {item(a)});")
    for k, (items, fi) in enumerate(BOX_ARGS):
        its = ", ".join(item(ITEM_ARGS[i]) for i in items)
        lines.append(f"    report(\"box {k}\", new Carton(new ArrayList<IItem>(Arrays.asList({its})), "
                     f"{'null' if fi is None else formula(FORMULA_ARGS[fi])}, null));")
    def tree(t: Any) -> str:
        its, fi, kids = t
        items_code = ", ".join(item(ITEM_ARGS[i]) for i in its)
        kids_code = "null" if kids is None else ("new ArrayList<ICarton>(Arrays.asList(" + ", ".join(tree(k) for k in kids) + "))")
        return (f"new Carton(new ArrayList<IItem>(Arrays.asList({items_code})), "
                f"{'null' if fi is None else formula(FORMULA_ARGS[fi])}, {kids_code})")
    for k, t in enumerate(TREES):
        lines.append(f"    walk(\"tree {k}\", {tree(t)});")
    lines.append(f"    System.out.println(\"C|Default_name|\" + esc(Constants.{jn.property_name(Identifier('Default_name'))}));")
    lines.append(f"    System.out.println(\"C|Answer|\" + Constants.{jn.property_name(Identifier('Answer'))});")
    lines.append(f"    System.out.println(\"C|Enabled|\" + Constants.{jn.property_name(Identifier('Enabled'))});")
    for n in ("Red", "Dark_green", "Quoted"):
        lines.append(f"    System.out.println(\"L|{n}|\" + esc(Stringification.toString(Color.{lit[n]}).get()));")
    lines += ["  }", "}"]
    return "\n".join(lines)


def _cpp_wide(s: str) -> str:
    out = ['std::wstring(L"']
    for ch in s:
        if ch in '"\\':
            out.append("\\" + ch)
        elif ord(ch) < 32 or ord(ch) > 126:
            out.append(f"\\U{ord(ch):08x}")
        else:
            out.append(ch)
    out.append('")')
    return "".join(out)


def _cpp_main() -> str:
    lit = {"Red": "kRed", "Dark_green": "kDarkGreen", "Quoted": "kQuoted"}

    def item(args: Any) -> str:
        name, note, color, weight = args
        return ("std::make_shared<types::Item>(" + _cpp_wide(name) + ", "
                + ("common::nullopt" if note is None else f"common::optional<std::wstring>({_cpp_wide(note)})") + ", "
                + ("common::nullopt" if color is None else f"common::optional<types::Color>(types::Color::{lit[color]})")
                + ", " + ("common::nullopt" if weight is None else f"common::optional<int64_t>(int64_t({weight}))") + ")")

    def formula(args: Any) -> str:
        a, b, c, p, q = args
        return (f"std::make_shared<types::Formula>(int64_t({a}), int64_t({b}), int64_t({c}), "
                f"{'true' if p else 'false'}, {'true' if q else 'false'})")
    lines = ['#include "dummy/common.hpp"', '#include "dummy/constants.hpp"', '#include "dummy/types.hpp"',
             '#include "dummy/verification.hpp"', '#include "dummy/wstringification.hpp"', '#include "dummy/iteration.hpp"', "#include <algorithm>",
             "#include <cstdio>", "#include <memory>", "#include <string>", "#include <vector>", "using namespace dummy;",
             # UTF-16 code units like the Java side, so that the three outputs are comparable
             "static std::string Esc(const std::wstring& s) {\n  std::string out; char buf[16];\n"
             "  for (wchar_t wc : s) {\n    unsigned long c = static_cast<unsigned long>(wc);\n"
             "    if (c > 0xFFFF) { c -= 0x10000; std::snprintf(buf, sizeof(buf), \"\\\\u%04lx\\\\u%04lx\", 0xD800 + (c >> 10),"
             " 0xDC00 + (c & 0x3FF)); out += buf; }\n"
             "    else if (c < 32 || c > 126 || c == '|' || c == '\\\\') { std::snprintf(buf, sizeof(buf), \"\\\\u%04lx\", c);"
             " out += buf; }\n    else { out += static_cast<char>(c); }\n  }\n  return out;\n}",
             "static void Report(const char* label, const std::shared_ptr<types::IClass>& that) {\n"
             "  std::vector<std::string> out;\n"
             "  for (const verification::Error& e : verification::RecursiveVerification(that)) {\n"
             "    out.push_back(Esc(e.path.ToWstring()) + \"|\" + Esc(e.cause));\n  }\n"
             "  std::sort(out.begin(), out.end());\n  std::printf(\"I|%s|%zu\\n\", label, out.size());\n"
             "  for (const std::string& s : out) { std::printf(\"E|%s|%s\\n\", label, s.c_str()); }\n}",
             "static std::string Tag(const std::shared_ptr<types::IClass>& x) {\n"
             "  if (auto i = std::dynamic_pointer_cast<types::IItem>(x)) { return \"Item:\" + Esc(i->name()); }\n"
             "  if (auto f = std::dynamic_pointer_cast<types::IFormula>(x)) { return \"Formula:\" + std::to_string(f->a()) + "
             "\",\" + std::to_string(f->b()); }\n"
             "  if (auto c = std::dynamic_pointer_cast<types::ICarton>(x)) { return \"Carton:\" + "
             "std::to_string(c->items().size()); }\n  return \"?\";\n}",
             "static void Walk(const char* label, const std::shared_ptr<types::IClass>& that) {\n"
             "  std::string all, once;\n"
             "  for (const std::shared_ptr<types::IClass>& x : iteration::Descent(that)) { all += Tag(x) + \";\"; }\n"
             "  for (const std::shared_ptr<types::IClass>& x : iteration::DescentOnce(that)) { once += Tag(x) + \";\"; }\n"
             "  std::printf(\"W|%s|%s\\n\", label, all.c_str());\n  std::printf(\"O|%s|%s\\n\", label, once.c_str());\n}",
             "int main() {"]
    for k, a in enumerate(FORMULA_ARGS):
        lines.append(f'  Report("formula {k}", {formula(a)});')
    for k, a in enumerate(ITEM_ARGS):
        lines.append(f'  Report("item {k}", {item(a)});')
    for k, (items, fi) in enumerate(BOX_ARGS):
        its = ", ".join(item(ITEM_ARGS[i]) for i in items)
        f_arg = ("common::nullopt" if fi is None
                 else f"common::optional<std::shared_ptr<types::IFormula> >({formula(FORMULA_ARGS[fi])})")
        lines.append(f'  Report("box {k}", std::make_shared<types::Carton>('
                     f"std::vector<std::shared_ptr<types::IItem> >{{{its}}}, {f_arg}, common::nullopt));")
    def tree(t: Any) -> str:
        its, fi, kids = t
        items_code = ", ".join(item(ITEM_ARGS[i]) for i in its)
        f_arg = ("common::nullopt" if fi is None
                 else f"common::optional<std::shared_ptr<types::IFormula> >({formula(FORMULA_ARGS[fi])})")
        k_arg = ("common::nullopt" if kids is None else
                 "common::optional<std::vector<std::shared_ptr<types::ICarton> > >(std::vector<std::shared_ptr<types::ICarton> >{"
                 + ", ".join(tree(k) for k in kids) + "})")
        return (f"std::make_shared<types::Carton>(std::vector<std::shared_ptr<types::IItem> >{{{items_code}}}, "
                f"{f_arg}, {k_arg})")
    for k, t in enumerate(TREES):
        lines.append(f'  Walk("tree {k}", {tree(t)});')
    lines.append('  std::printf("C|Default_name|%s\\n", Esc(constants::kDefaultName).c_str());')
    lines.append('  std::printf("C|Answer|%lld\\n", static_cast<long long>(constants::kAnswer));')
    lines.append('  std::printf("C|Enabled|%s\\n", constants::kEnabled ? "true" : "false");')
    for n in ("Red", "Dark_green", "Quoted"):
        lines.append(f'  std::printf("L|{n}|%s\\n", Esc(wstringification::to_wstring(types::Color::{lit[n]})).c_str());')
    lines += ["  return 0;", "}"]
    return "\n".join(lines)


def _parse_run(stdout: str, prefix: str) -> Tuple[Dict[str, List[str]], Dict[str, str]]:
    res: Dict[str, List[str]] = {}
    consts: Dict[str, str] = {}
    for line in stdout.splitlines():
        tag, _, rest = line.partition("|")
        label, _, payload = rest.partition("|")
        if tag == "I":
            res.setdefault(label, [])
        elif tag == "E":
            path, _, cause = payload.partition("|")
            if cause.startswith(prefix):
                cause = cause[len(prefix):]
            res.setdefault(label, []).append(path.lstrip(".") + "|" + cause)
        elif tag in ("C", "L", "W", "O"):
            consts[tag + "|" + label] = payload
    return res, consts


def _cpp_side(root: pathlib.Path, model: pathlib.Path) -> Any:
    """(results, constants) of the generated C++ SDK, or a failure dict."""
    if shutil.which("g++") is None:
        return None
    out = root / "cpp"
    out.mkdir()
    stdout, stderr = io.StringIO(), io.StringIO()
    try:
        rc = cg_main.execute(cg_main.Parameters(model_path=model, target=cg_main.Target.CPP, snippets_dir=root / "snippets",
                                                output_dir=out, cache_model=False), stdout=stdout, stderr=stderr)
    except BaseException as e:  # noqa
        return {"kind": "cpp-generator", "observed": f"the cpp generator raised {type(e).__name__}: {str(e)[:200]}"}
    if rc != 0:
        return {"kind": "cpp-generator", "observed": f"the cpp generator reported: {stderr.getvalue()[:400]}"}
    (root / "main.cpp").write_text(_cpp_main(), encoding="utf-8")
    sources = [str(p) for p in sorted((out / "src").glob("*.cpp")) if p.name not in ("jsonization.cpp", "xmlization.cpp")]
    stubs = pathlib.Path(__file__).resolve().parent / "stubs_real"
    objs = []
    procs = []
    for src in sources + [str(root / "main.cpp")]:
        obj = str(root / (pathlib.Path(src).stem + ".o"))
        objs.append(obj)
        procs.append((src, subprocess.Popen(["g++", "-std=c++17", "-O0", "-w", "-I", str(out / "include"), "-I", str(stubs),
                                             "-c", src, "-o", obj], stdout=subprocess.PIPE, stderr=subprocess.PIPE, text=True)))
    for src, pr in procs:
        _, err = pr.communicate(timeout=1500)
        if pr.returncode != 0:
            first = next((ln for ln in err.splitlines() if "error" in ln), err[:200])
            return {"kind": "cpp-does-not-compile", "observed": "the generated C++ SDK (sources without third-party "
                    "includes) does not compile: " + first.replace(str(root) + "/", "")[:300]}
    link = subprocess.run(["g++", "-o", str(root / "cppmain")] + objs, capture_output=True, text=True, timeout=900)
    if link.returncode != 0:
        return {"kind": "cpp-does-not-link", "observed": "linking fails: " + link.stderr[:300]}
    run = subprocess.run([str(root / "cppmain")], capture_output=True, text=True, timeout=600)
    if run.returncode != 0:
        return {"kind": "cpp-run", "observed": f"the C++ run failed ({run.returncode}): " + (run.stderr or run.stdout)[-400:]}
    return _parse_run(run.stdout, "Invariant violated:\\u000a")


def _esc(s: str) -> str:
    out = []
    for unit in [s[i:i + 1] for i in range(len(s))]:
        for cu in (unit.encode("utf-16-be").hex(" ", 2).split() if ord(unit) > 0xFFFF else [None]):
            if cu is not None:
                out.append("\\u" + cu)
            elif ord(unit) < 32 or ord(unit) > 126 or unit in "|\\":
                out.append(f"\\u{ord(unit):04x}")
            else:
                out.append(unit)
    return "".join(out)


def bounded(seed: int = 0, **_: Any) -> Dict[str, Any]:
    if shutil.which("javac") is None or shutil.which("java") is None:
        return {"cases": 0, "distinct": 0, "failures": [], "exhaustive": False,
                "error": "javac / java are not installed: the generated Java SDK cannot be run"}
    failures: List[Dict[str, Any]] = []
    cases = 0
    with tempfile.TemporaryDirectory() as d:
        root = pathlib.Path(d)
        (root / "snippets").mkdir()
        for name, content in c02.SNIPPETS.items():
            (root / "snippets" / name).write_text(content, encoding="utf-8")
        module = f"c09sdk{abs(hash(d)) % 10 ** 8}"
        (root / "snippets" / "qualified_module_name.txt").write_text(module, encoding="utf-8")
        model = root / "meta_model.py"
        model.write_text(MODEL, encoding="utf-8")
        for target in (cg_main.Target.PYTHON, cg_main.Target.JAVA):
            out = root / target.value
            out.mkdir()
            stdout, stderr = io.StringIO(), io.StringIO()
            try:
                rc = cg_main.execute(cg_main.Parameters(model_path=model, target=target, snippets_dir=root / "snippets",
                                                        output_dir=out, cache_model=False), stdout=stdout, stderr=stderr)
            except BaseException as e:  # noqa
                return {"cases": 1, "distinct": 0, "exhaustive": False,
                        "failures": [{"observed": f"the {target.value} generator raised {type(e).__name__}: {str(e)[:200]}"}]}
            if rc != 0:
                return {"cases": 1, "distinct": 0, "exhaustive": False,
                        "failures": [{"observed": f"the {target.value} generator reported: {stderr.getvalue()[:400]}"}]}
        # ---- Java side
        files = [str(p) for p in (root / "java").rglob("*.java")
                 if "com.fasterxml" not in p.read_text(encoding="utf-8") and "org.junit" not in p.read_text(encoding="utf-8")]
        (root / "Main.java").write_text(_java_main(), encoding="utf-8")
        (root / "classes").mkdir()
        comp = subprocess.run(["javac", "-proc:none", "-nowarn", "-d", str(root / "classes"), str(root / "Main.java")] + files,
                              capture_output=True, text=True, timeout=900)
        if comp.returncode != 0:
            errs = [ln for ln in comp.stderr.splitlines() if ": error:" in ln]
            return {"cases": 1, "distinct": 0, "exhaustive": False,
                    "failures": [{"kind": "java-does-not-compile",
                                  "observed": "the generated Java SDK (files without third-party imports) does not "
                                              "compile: " + "; ".join(e.replace(str(root) + "/", "")[:200] for e in errs[:3])}]}
        run = subprocess.run(["java", "-cp", str(root / "classes"), "Main"], capture_output=True, text=True, timeout=600)
        if run.returncode != 0:
            return {"cases": 1, "distinct": 0, "exhaustive": False,
                    "failures": [{"kind": "java-run", "observed": "the Java run failed: " + run.stderr[-500:]}]}
        java: Dict[str, List[str]] = {}
        java_const: Dict[str, str] = {}
        for line in run.stdout.splitlines():
            tag, _, rest = line.partition("|")
            label, _, payload = rest.partition("|")
            if tag == "I":
                java.setdefault(label, [])
            elif tag == "E":
                # the Java SDK writes "Invariant violated:\n<description>", the Python SDK the description alone: the
                # property asks for the same *descriptions*; the fixed prefix is removed before comparing
                path, _, cause = payload.partition("|")
                prefix = "Invariant violated:\\u000a"
                if cause.startswith(prefix):
                    cause = cause[len(prefix):]
                java.setdefault(label, []).append(path + "|" + cause)
            elif tag in ("C", "L", "W", "O"):
                java_const[tag + "|" + label] = payload
        # ---- C++ side (types, verification, constants, wstringification; no JSON / XML)
        cpp = _cpp_side(root, model)
        if isinstance(cpp, dict):
            failures.append(cpp)
            cpp = None
        # ---- Python side
        sys.path.insert(0, str(root / "python"))
        try:
            T = importlib.import_module(f"{module}.types")
            V = importlib.import_module(f"{module}.verification")
            K = importlib.import_module(f"{module}.constants")
            S = importlib.import_module(f"{module}.stringification")

            def item(args: Any) -> Any:
                name, note, color, weight = args
                return T.Item(name=name, remark=note, color=None if color is None else getattr(T.Color, color.upper()),
                              weight=weight)

            def formula(args: Any) -> Any:
                a, b, c, p, q = args
                return T.Formula(a=a, b=b, c=c, p=p, q=q)
            instances: List[Tuple[str, Any]] = []
            instances += [(f"formula {k}", formula(a)) for k, a in enumerate(FORMULA_ARGS)]
            instances += [(f"item {k}", item(a)) for k, a in enumerate(ITEM_ARGS)]
            instances += [(f"box {k}", T.Carton(items=[item(ITEM_ARGS[i]) for i in its],
                                             formula=None if fi is None else formula(FORMULA_ARGS[fi])))
                          for k, (its, fi) in enumerate(BOX_ARGS)]
            for label, inst in instances:
                cases += 1
                # paths: the Python SDK writes ".items[0].name", the Java SDK "items[0].name" (a convention of the
                # path renderers, not of the verdict): the leading dot is dropped
                want = sorted(_esc(str(e.path).lstrip(".")) + "|" + _esc(str(e.cause)) for e in V.verify(inst))
                got = java.get(label)
                if got is not None:
                    got = sorted(got)
                if got is None:
                    failures.append({"instance": label, "observed": "the Java run has no result for this instance"})
                elif got != want:
                    only_py = [x for x in want if x not in got]
                    only_java = [x for x in got if x not in want]
                    failures.append({"instance": label, "kind": "verdict",
                                     "observed": f"the Python SDK reports {len(want)} error(s), the Java SDK {len(got)}; only "
                                                 f"Python: {only_py[:3]}; only Java: {only_java[:3]}"})
                if cpp is not None:
                    cases += 1
                    got_cpp = cpp[0].get(label)
                    if got_cpp is None:
                        failures.append({"instance": label, "observed": "the C++ run has no result for this instance"})
                    elif sorted(got_cpp) != want:
                        only_py = [x for x in want if x not in got_cpp]
                        only_cpp = [x for x in got_cpp if x not in want]
                        failures.append({"instance": label, "kind": "verdict-cpp",
                                         "observed": f"the Python SDK reports {len(want)} error(s), the C++ SDK "
                                                     f"{len(got_cpp)}; only Python: {only_py[:3]}; only C++: {only_cpp[:3]}"})
            def py_tree(t: Any) -> Any:
                its, fi, kids = t
                return T.Carton(items=[item(ITEM_ARGS[i]) for i in its],
                                formula=None if fi is None else formula(FORMULA_ARGS[fi]),
                                nested=None if kids is None else [py_tree(k) for k in kids])

            def py_tag(x: Any) -> str:
                if isinstance(x, T.Item):
                    return "Item:" + _esc(x.name)
                if isinstance(x, T.Formula):
                    return f"Formula:{x.a},{x.b}"
                if isinstance(x, T.Carton):
                    return f"Carton:{len(x.items)}"
                return "?"
            for k, t in enumerate(TREES):
                inst = py_tree(t)
                for key, seq in ((f"W|tree {k}", inst.descend()), (f"O|tree {k}", inst.descend_once())):
                    want_w = "".join(py_tag(x) + ";" for x in seq)
                    for who, table in (("Java", java_const), ("C++", cpp[1] if cpp is not None else None)):
                        if table is None:
                            continue
                        cases += 1
                        if table.get(key) != want_w:
                            failures.append({"property": "C26" if who == "C++" else "C09", "tree": k, "kind": "traversal",
                                             "observed": f"{'descend' if key[0] == 'W' else 'descend_once'}: the Python SDK "
                                                         f"yields {want_w!r}, the {who} SDK {table.get(key)!r}"})
            consts = {"C|Default_name": _esc(K.DEFAULT_NAME), "C|Answer": str(K.ANSWER), "C|Enabled": "true" if K.ENABLED else "false"}
            for n in ("Red", "Dark_green", "Quoted"):
                consts["L|" + n] = _esc(getattr(T.Color, n.upper()).value)
            for key, want_c in consts.items():
                cases += 1
                if java_const.get(key) != want_c:
                    failures.append({"constant": key, "kind": "constant",
                                     "observed": f"Python: {want_c!r}, Java: {java_const.get(key)!r}"})
                if cpp is not None:
                    cases += 1
                    if cpp[1].get(key) != want_c:
                        failures.append({"constant": key, "kind": "constant-cpp",
                                         "observed": f"Python: {want_c!r}, C++: {cpp[1].get(key)!r}"})
        finally:
            sys.path.remove(str(root / "python"))
            for m in [m for m in sys.modules if m == module or m.startswith(module + ".")]:
                del sys.modules[m]
    return {"cases": cases, "distinct": cases, "failures": failures[:6], "exhaustive": False,
            "samples": [{"instances": len(FORMULA_ARGS) + len(ITEM_ARGS) + len(BOX_ARGS),
                         "targets": ["python", "java"] + (["cpp"] if cpp is not None else [])}]}


# ---------------------------------------------------------------------------------------------------------------
# implementation-specific methods that return an optional value, used in invariants (Python and Java only: the C++
# generator does not support methods of classes)

METHOD_MODEL = '''\
class Kind(Enum):
    """Represent a kind."""

    Plain = "PLAIN"
    """Plain"""


@invariant(lambda self: self.nickname() is not None, "A nickname must be derivable")
@invariant(lambda self: not (self.nickname() is not None) or len(self.name) >= 1, "A nicknamed thing has a name")
@invariant(lambda self: self.nickname() is None or self.kind is None, "Only things without a kind carry nicknames")
class Thing(DBC):
    """Represent a thing."""

    name: str
    """Name"""

    label: Optional[str]
    """Label"""

    kind: Optional[Kind]
    """Kind"""

    def __init__(self, name: str, label: Optional[str] = None, kind: Optional[Kind] = None) -> None:
        self.name = name
        self.label = label
        self.kind = kind

    @implementation_specific
    def nickname(self) -> Optional[str]:
        """Derive the nickname from the label, or from the name if short enough."""


__version__ = "dummy"
__xml_namespace__ = "https://dummy.com"
'''
PYTHON_NICKNAME = '''\
def nickname(self) -> Optional[str]:
    """Derive the nickname from the label, or from the name if short enough."""
    if self.label is not None:
        return self.label
    if len(self.name) <= 4:
        return self.name
    return None
'''
JAVA_NICKNAME = """\
/**
 * Derive the nickname from the label, or from the name if short enough.
 */
public Optional<String> nickname() {
  if (label != null) {
    return Optional.of(label);
  }
  if (name.length() <= 4) {
    return Optional.of(name);
  }
  return Optional.empty();
}
"""
THINGS = [("Abcdefgh", None, None), ("Abc", None, None), ("Abcdefgh", "lbl", None), ("", None, "Plain"),
          ("Abcdefgh", None, "Plain"), ("Ab", "x", "Plain")]


def methods(seed: int = 0, **_: Any) -> Dict[str, Any]:
    if shutil.which("javac") is None or shutil.which("java") is None:
        return {"cases": 0, "distinct": 0, "failures": [], "exhaustive": False, "error": "javac / java are not installed"}
    failures: List[Dict[str, Any]] = []
    cases = 0
    with tempfile.TemporaryDirectory() as d:
        root = pathlib.Path(d)
        module = f"c09msdk{abs(hash(d)) % 10 ** 8}"
        model = root / "meta_model.py"
        model.write_text(METHOD_MODEL, encoding="utf-8")
        for target, snippet, ext in ((cg_main.Target.PYTHON, PYTHON_NICKNAME, "py"), (cg_main.Target.JAVA, JAVA_NICKNAME, "java")):
            sn = root / f"snippets_{target.value}"
            (sn / "Types" / "Thing").mkdir(parents=True)
            for name, content in c02.SNIPPETS.items():
                (sn / name).write_text(content, encoding="utf-8")
            (sn / "qualified_module_name.txt").write_text(module, encoding="utf-8")
            (sn / "Types" / "Thing" / f"nickname.{ext}").write_text(snippet, encoding="utf-8")
            out = root / target.value
            out.mkdir()
            stdout, stderr = io.StringIO(), io.StringIO()
            try:
                rc = cg_main.execute(cg_main.Parameters(model_path=model, target=target, snippets_dir=sn, output_dir=out,
                                                        cache_model=False), stdout=stdout, stderr=stderr)
            except BaseException as e:  # noqa
                return {"cases": 1, "distinct": 0, "exhaustive": False,
                        "failures": [{"observed": f"the {target.value} generator raised {type(e).__name__}: {str(e)[:200]}"}]}
            if rc != 0:
                return {"cases": 1, "distinct": 0, "exhaustive": False,
                        "failures": [{"observed": f"the {target.value} generator reported: {stderr.getvalue()[:400]}"}]}
        lines = ["import dummy.reporting.Reporting;", "import dummy.types.enums.*;", "import dummy.types.impl.*;",
                 "import dummy.types.model.*;", "import dummy.verification.Verification;", "import java.util.*;",
                 "public class Main {",
                 "  static String esc(String s) { StringBuilder b = new StringBuilder(); for (int i = 0; i < s.length(); i++) {"
                 " char c = s.charAt(i); if (c < 32 || c > 126 || c == '|' || c == '\\\\') { b.append(String.format(\"\\\\u%04x\","
                 " (int) c)); } else { b.append(c); } } return b.toString(); }",
                 "  static void report(String label, IClass that) {", "    List<String> out = new ArrayList<>();",
                 "    for (Reporting.Error e : Verification.verify(that)) {",
                 "      out.add(esc(Reporting.generateJsonPath(e.getPathSegments())) + \"|\" + esc(e.getCause()));", "    }",
                 "    Collections.sort(out);", "    System.out.println(\"I|\" + label + \"|\" + out.size());",
                 "    for (String s : out) { System.out.println(\"E|\" + label + \"|\" + s); }", "  }",
                 "  public static void main(String[] args) {"]
        for k, (name, label, kind) in enumerate(THINGS):
            lines.append(f"    report(\"thing {k}\", new Thing({_java_string(name)}, "
                         f"{'null' if label is None else _java_string(label)}, {'null' if kind is None else 'Kind.PLAIN'}));")
        lines += ["  }", "}"]
        (root / "Main.java").write_text("\n".join(lines), encoding="utf-8")
        files = [str(p) for p in (root / "java").rglob("*.java")
                 if "com.fasterxml" not in p.read_text(encoding="utf-8") and "org.junit" not in p.read_text(encoding="utf-8")]
        (root / "classes").mkdir()
        comp = subprocess.run(["javac", "-proc:none", "-nowarn", "-d", str(root / "classes"), str(root / "Main.java")] + files,
                              capture_output=True, text=True, timeout=900)
        if comp.returncode != 0:
            errs = [ln for ln in comp.stderr.splitlines() if ": error:" in ln]
            return {"cases": 1, "distinct": 0, "exhaustive": False,
                    "failures": [{"kind": "java-does-not-compile", "observed": "the generated Java SDK does not compile: "
                                  + "; ".join(e.replace(str(root) + "/", "")[:200] for e in errs[:3])}]}
        run = subprocess.run(["java", "-cp", str(root / "classes"), "Main"], capture_output=True, text=True, timeout=600)
        if run.returncode != 0:
            return {"cases": 1, "distinct": 0, "exhaustive": False,
                    "failures": [{"kind": "java-run", "observed": "the Java run failed: " + run.stderr[-500:]}]}
        java, _ = _parse_run(run.stdout, "Invariant violated:\\u000a")
        sys.path.insert(0, str(root / "python"))
        try:
            T = importlib.import_module(f"{module}.types")
            V = importlib.import_module(f"{module}.verification")
            for k, (name, label, kind) in enumerate(THINGS):
                cases += 1
                inst = T.Thing(name=name, label=label, kind=None if kind is None else T.Kind.PLAIN)
                want = sorted(_esc(str(e.path).lstrip(".")) + "|" + _esc(str(e.cause)) for e in V.verify(inst))
                got = sorted(java.get(f"thing {k}", ["<no result>"]))
                if got != want:
                    failures.append({"instance": f"Thing{THINGS[k]!r}", "kind": "verdict",
                                     "observed": f"the Python SDK reports {want}, the Java SDK {got}"})
        finally:
            sys.path.remove(str(root / "python"))
            for m in [m for m in sys.modules if m == module or m.startswith(module + ".")]:
                del sys.modules[m]
    return {"cases": cases, "distinct": cases, "failures": failures[:6], "exhaustive": False,
            "samples": [{"instances": len(THINGS), "targets": ["python", "java"]}]}
