"""C22 bounded stand-in: run the real generator under different hash seeds and compare everything it emits."""
import hashlib
import os
import pathlib
import subprocess
import sys
import tempfile
from typing import Any, Dict, List, Tuple

REPO = pathlib.Path(os.environ.get("VERIF_REPO", "/repo"))
if not (REPO / "dev").exists():
    REPO = pathlib.Path("/repo")
PKG_ROOT = pathlib.Path(os.environ.get("VERIF_REPO", "/repo"))

BAD_CONSTRUCTOR = '''\
"""Model."""

class Something:
    """Something."""

    a: int
    """A"""

    b: int
    """B"""

    def __init__(self, a: int, b: int, c: int, d: int, e: int) -> None:
        self.a = a
        self.b = b


__version__ = "V1"
__xml_namespace__ = "https://example.com"
'''

DRIVER = r'''
import io, sys, pathlib
from aas_core_codegen import main
p = main.Parameters(model_path=pathlib.Path(sys.argv[1]), target=main.Target(sys.argv[2]),
                    snippets_dir=pathlib.Path(sys.argv[3]), output_dir=pathlib.Path(sys.argv[4]))
out, err = io.StringIO(), io.StringIO()
rc = main.execute(p, out, err)
sys.stdout.write(out.getvalue().replace(sys.argv[4], "<out>"))
sys.stderr.write(err.getvalue().replace(sys.argv[1], "<model>"))
sys.exit(rc)
'''


def _digest_dir(d: pathlib.Path) -> str:
    h = hashlib.sha256()
    for p in sorted(d.rglob("*")):
        if p.is_file():
            h.update(str(p.relative_to(d)).encode())
            h.update(p.read_bytes())
    return h.hexdigest()


def _run(model: pathlib.Path, target: str, snippets: pathlib.Path, seed: str) -> Tuple[int, str, str, str]:
    with tempfile.TemporaryDirectory() as out:
        env = dict(os.environ)
        env["PYTHONHASHSEED"] = seed
        env["PYTHONPATH"] = str(PKG_ROOT)
        p = subprocess.run([sys.executable, "-c", DRIVER, str(model), target, str(snippets), out],
                           capture_output=True, text=True, env=env, timeout=600)
        return p.returncode, p.stdout, p.stderr, _digest_dir(pathlib.Path(out))


def bounded(seed: int = 0, seeds: Any = None, **_: Any) -> Dict[str, Any]:
    seeds = seeds or ["0", "1", "2"]
    cases: List[Tuple[str, pathlib.Path, str, pathlib.Path]] = []
    exp = REPO / "dev" / "test_data" / "main"
    for target, case in (("jsonschema", "enum"), ("xsd", "constrained_primitives"), ("python", "list_of_classes")):
        cdir = exp / target / "expected" / case
        model = cdir / "meta_model.py"
        if not model.exists():
            model = REPO / "dev" / "test_data" / "common_meta_models" / f"{case}.py"
        cases.append((target, model, case, cdir / "input" / "snippets"))
    failures: List[Any] = []
    n = 0
    with tempfile.TemporaryDirectory() as tmp:
        bad = pathlib.Path(tmp) / "bad_model.py"
        bad.write_text(BAD_CONSTRUCTOR, encoding="utf-8")
        cases.append(("jsonschema", bad, "constructor-with-extra-arguments",
                      exp / "jsonschema" / "expected" / "enum" / "input" / "snippets"))
        for target, model, name, snippets in cases:
            ref = None
            for s in seeds:
                n += 1
                got = _run(model, target, snippets, s)
                if ref is None:
                    ref = got
                elif got != ref and len(failures) < 3:
                    what = [k for k, (a, b) in zip(("exit status", "stdout", "stderr", "output files"), zip(ref, got)) if a != b]
                    failures.append({"target": target, "model": name, "seeds": [seeds[0], s], "differs": what,
                                     "stderr_a": ref[2][:300], "stderr_b": got[2][:300]})
    return {"cases": n, "distinct": len(cases), "failures": failures,
            "samples": [{"target": c[0], "model": c[2], "hash_seeds": seeds} for c in cases[:2]]}


# ---------------------------------------------------------------------------------------------------------------
# all eight targets on two richer meta-models (inheritance, enumerations, constrained primitives, patterns, constant
# sets, invariants): same files, stdout, stderr and exit status under different hash seeds

def _one(args: Tuple[str, str, str]) -> Tuple[str, str, List[Tuple[int, str, str, str]]]:
    name, text, target = args
    from native import c02
    with tempfile.TemporaryDirectory() as d:
        root = pathlib.Path(d)
        (root / "snippets").mkdir()
        for fn, content in c02.SNIPPETS.items():
            (root / "snippets" / fn).write_text(content, encoding="utf-8")
        model = root / "meta_model.py"
        model.write_text(text, encoding="utf-8")
        return name, target, [_run(model, target, root / "snippets", s) for s in ("0", "1", "12345")]


# a child that adds several patterns to a property on which its parent already imposes one: the schema generators
# compute "what the child adds" -- with sets of patterns
TIGHTENING = '''\
@verification
def matches_lower(text: str) -> bool:
    """Check that :paramref:`text` is in lower case."""
    pattern = f"^[a-z_]*$"
    return match(pattern, text) is not None


@verification
def matches_no_double_underscore(text: str) -> bool:
    """Check that :paramref:`text` has no double underscore."""
    pattern = f"^(_?[a-z]+)*_?$"
    return match(pattern, text) is not None


@verification
def matches_starts_with_letter(text: str) -> bool:
    """Check that :paramref:`text` starts with a letter."""
    pattern = f"^[a-z].*$"
    return match(pattern, text) is not None


@verification
def matches_ends_with_letter(text: str) -> bool:
    """Check that :paramref:`text` ends with a letter."""
    pattern = f"^.*[a-z]$"
    return match(pattern, text) is not None


@abstract
@invariant(lambda self: matches_lower(self.some_property), "Lower case")
@invariant(lambda self: len(self.some_property) >= 1, "Non-empty")
class Parent(DBC):
    """Represent a parent."""

    some_property: str
    """Some property"""

    def __init__(self, some_property: str) -> None:
        self.some_property = some_property


@invariant(lambda self: matches_ends_with_letter(self.some_property), "Ends with a letter")
@invariant(lambda self: matches_starts_with_letter(self.some_property), "Starts with a letter")
@invariant(lambda self: matches_no_double_underscore(self.some_property), "No double underscore")
@invariant(lambda self: len(self.some_property) <= 10, "At most 10")
class Something(Parent):
    """Represent something."""

    def __init__(self, some_property: str) -> None:
        Parent.__init__(self, some_property)


__version__ = "dummy"
__xml_namespace__ = "https://dummy.com"
'''


def all_targets(seed: int = 0, jobs: int = 8, **_: Any) -> Dict[str, Any]:
    import multiprocessing as mp
    from native import c02, c11
    targets = ["cpp", "csharp", "golang", "java", "jsonschema", "python", "typescript", "xsd"]
    tasks = [("base model 2 of native/c02.py", c02.BASE2, t) for t in targets]
    tasks += [("harness model of native/c11.py", c11.MODEL, t) for t in targets if t not in ("cpp", "java")]
    tasks += [("a child adding three patterns to a property constrained by its parent", TIGHTENING, t)
              for t in targets]
    with mp.get_context("fork").Pool(jobs) as pool:
        res = pool.map(_one, tasks, chunksize=1)
    failures: List[Any] = []
    for name, target, runs in res:
        first = runs[0]
        for k, r in enumerate(runs[1:], start=1):
            if r != first:
                what = [lbl for lbl, a, b in zip(("exit status", "stdout", "stderr", "files"), first, r) if a != b]
                failures.append({"model": name, "target": target, "hash_seeds": ["0", ("1", "12345")[k - 1]],
                                 "observed": f"{', '.join(what)} differ between two runs on the same inputs"})
                break
        if first[0] != 0:
            failures.append({"model": name, "target": target, "observed": f"the run failed: {first[2][:300]}"})
    return {"cases": len(tasks) * 3, "distinct": len(tasks), "failures": failures[:6], "exhaustive": False,
            "samples": [{"targets": targets, "seeds": ["0", "1", "12345"]}]}
