"""C22 bounded stand-in: run the real generator under different hash seeds and compare everything it emits."""
import hashlib
import os
import pathlib
import subprocess
import sys
import tempfile
from typing import Any, Dict, List, Tuple

REPO = pathlib.Path(os.environ.get("VERIF_REPO", "/repo"))
if not (REPO / "dev").exists():
    REPO = pathlib.Path("/repo")
PKG_ROOT = pathlib.Path(os.environ.get("VERIF_REPO", "/repo"))

BAD_CONSTRUCTOR = '''\
"""Model."""

class Something:
    """Something."""

    a: int
    """A"""

    b: int
    """B"""

    def __init__(self, a: int, b: int, c: int, d: int, e: int) -> None:
        self.a = a
        self.b = b


__version__ = "V1"
__xml_namespace__ = "https://example.com"
'''

DRIVER = r'''
import io, sys, pathlib
from aas_core_codegen import main
p = main.Parameters(model_path=pathlib.Path(sys.argv[1]), target=main.Target(sys.argv[2]),
                    snippets_dir=pathlib.Path(sys.argv[3]), output_dir=pathlib.Path(sys.argv[4]))
out, err = io.StringIO(), io.StringIO()
rc = main.execute(p, out, err)
sys.stdout.write(out.getvalue().replace(sys.argv[4], "<out>"))
sys.stderr.write(err.getvalue().replace(sys.argv[1], "<model>"))
sys.exit(rc)
'''


def _digest_dir(d: pathlib.Path) -> str:
    h = hashlib.sha256()
    for p in sorted(d.rglob("*")):
        if p.is_file():
            h.update(str(p.relative_to(d)).encode())
            h.update(p.read_bytes())
    return h.hexdigest()


def _run(model: pathlib.Path, target: str, snippets: pathlib.Path, seed: str) -> Tuple[int, str, str, str]:
    with tempfile.TemporaryDirectory() as out:
        env = dict(os.environ)
        env["PYTHONHASHSEED"] = seed
        env["PYTHONPATH"] = str(PKG_ROOT)
        p = subprocess.run([sys.executable, "-c", DRIVER, str(model), target, str(snippets), out],
                           capture_output=True, text=True, env=env, timeout=600)
        return p.returncode, p.stdout, p.stderr, _digest_dir(pathlib.Path(out))


def bounded(seed: int = 0, seeds: Any = None, **_: Any) -> Dict[str, Any]:
    seeds = seeds or ["0", "1", "2"]
    cases: List[Tuple[str, pathlib.Path, str, pathlib.Path]] = []
    exp = REPO / "dev" / "test_data" / "main"
    for target, case in (("jsonschema", "enum"), ("xsd", "constrained_primitives"), ("python", "list_of_classes")):
        cdir = exp / target / "expected" / case
        model = cdir / "meta_model.py"
        if not model.exists():
            model = REPO / "dev" / "test_data" / "common_meta_models" / f"{case}.py"
        cases.append((target, model, case, cdir / "input" / "snippets"))
    failures: List[Any] = []
    n = 0
    with tempfile.TemporaryDirectory() as tmp:
        bad = pathlib.Path(tmp) / "bad_model.py"
        bad.write_text(BAD_CONSTRUCTOR, encoding="utf-8")
        cases.append(("jsonschema", bad, "constructor-with-extra-arguments",
                      exp / "jsonschema" / "expected" / "enum" / "input" / "snippets"))
        for target, model, name, snippets in cases:
            ref = None
            for s in seeds:
                n += 1
                got = _run(model, target, snippets, s)
                if ref is None:
                    ref = got
                elif got != ref and len(failures) < 3:
                    what = [k for k, (a, b) in zip(("exit status", "stdout", "stderr", "output files"), zip(ref, got)) if a != b]
                    failures.append({"target": target, "model": name, "seeds": [seeds[0], s], "differs": what,
                                     "stderr_a": ref[2][:300], "stderr_b": got[2][:300]})
    return {"cases": n, "distinct": len(cases), "failures": failures,
            "samples": [{"target": c[0], "model": c[2], "hash_seeds": seeds} for c in cases[:2]]}
