"""C10 / C29 (examples-bounded): constructor arguments of the generated Python SDK reach the right properties.

A child class may list the inherited constructor arguments in another order than its parent (the front end only
demands that arguments follow the property order separately for those with and without a default).  The generated
child constructor calls the parent's ``__init__`` -- positionally.  One meta-model with a parent of three arguments and
children that reorder them (by giving one a default) and add their own; every class is instantiated by keyword, every
property must hold the value passed for it, and the instance must survive the JSON and XML round trips field by field.
"""
import importlib
import io
import pathlib
import sys
import tempfile
from typing import Any, Dict, List

from aas_core_codegen import main as cg_main

MODEL = '''\
@serialization(with_model_type=True)
class Measurement(DBC):
    """Represent a measurement."""

    lower: int
    """Lower"""

    upper: int
    """Upper"""

    label: str
    """Label"""

    def __init__(self, lower: int, upper: int, label: str) -> None:
        self.lower = lower
        self.upper = upper
        self.label = label


class Temperature(Measurement):
    """Represent a temperature: ``lower`` gets a default and moves behind the others."""

    unit: str
    """Unit"""

    def __init__(self, upper: int, label: str, unit: str, lower: int = 0) -> None:
        Measurement.__init__(self, lower=lower, upper=upper, label=label)
        self.unit = unit


class Pressure(Measurement):
    """Represent a pressure: two inherited arguments get a default."""

    scale: Optional[str]
    """Scale"""

    def __init__(self, label: str, lower: int = 1, upper: int = 2, scale: Optional[str] = None) -> None:
        Measurement.__init__(self, lower=lower, upper=upper, label=label)
        self.scale = scale


class Body_temperature(Temperature):
    """Represent a body temperature: a grandchild that reorders once more."""

    patient: str
    """Patient"""

    def __init__(self, label: str, unit: str, patient: str, lower: int = 30, upper: int = 42) -> None:
        Temperature.__init__(self, upper=upper, label=label, unit=unit, lower=lower)
        self.patient = patient


class Marker(DBC):
    """Represent a class without properties."""

    def __init__(self) -> None:
        pass


class Ward(DBC):
    """Represent a container."""

    measurements: List[Measurement]
    """Measurements"""

    def __init__(self, measurements: List[Measurement]) -> None:
        self.measurements = measurements


__version__ = "dummy"
__xml_namespace__ = "https://dummy.com"
'''

CASES = [
    ("Measurement", dict(lower=-5, upper=37, label="m")),
    ("Temperature", dict(upper=37, label="t", unit="degC", lower=-5)),
    ("Temperature", dict(upper=37, label="t", unit="degC")),
    ("Pressure", dict(label="p", lower=3, upper=9, scale="bar")),
    ("Pressure", dict(label="p")),
    ("BodyTemperature", dict(label="b", unit="degC", patient="x", upper=41, lower=35)),
    ("BodyTemperature", dict(label="b", unit="degC", patient="x")),
]
DEFAULTS = {"Temperature": dict(lower=0), "Pressure": dict(lower=1, upper=2, scale=None),
            "BodyTemperature": dict(upper=42, lower=30)}


def bounded(seed: int = 0, **_: Any) -> Dict[str, Any]:
    failures: List[Dict[str, Any]] = []
    cases = 0
    with tempfile.TemporaryDirectory() as d:
        root = pathlib.Path(d)
        (root / "snippets").mkdir()
        module = f"c10xsdk{abs(hash(d)) % 10 ** 8}"
        (root / "snippets" / "qualified_module_name.txt").write_text(module, encoding="utf-8")
        model = root / "meta_model.py"
        model.write_text(MODEL, encoding="utf-8")
        (root / "python").mkdir()
        stdout, stderr = io.StringIO(), io.StringIO()
        try:
            rc = cg_main.execute(cg_main.Parameters(model_path=model, target=cg_main.Target.PYTHON,
                                                    snippets_dir=root / "snippets", output_dir=root / "python",
                                                    cache_model=False), stdout=stdout, stderr=stderr)
        except BaseException as e:  # noqa
            return {"cases": 1, "distinct": 0, "exhaustive": False,
                    "failures": [{"observed": f"the python generator raised {type(e).__name__}: {str(e)[:200]}"}]}
        if rc != 0:
            return {"cases": 1, "distinct": 0, "exhaustive": False,
                    "failures": [{"observed": f"the python generator reported: {stderr.getvalue()[:400]}"}]}
        sys.path.insert(0, str(root / "python"))
        try:
            T = importlib.import_module(f"{module}.types")
            J = importlib.import_module(f"{module}.jsonization")
            X = importlib.import_module(f"{module}.xmlization")

            def fields(x: Any) -> Dict[str, Any]:
                return {k: v for k, v in vars(x).items()}
            built = []
            for cls_name, kwargs in CASES:
                cases += 1
                inst = getattr(T, cls_name)(**kwargs)
                want = dict(DEFAULTS.get(cls_name, {}))
                want.update(kwargs)
                got = fields(inst)
                if got != want:
                    failures.append({"property": "C10", "class": cls_name, "arguments": kwargs,
                                     "observed": f"constructed by keyword, the properties are {got}, expected {want}"})
                built.append((cls_name, want, inst))
            for cls_name, want, inst in built:
                for how, back in (("JSON", lambda i: J.measurement_from_jsonable(J.to_jsonable(i))),
                                  ("XML", lambda i: X.measurement_from_str(X.to_str(i)))):
                    cases += 1
                    try:
                        again = back(inst)
                    except BaseException as e:  # noqa
                        failures.append({"property": "C10", "class": cls_name, "observed": f"{how} round trip raised "
                                         f"{type(e).__name__}: {str(e)[:120]}"})
                        continue
                    if type(again) is not type(inst) or fields(again) != want:
                        failures.append({"property": "C10", "class": cls_name,
                                         "observed": f"after the {how} round trip the properties are {fields(again)}, "
                                                     f"expected {want}"})
            # a class without properties: round trips and malformed documents
            for how, back, bads in (
                    ("JSON", lambda i: J.marker_from_jsonable(J.to_jsonable(i)), [[], "x", None]),
                    ("XML", lambda i: X.marker_from_str(X.to_str(i)),
                     ['<marker xmlns="https://dummy.com"><x/></marker>', '<marker xmlns="https://dummy.com">text</marker>',
                      '<other xmlns="https://dummy.com"/>'])):
                cases += 1
                try:
                    again_m = back(T.Marker())
                    if type(again_m) is not T.Marker:
                        failures.append({"property": "C10", "class": "Marker", "observed": f"{how} round trip gives "
                                         f"{type(again_m).__name__}"})
                except BaseException as e:  # noqa
                    failures.append({"property": "C10", "class": "Marker", "observed": f"{how} round trip raised "
                                     f"{type(e).__name__}: {str(e)[:120]}"})
                for bad in bads:
                    cases += 1
                    try:
                        if how == "JSON":
                            J.marker_from_jsonable(bad)
                        else:
                            X.marker_from_str(bad)
                        failures.append({"property": "C10", "class": "Marker", "document": repr(bad),
                                         "observed": f"the malformed {how} document is de-serialized without an error"})
                    except (J.DeserializationException, X.DeserializationException):
                        pass
                    except BaseException as e:  # noqa
                        failures.append({"property": "C10", "class": "Marker", "document": repr(bad),
                                         "observed": f"raised {type(e).__name__} instead of DeserializationException"})
            cases += 1
            ward = T.Ward(measurements=[i for _, _, i in built])
            try:
                again_w = J.ward_from_jsonable(J.to_jsonable(ward))
                if [fields(x) for x in again_w.measurements] != [w for _, w, _ in built]:
                    failures.append({"property": "C10", "class": "Ward", "observed": "nested instances differ after the "
                                     "JSON round trip"})
            except BaseException as e:  # noqa
                failures.append({"property": "C10", "class": "Ward", "observed": f"the JSON round trip of the container "
                                 f"raised {type(e).__name__}: {str(e)[:120]}"})
        finally:
            sys.path.remove(str(root / "python"))
            for m in [m for m in sys.modules if m == module or m.startswith(module + ".")]:
                del sys.modules[m]
    cases += 1
    why = _namespace_case()
    if why is not None:
        failures.append({"property": "C10", "case": "XML namespace with an ampersand", "observed": why})
    return {"cases": cases, "distinct": cases, "failures": failures[:6], "exhaustive": False,
            "samples": [{"classes": 4, "instances": len(CASES)}]}


def _namespace_case() -> Any:
    """A meta-model whose XML namespace contains ``&`` (a URL with a query): the SDK must read what it writes."""
    text = MODEL.replace('__xml_namespace__ = "https://dummy.com"', '__xml_namespace__ = "https://dummy.com/aas?a=1&b=2"')
    with tempfile.TemporaryDirectory() as d:
        root = pathlib.Path(d)
        (root / "snippets").mkdir()
        module = f"c10xns{abs(hash(d)) % 10 ** 8}"
        (root / "snippets" / "qualified_module_name.txt").write_text(module, encoding="utf-8")
        (root / "meta_model.py").write_text(text, encoding="utf-8")
        (root / "python").mkdir()
        stdout, stderr = io.StringIO(), io.StringIO()
        try:
            rc = cg_main.execute(cg_main.Parameters(model_path=root / "meta_model.py", target=cg_main.Target.PYTHON,
                                                    snippets_dir=root / "snippets", output_dir=root / "python",
                                                    cache_model=False), stdout=stdout, stderr=stderr)
        except BaseException as e:  # noqa
            return f"the python generator raised {type(e).__name__}"
        if rc != 0:
            return None  # the generator refuses such a namespace: fine
        sys.path.insert(0, str(root / "python"))
        try:
            T = importlib.import_module(f"{module}.types")
            X = importlib.import_module(f"{module}.xmlization")
            doc = X.to_str(T.Measurement(lower=1, upper=2, label="m"))
            try:
                back = X.measurement_from_str(doc)
            except BaseException as e:  # noqa
                return f"the SDK cannot read the document it wrote ({type(e).__name__}: {str(e)[:80]}): {doc[:90]}"
            if vars(back) != dict(lower=1, upper=2, label="m"):
                return f"the round trip changed the instance: {vars(back)}"
        finally:
            sys.path.remove(str(root / "python"))
            for m in [m for m in sys.modules if m == module or m.startswith(module + ".")]:
                del sys.modules[m]
    return None
