"""C08 (examples-bounded): verification of lists of constrained primitives in the generated Python SDK.

The Python generator writes the loop over such a list in two layouts, depending on the length of the line
(``for error in verify_<primitive>(<loop variable>)`` longer than 70 characters or not); the loop variable grows with
the position of the list property in the class (an_item, another_item, yet_another_item, ...).  Two constrained
primitives (a short and a long name; a length and a pattern invariant each) x four list properties per class exercise
both layouts.  An offending value is planted at every position of every list; ``verify`` must report exactly the
invariants that are false when evaluated directly in Python, with the description verbatim and the path ``.prop[i]``.
"""
import importlib
import io
import pathlib
import re
import sys
import tempfile
from typing import Any, Dict, List, Tuple

from aas_core_codegen import main as cg_main

PRIMITIVES = ["Tag", "Non_empty_XML_serializable_string"]
PROPS = ["first_labels", "second_labels", "third_labels", "fourth_labels"]


def _model() -> str:
    lines = ["@verification", "def matches_word(text: str) -> bool:", '    """Check that :paramref:`text` is a word."""',
             '    pattern = f"^[a-z]*$"', "    return match(pattern, text) is not None", "", ""]
    for prim in PRIMITIVES:
        lines += [f'@invariant(lambda self: len(self) > 0, "{prim} must not be empty")',
                  f'@invariant(lambda self: matches_word(self), "{prim} must be a word")',
                  f"class {prim}(str, DBC):", f'    """Represent {prim}."""', "", ""]
    for prim in PRIMITIVES:
        cls = f"Holder_of_{prim}"
        lines += [f"class {cls}(DBC):", f'    """Represent a holder of {prim}."""', ""]
        for p in PROPS:
            lines += [f"    {p}: List[{prim}]", f'    """{p}"""', ""]
        lines += ["    def __init__(self, " + ", ".join(f"{p}: List[{prim}]" for p in PROPS) + ") -> None:"]
        lines += [f"        self.{p} = {p}" for p in PROPS]
        lines += ["", ""]
    lines += ['__version__ = "dummy"', '__xml_namespace__ = "https://dummy.com"', ""]
    return "\n".join(lines)


def bounded(seed: int = 0, **_: Any) -> Dict[str, Any]:
    failures: List[Dict[str, Any]] = []
    cases = 0
    with tempfile.TemporaryDirectory() as d:
        root = pathlib.Path(d)
        (root / "snippets").mkdir()
        module = f"c08xsdk{abs(hash(d)) % 10 ** 8}"
        (root / "snippets" / "qualified_module_name.txt").write_text(module, encoding="utf-8")
        model = root / "meta_model.py"
        model.write_text(_model(), encoding="utf-8")
        (root / "python").mkdir()
        stdout, stderr = io.StringIO(), io.StringIO()
        try:
            rc = cg_main.execute(cg_main.Parameters(model_path=model, target=cg_main.Target.PYTHON,
                                                    snippets_dir=root / "snippets", output_dir=root / "python",
                                                    cache_model=False), stdout=stdout, stderr=stderr)
        except BaseException as e:  # noqa
            return {"cases": 1, "distinct": 0, "exhaustive": False,
                    "failures": [{"observed": f"the python generator raised {type(e).__name__}: {str(e)[:200]}"}]}
        if rc != 0:
            return {"cases": 1, "distinct": 0, "exhaustive": False,
                    "failures": [{"observed": f"the python generator reported: {stderr.getvalue()[:400]}"}]}
        code = (root / "python" / module / "verification.py").read_text(encoding="utf-8")
        layouts = {"one line": len(re.findall(r"for error in verify_\w+\(\w+\):", code)),
                   "broken over lines": len(re.findall(r"for error in verify_\w+\(\n", code))}
        if min(layouts.values()) == 0:
            failures.append({"observed": f"the model does not exercise both layouts of the loop: {layouts}"})
        sys.path.insert(0, str(root / "python"))
        try:
            T = importlib.import_module(f"{module}.types")
            V = importlib.import_module(f"{module}.verification")
            for prim in PRIMITIVES:
                cls = getattr(T, "".join(part.capitalize() if not part.isupper() else part
                                         for part in f"Holder_of_{prim}".split("_")), None)
                if cls is None:
                    cls = next(getattr(T, n) for n in dir(T) if n.lower() == f"holderof{prim}".replace("_", "").lower())
                for bad, broken in (("", [f"{prim} must not be empty"]), ("A1", [f"{prim} must be a word"])):
                    for p_bad in PROPS:
                        for pos in range(3):
                            cases += 1
                            values = {p: ["ab", "cd", "ef"] for p in PROPS}
                            values[p_bad] = list(values[p_bad])
                            values[p_bad][pos] = bad
                            inst = cls(**values)
                            want = sorted((f".{p_bad}[{pos}]", msg) for msg in broken)
                            try:
                                got = sorted((str(e.path), str(e.cause)) for e in V.verify(inst))
                            except BaseException as e:  # noqa
                                failures.append({"property": "C08", "class": cls.__name__, "prop": p_bad, "index": pos,
                                                 "value": bad, "observed": f"verify raised {type(e).__name__}: {str(e)[:120]}"})
                                continue
                            if got != want:
                                failures.append({"property": "C08", "class": cls.__name__, "prop": p_bad, "index": pos,
                                                 "value": bad, "observed": f"verify reports {got}, the invariants that "
                                                                           f"are false on the items are {want}"})
                cases += 1
                ok = cls(**{p: ["ab"] for p in PROPS})
                try:
                    got_ok = [(str(e.path), str(e.cause)) for e in V.verify(ok)]
                except BaseException as e:  # noqa
                    failures.append({"property": "C08", "class": cls.__name__,
                                     "observed": f"verify of a valid instance raised {type(e).__name__}: {str(e)[:120]}"})
                    continue
                if got_ok:
                    failures.append({"property": "C08", "class": cls.__name__, "observed": f"a valid instance is reported: {got_ok}"})
        finally:
            sys.path.remove(str(root / "python"))
            for m in [m for m in sys.modules if m == module or m.startswith(module + ".")]:
                del sys.modules[m]
    return {"cases": cases, "distinct": cases, "failures": failures[:6], "exhaustive": False,
            "samples": [{"layouts_of_the_loop_in_verification_py": layouts}]}
