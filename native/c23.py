"""Native replays for C23."""
import pathlib
from typing import Any, Dict, Optional

from aas_core_codegen import main


def replay_parameters(obligation: str = "", model: Optional[Dict[str, str]] = None, desc: str = "", **_: Any) -> Dict[str, Any]:
    for flag in (False, True):
        p = main.Parameters(model_path=pathlib.Path("m.py"), target=main.Target.PYTHON,
                            snippets_dir=pathlib.Path("s"), output_dir=pathlib.Path("o"), cache_model=flag)
        if p.cache_model is not flag:
            return {"confirmed": True, "input": {"cache_model": flag}, "observed": f"Parameters.cache_model == {p.cache_model}"}
        if (p.model_path, p.snippets_dir, p.output_dir, p.target) != (
                pathlib.Path("m.py"), pathlib.Path("s"), pathlib.Path("o"), main.Target.PYTHON):
            return {"confirmed": True, "input": {"cache_model": flag}, "observed": "another field differs from its argument"}
    return {"confirmed": False}
