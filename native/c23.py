"""Native replays for C23 / C24 (model cache) on the real code."""
import os
import pathlib
import pickle
import tempfile
from typing import Any, Dict, List, Optional

from aas_core_codegen import main, run

REPO = pathlib.Path(os.environ.get("VERIF_REPO", "/repo"))
if not (REPO / "dev").exists():
    REPO = pathlib.Path("/repo")
MODEL = REPO / "dev" / "test_data" / "common_meta_models" / "enum.py"


def replay_parameters(obligation: str = "", model: Optional[Dict[str, str]] = None, desc: str = "", **_: Any) -> Dict[str, Any]:
    for flag in (False, True):
        p = main.Parameters(model_path=pathlib.Path("m.py"), target=main.Target.PYTHON,
                            snippets_dir=pathlib.Path("s"), output_dir=pathlib.Path("o"), cache_model=flag)
        if p.cache_model is not flag:
            return {"confirmed": True, "input": {"cache_model": flag}, "observed": f"Parameters.cache_model == {p.cache_model}"}
        if (p.model_path, p.snippets_dir, p.output_dir, p.target) != (
                pathlib.Path("m.py"), pathlib.Path("s"), pathlib.Path("o"), main.Target.PYTHON):
            return {"confirmed": True, "input": {"cache_model": flag}, "observed": "another field differs from its argument"}
    return {"confirmed": False}


def _listing(d: pathlib.Path) -> List[str]:
    return sorted(str(p.relative_to(d)) for p in d.glob("**/*") if p.is_file())


def replay_load_model(obligation: str = "", model: Optional[Dict[str, str]] = None, desc: str = "", **_: Any) -> Dict[str, Any]:
    """Run the real load_model with a private temporary directory and look at what it left there:
    (1) without the flag nothing may appear; (2) with the flag, a failing pickle.dump (simulated crash in
    the middle of the write) must leave no ``model-*.pickle`` entry; (3) a completed run leaves one
    complete entry that a second run reads back."""
    old_tmp = tempfile.tempdir
    try:
        with tempfile.TemporaryDirectory(dir=old_tmp) as d:
            tempfile.tempdir = d
            res, err = run.load_model(MODEL, cache_model=False)
            if err is not None:
                return {"confirmed": False, "note": f"model not accepted: {err[:200]}"}
            if _listing(pathlib.Path(d)):
                return {"confirmed": True, "input": {"cache_model": False, "model": str(MODEL)},
                        "observed": f"files appeared in the cache directory without --cache_model: {_listing(pathlib.Path(d))}"}
        tempfile.tempdir = old_tmp
        with tempfile.TemporaryDirectory(dir=old_tmp) as d:
            tempfile.tempdir = d
            real_dump = pickle.dump

            def failing_dump(obj: Any, fid: Any, *a: Any, **k: Any) -> None:
                fid.write(b"\x80\x04partial")
                fid.flush()
                raise OSError("simulated crash in the middle of the cache write")

            pickle.dump = failing_dump  # type: ignore
            try:
                try:
                    run.load_model(MODEL, cache_model=True)
                except OSError:
                    pass
            finally:
                pickle.dump = real_dump  # type: ignore
            entries = [f for f in _listing(pathlib.Path(d)) if f.endswith(".pickle")]
            if entries:
                return {"confirmed": True, "input": {"cache_model": True, "fault": "pickle.dump fails half way"},
                        "observed": f"a partially written shared cache entry exists: {entries}"}
            res2, err2 = run.load_model(MODEL, cache_model=True)
            entries = [f for f in _listing(pathlib.Path(d)) if f.endswith(".pickle")]
            if len(entries) != 1:
                return {"confirmed": True, "input": {"cache_model": True}, "observed": f"cache entries after a completed run: {entries}"}
            with open(os.path.join(d, entries[0]), "rb") as fid:
                cached = pickle.load(fid)
            if not isinstance(cached, run._Cached):
                return {"confirmed": True, "input": {"cache_model": True}, "observed": "the cache entry is not a _Cached"}
            res3, err3 = run.load_model(MODEL, cache_model=True)
            if (err3 is None) != (err2 is None):
                return {"confirmed": True, "input": {"cache_model": True}, "observed": "warm run differs from cold run"}
            # (4) a run without the flag must not read an existing entry: plant a marked one
            with open(os.path.join(d, entries[0]), "wb") as fid:
                pickle.dump(run._Cached(symbol_table="SENTINEL", atok=None), fid)  # type: ignore
            res4, err4 = run.load_model(MODEL, cache_model=False)
            if res4 is not None and res4[0] == "SENTINEL":
                return {"confirmed": True, "input": {"cache_model": False, "history": "an entry for this model text exists"},
                        "observed": "a run without --cache_model returned the content of the cache entry"}
    finally:
        tempfile.tempdir = old_tmp
    return {"confirmed": False}
