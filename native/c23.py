"""Native replays for C23 / C24 (model cache) on the real code."""
import os
import pathlib
import pickle
import tempfile
from typing import Any, Dict, List, Optional

from aas_core_codegen import main, run

REPO = pathlib.Path(os.environ.get("VERIF_REPO", "/repo"))
if not (REPO / "dev").exists():
    REPO = pathlib.Path("/repo")
MODEL = REPO / "dev" / "test_data" / "common_meta_models" / "enum.py"


def replay_parameters(obligation: str = "", model: Optional[Dict[str, str]] = None, desc: str = "", **_: Any) -> Dict[str, Any]:
    for flag in (False, True):
        p = main.Parameters(model_path=pathlib.Path("m.py"), target=main.Target.PYTHON,
                            snippets_dir=pathlib.Path("s"), output_dir=pathlib.Path("o"), cache_model=flag)
        if p.cache_model is not flag:
            return {"confirmed": True, "input": {"cache_model": flag}, "observed": f"Parameters.cache_model == {p.cache_model}"}
        if (p.model_path, p.snippets_dir, p.output_dir, p.target) != (
                pathlib.Path("m.py"), pathlib.Path("s"), pathlib.Path("o"), main.Target.PYTHON):
            return {"confirmed": True, "input": {"cache_model": flag}, "observed": "another field differs from its argument"}
    return {"confirmed": False}


def _listing(d: pathlib.Path) -> List[str]:
    return sorted(str(p.relative_to(d)) for p in d.glob("**/*") if p.is_file())


def replay_load_model(obligation: str = "", model: Optional[Dict[str, str]] = None, desc: str = "", **_: Any) -> Dict[str, Any]:
    """Run the real load_model with a private temporary directory and look at what it left there:
    (1) without the flag nothing may appear; (2) with the flag, a failing pickle.dump (simulated crash in
    the middle of the write) must leave no ``model-*.pickle`` entry; (3) a completed run leaves one
    complete entry that a second run reads back."""
    old_tmp = tempfile.tempdir
    try:
        with tempfile.TemporaryDirectory(dir=old_tmp) as d:
            tempfile.tempdir = d
            res, err = run.load_model(MODEL, cache_model=False)
            if err is not None:
                return {"confirmed": False, "note": f"model not accepted: {err[:200]}"}
            if _listing(pathlib.Path(d)):
                return {"confirmed": True, "input": {"cache_model": False, "model": str(MODEL)},
                        "observed": f"files appeared in the cache directory without --cache_model: {_listing(pathlib.Path(d))}"}
        tempfile.tempdir = old_tmp
        with tempfile.TemporaryDirectory(dir=old_tmp) as d:
            tempfile.tempdir = d
            real_dump = pickle.dump

            def failing_dump(obj: Any, fid: Any, *a: Any, **k: Any) -> None:
                fid.write(b"\x80\x04partial")
                fid.flush()
                raise OSError("simulated crash in the middle of the cache write")

            pickle.dump = failing_dump  # type: ignore
            try:
                try:
                    run.load_model(MODEL, cache_model=True)
                except OSError:
                    pass
            finally:
                pickle.dump = real_dump  # type: ignore
            entries = [f for f in _listing(pathlib.Path(d)) if f.endswith(".pickle")]
            if entries:
                return {"confirmed": True, "input": {"cache_model": True, "fault": "pickle.dump fails half way"},
                        "observed": f"a partially written shared cache entry exists: {entries}"}
            # (2b) what another run (or the next run after a crash) sees the instant the entry gets its shared name
            seen_at_rename: List[str] = []
            real_rename = pathlib.Path.rename

            def observing_rename(self: pathlib.Path, target: Any) -> Any:
                r = real_rename(self, target)
                try:
                    with open(target, "rb") as f2:
                        pickle.load(f2)
                except BaseException as e:  # noqa
                    seen_at_rename.append(f"{type(e).__name__}: {e}")
                return r

            # a model whose pickle ends in a chunk shorter than the file buffer (such a tail stays buffered until
            # the file is closed): found by padding the model with a comment
            padded = None
            base_text = MODEL.read_text(encoding="utf-8")
            for pad in range(15000, 40000, 150):
                cand = base_text + "\n# " + "x" * pad + "\n"
                cand_path = pathlib.Path(d) / "padded_model.py"
                cand_path.write_text(cand, encoding="utf-8")
                rr, ee = run.load_model(cand_path, cache_model=False)
                if ee is not None or rr is None:
                    break

                class _W:
                    def __init__(self) -> None:
                        self.sizes: List[int] = []

                    def write(self, b: bytes) -> int:
                        self.sizes.append(len(b))
                        return len(b)

                w = _W()
                real_dump(run._Cached(symbol_table=rr[0], atok=rr[1]), w)
                if len(w.sizes) > 1 and 0 < w.sizes[-1] < 1024:
                    padded = cand_path
                    break
            pathlib.Path.rename = observing_rename  # type: ignore
            try:
                if padded is not None:
                    run.load_model(padded, cache_model=True)
                res2, err2 = run.load_model(MODEL, cache_model=True)
            finally:
                pathlib.Path.rename = real_rename  # type: ignore
            if padded is not None:
                for f in _listing(pathlib.Path(d)):
                    if f.endswith(".pickle"):
                        os.unlink(os.path.join(d, f))
                padded.unlink()
                res2, err2 = run.load_model(MODEL, cache_model=True)
            if seen_at_rename:
                return {"confirmed": True, "input": {"cache_model": True, "schedule": "a second run (or a crash) right "
                                                     "after the rename to the shared name"},
                        "observed": f"the shared entry is not a complete pickle at that instant: {seen_at_rename[0]}"}
            entries = [f for f in _listing(pathlib.Path(d)) if f.endswith(".pickle")]
            if len(entries) != 1:
                return {"confirmed": True, "input": {"cache_model": True}, "observed": f"cache entries after a completed run: {entries}"}
            with open(os.path.join(d, entries[0]), "rb") as fid:
                cached = pickle.load(fid)
            if not isinstance(cached, run._Cached):
                return {"confirmed": True, "input": {"cache_model": True}, "observed": "the cache entry is not a _Cached"}
            res3, err3 = run.load_model(MODEL, cache_model=True)
            if (err3 is None) != (err2 is None):
                return {"confirmed": True, "input": {"cache_model": True}, "observed": "warm run differs from cold run"}
            # (4) a run without the flag must not read an existing entry: plant a marked one
            with open(os.path.join(d, entries[0]), "wb") as fid:
                pickle.dump(run._Cached(symbol_table="SENTINEL", atok=None), fid)  # type: ignore
            res4, err4 = run.load_model(MODEL, cache_model=False)
            if res4 is not None and res4[0] == "SENTINEL":
                return {"confirmed": True, "input": {"cache_model": False, "history": "an entry for this model text exists"},
                        "observed": "a run without --cache_model returned the content of the cache entry"}
    finally:
        tempfile.tempdir = old_tmp
    return {"confirmed": False}


def _plural(stem: str) -> str:
    return stem[:-1] + "ies" if stem.endswith("y") else stem + "s"


def _id_set_problems(root: Any, label: str) -> List[str]:
    """Every ``*_id_set`` attribute of every object reachable from ``root`` equals the ids of its list."""
    problems: List[str] = []
    seen = set()
    stack = [root]
    while stack:
        o = stack.pop()
        if id(o) in seen or isinstance(o, (str, int, float, bool, bytes, type(None))):
            continue
        seen.add(id(o))
        if isinstance(o, (list, tuple, set, frozenset)):
            stack.extend(o)
            continue
        if isinstance(o, dict):
            stack.extend(o.values())
            continue
        d = getattr(o, "__dict__", None)
        if not isinstance(d, dict) or type(o).__module__.startswith(("ast", "asttokens", "_ast")):
            continue
        for k, v in d.items():
            if k.endswith("_id_set"):
                src = _plural(k[: -len("_id_set")])
                if src in d:
                    if v != frozenset(id(x) for x in d[src]):
                        problems.append(f"{label}: {type(o).__name__} {getattr(o, 'name', '?')}.{k} != ids of .{src}")
                else:
                    problems.append(f"{label}: {type(o).__name__}.{k} has no list attribute {src}")
            stack.append(v)
    return problems


def pickle_roundtrip(seed: int = 0, max_classes: int = 3, with_big_model: bool = False, **_: Any) -> Dict[str, Any]:
    """Bounded: every accepted hierarchy of the C05 generator (<= max_classes classes, 3-level chains and diamonds
    included) is pickled and unpickled; the id-set invariants hold on the copy and every subclass query agrees."""
    import itertools
    from aas_core_codegen import intermediate
    from native import c05
    cases = accepted = 0
    failures: List[Dict[str, Any]] = []
    texts: List[str] = []
    for n in range(1, max_classes + 1):
        for shape in c05.shapes(n):
            names = ["A", "B", "C", "D", "E"][:n]
            abstract = [any(k in ps for ps in shape) for k in range(n)]
            for methods in (True, False):
                texts.append(c05.render(shape, names, abstract, [True if not shape[k] else None for k in range(n)],
                                        methods))
    # the recorded meta-models (enumerations, constrained primitives, interfaces, ...); the big one only if asked
    recorded = sorted((REPO / "dev" / "test_data" / "intermediate" / "expected").glob("**/meta_model.py"))
    recorded += sorted(p for p in (REPO / "dev" / "test_data" / "common_meta_models").glob("*.py")
                       if with_big_model or p.stat().st_size < 50000)
    texts.extend(p.read_text(encoding="utf-8") for p in recorded)
    for text in texts:
        cases += 1
        st, why = c05.translate(text)
        if st is None:
            continue
        accepted += 1
        bad = _id_set_problems(st, "original")
        copy = pickle.loads(pickle.dumps(st))
        bad += _id_set_problems(copy, "unpickled")
        orig_cls = [c for c in st.our_types if isinstance(c, intermediate.Class)]
        copy_cls = [c for c in copy.our_types if isinstance(c, intermediate.Class)]
        if [c.name for c in orig_cls] != [c.name for c in copy_cls]:
            bad.append("class lists differ")
        else:
            for (a, a2), (b, b2) in itertools.product(zip(orig_cls, copy_cls), repeat=2):
                if a.is_subclass_of(b) != a2.is_subclass_of(b2):
                    bad.append(f"unpickled: {a.name}.is_subclass_of({b.name}) = {a2.is_subclass_of(b2)}, "
                               f"original {a.is_subclass_of(b)}")
        if bad and len(failures) < 3:
            failures.append({"meta_model": text[:3000], "observed": bad[:4]})
    if accepted == 0:
        failures.append({"observed": "no generated meta-model was accepted"})
    return {"cases": cases, "distinct": accepted, "failures": failures, "exhaustive": True,
            "samples": [{"accepted": accepted, "recorded_models": len(recorded)}]}


# ---------------------------------------------------------------------------------------------------------------
# C23 / C04 (examples-bounded): the cache is transparent also when the model file is *edited* between runs

EDIT_MODEL = '''\
@implementation_specific
class Special(DBC):
    """Represent something whose snippet is missing: an error with a location in the generator phase."""

    value: str
    """Value"""

    def __init__(self, value: str) -> None:
        self.value = value


class Plain(DBC):
    """Represent something plain."""

    special: Optional[Special]
    """Special"""

    def __init__(self, special: Optional[Special] = None) -> None:
        self.special = special


__version__ = "dummy"
__xml_namespace__ = "https://dummy.com"
'''


def edited_models(seed: int = 0, **_: Any) -> Dict[str, Any]:
    """A warm-cache run on an edited model file must report exactly what a cold run on the same text reports
    (exit status, stdout, stderr with its line and column numbers, output files)."""
    import io
    import tempfile
    from aas_core_codegen import main as cg_main
    from native import c02
    variants = [("the original text", EDIT_MODEL), ("two blank lines prepended", "\n\n" + EDIT_MODEL),
                ("a comment line prepended", "# a comment\n" + EDIT_MODEL),
                ("without the final newline", EDIT_MODEL.rstrip("\n")),
                ("blank lines appended", EDIT_MODEL + "\n\n\n"),
                ("a blank line inserted before the second class", EDIT_MODEL.replace("\n\nclass Plain", "\n\n\nclass Plain")),
                ("trailing blanks after a statement", EDIT_MODEL.replace('"""Value"""', '"""Value"""   ')),
                ("the original text again", EDIT_MODEL)]
    failures: List[Dict[str, Any]] = []
    cases = 0

    def run_once(root: pathlib.Path, text: str, cache: bool, tag: str) -> Any:
        model = root / "meta_model.py"
        model.write_text(text, encoding="utf-8")
        out = root / f"out_{tag}"
        out.mkdir()
        stdout, stderr = io.StringIO(), io.StringIO()
        rc = cg_main.execute(cg_main.Parameters(model_path=model, target=cg_main.Target.JSONSCHEMA,
                                                snippets_dir=root / "snippets", output_dir=out, cache_model=cache),
                             stdout=stdout, stderr=stderr)
        files = sorted((str(p.relative_to(out)), p.read_bytes()) for p in out.rglob("*") if p.is_file())
        return rc, stdout.getvalue().replace(str(out), "<out>"), stderr.getvalue(), files
    old_tmp = os.environ.get("TMPDIR")
    with tempfile.TemporaryDirectory() as d:
        root = pathlib.Path(d)
        (root / "snippets").mkdir()
        for name, content in c02.SNIPPETS.items():
            (root / "snippets" / name).write_text(content, encoding="utf-8")
        (root / "tmp").mkdir()
        os.environ["TMPDIR"] = str(root / "tmp")  # the cache lives under tempfile.gettempdir()
        tempfile.tempdir = None
        try:
            for k, (what, text) in enumerate(variants):
                cases += 1
                try:
                    warm = run_once(root, text, True, f"warm{k}")
                    cold = run_once(root, text, False, f"cold{k}")
                except BaseException as e:  # noqa
                    failures.append({"variant": what, "observed": f"a run raised {type(e).__name__}: {str(e)[:120]}"})
                    continue
                if warm != cold:
                    diff = [n for n, a, b in zip(("exit status", "stdout", "stderr", "files"), warm, cold) if a != b]
                    failures.append({"variant": what, "sequence": [v for v, _ in variants[:k + 1]],
                                     "observed": f"with the cache the run differs from a run without it in: {', '.join(diff)}",
                                     "stderr_with_cache": warm[2][:300], "stderr_without_cache": cold[2][:300]})
        finally:
            if old_tmp is None:
                os.environ.pop("TMPDIR", None)
            else:
                os.environ["TMPDIR"] = old_tmp
            tempfile.tempdir = None
    return {"cases": cases, "distinct": cases, "failures": failures[:4], "exhaustive": False,
            "samples": [{"variants": [v for v, _ in variants]}]}
