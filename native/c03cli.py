"""C03 (bounded, configurations): exit status and report format over snippet directories, arguments and targets.

The proof of ``main.execute`` covers what it writes itself; the eight ``<target>/main.py:execute`` bodies are outside
the verifier's reach (their skeleton is scanned).  This unit runs the real command line over *configurations*:

* every target with each snippet of the complete set removed, and with each snippet replaced by unusable content,
* the argument checks of ``main.execute`` (missing model, model that is a directory, missing snippet directory, snippet
  directory that is a file, output directory that is a file, output directory below a file),
* a model that only the targets reject (a method that is not implementation-specific),

and judges every run with the contract of the property (``native.c02:_cli_contract``): exit 0 <=> nothing on stderr and
``Code generated to: <dir>`` closing stdout; otherwise status 1, nothing announced, stderr = one headline line ending
in ':' followed by '* ' entries and indented lines only.  A sample of the cases is repeated through
``python -m aas_core_codegen`` in a child process: the exit status of the process has to be the status of ``execute``.
"""
import io
import os
import pathlib
import subprocess
import sys
import tempfile
from typing import Any, Dict, List, Optional, Tuple

from aas_core_codegen import main as cg_main

from native import c02, c06

GARBAGE = ["", "\n", "* not an entry\n", "<<< \x00 >>>", "1 2 3", "[]", "null", "  leading", "ä:\n", "a\n\nb", "*/", "a::", "::a",
           "a..b", ".a", "a.", "1a", '"x"', "{}", "<a/>", "<xs:schema/>",
           '<xs:schema xmlns:xs="http://www.w3.org/2001/XMLSchema">text<xs:element name="x"/>tail</xs:schema>',
           "https://", "a://1", "github.com//x", "A.B", "_"]

# rejected by every SDK target (not by the front end): a method that is not implementation-specific
UNDERSTOOD_METHOD = '''\
class Something(DBC):
    """Represent something."""

    number: int
    """Number"""

    def __init__(self, number: int) -> None:
        self.number = number

    def twice(self) -> int:
        """Give the number twice."""
        return self.number + self.number


__version__ = "dummy"
__xml_namespace__ = "https://dummy.com"
'''


THROUGH_PROCESS = ["complete configuration, target python", "complete configuration, target xsd",
                   "method that is not implementation-specific, target python",
                   "snippet qualified_module_name.txt missing, target python", "snippet namespace.txt missing, target cpp",
                   "snippet schema_base.json missing, target jsonschema", "--model_path that does not exist",
                   "--snippets_dir that is a file", "--output_dir below a file"]


def _write_snippets(d: pathlib.Path, snippets: Dict[str, str]) -> None:
    d.mkdir()
    for name, content in snippets.items():
        (d / name).write_text(content, encoding="utf-8")


def _run(model: pathlib.Path, snippets: pathlib.Path, out: pathlib.Path, target: Any) -> Tuple[Optional[int], str, str, str]:
    stdout, stderr = io.StringIO(), io.StringIO()
    try:
        rc = cg_main.execute(cg_main.Parameters(model_path=model, target=target, snippets_dir=snippets, output_dir=out,
                                                cache_model=False), stdout=stdout, stderr=stderr)
    except BaseException as e:  # noqa
        return None, stdout.getvalue(), stderr.getvalue(), f"{type(e).__name__}: {str(e)[:200]}"
    return rc, stdout.getvalue(), stderr.getvalue(), ""


def _cases(root: pathlib.Path, garbage: int) -> List[Tuple[str, pathlib.Path, pathlib.Path, pathlib.Path, Any]]:
    """(what, model, snippets dir, output dir, target)"""
    good1 = root / "good.py"
    good1.write_text(c06.BASE, encoding="utf-8")
    # the C++ and Java generators do not support lists of primitives (recorded finding of C02): second base there
    good2 = root / "good2.py"
    good2.write_text(c02.BASE2, encoding="utf-8")
    understood = root / "understood.py"
    understood.write_text(UNDERSTOOD_METHOD, encoding="utf-8")
    full = root / "snippets_full"
    _write_snippets(full, c02.SNIPPETS)
    a_file = root / "a_file"
    a_file.write_text("x", encoding="utf-8")
    cases: List[Tuple[str, pathlib.Path, pathlib.Path, pathlib.Path, Any]] = []
    k = 0

    def out_dir() -> pathlib.Path:
        nonlocal k
        k += 1
        return root / f"out_{k}"

    for target in c02.TARGETS:
        good = good2 if target.value in ("cpp", "java") else good1
        cases.append((f"complete configuration, target {target.value}", good, full, out_dir(), target))
        cases.append((f"method that is not implementation-specific, target {target.value}", understood, full, out_dir(),
                      target))
        for name in c02.SNIPPETS:
            d = root / f"snippets_without_{k}_{name}"
            _write_snippets(d, {n: c for n, c in c02.SNIPPETS.items() if n != name})
            cases.append((f"snippet {name} missing, target {target.value}", good, d, out_dir(), target))
        for g, content in enumerate(GARBAGE[:garbage]):
            for name in c02.SNIPPETS:
                d = root / f"snippets_garbage_{k}_{g}_{name}"
                _write_snippets(d, {n: (content if n == name else c) for n, c in c02.SNIPPETS.items()})
                cases.append((f"snippet {name} with the content {content!r}, target {target.value}", good, d, out_dir(),
                              target))
        empty = root / f"snippets_empty_{target.value}"
        empty.mkdir()
        cases.append((f"empty snippet directory, target {target.value}", good, empty, out_dir(), target))
    py = cg_main.Target.PYTHON
    good = good1
    cases.append(("--model_path that does not exist", root / "nope.py", full, out_dir(), py))
    cases.append(("--model_path that ends in a line break and does not exist", root / "nope.py\n", full, out_dir(), py))
    cases.append(("--model_path that is a directory", full, full, out_dir(), py))
    not_utf8 = root / "not_utf8.py"
    not_utf8.write_bytes(c06.BASE.encode("utf-8") + b"# \xff\xfe\n")
    cases.append(("model file that is not encoded in UTF-8", not_utf8, full, out_dir(), py))
    cases.append(("--snippets_dir that does not exist", good, root / "nope", out_dir(), py))
    cases.append(("--snippets_dir that is a file", good, a_file, out_dir(), py))
    cases.append(("--output_dir that is a file", good, full, a_file, py))
    cases.append(("--output_dir below a file", good, full, a_file / "below", py))
    return cases


def bounded(seed: int = 0, garbage: int = 8, **_: Any) -> Dict[str, Any]:
    failures: List[Dict[str, Any]] = []
    n = 0
    rejected = 0
    accepted = 0
    with tempfile.TemporaryDirectory() as d:
        root = pathlib.Path(d)
        cases = _cases(root, garbage)
        through_process: List[Tuple[str, pathlib.Path, pathlib.Path, pathlib.Path, Any, int]] = []
        for what, model, snippets, out, target in cases:
            n += 1
            rc, out_text, err_text, raised = _run(model, snippets, out, target)
            if rc is None:
                failures.append({"case": what, "observed": f"main.execute raised {raised}: no report, the process ends "
                                                           f"with a traceback"})
                continue
            bad = c02._cli_contract(rc, out_text, err_text, out, accepted=None)
            if bad is not None:
                failures.append({"case": what, "observed": bad, "stderr": err_text[:300]})
                continue
            if rc == 0:
                accepted += 1
            else:
                rejected += 1
            if what in THROUGH_PROCESS:
                through_process.append((what, model, snippets, out, target, rc))
        for what, model, snippets, out, target, rc in through_process:
            n += 1
            out2 = pathlib.Path(str(out) + "_p") if rc == 0 else out
            cp = subprocess.run([sys.executable, "-m", "aas_core_codegen", "--model_path", str(model), "--snippets_dir",
                                 str(snippets), "--output_dir", str(out2), "--target", target.value],
                                capture_output=True, text=True, timeout=600, env=dict(os.environ))
            if cp.returncode != rc:
                failures.append({"case": what + " (python -m aas_core_codegen)",
                                 "observed": f"the process exits with {cp.returncode} although execute returns {rc}; "
                                             f"stderr: {cp.stderr[:200]!r}"})
                continue
            bad = c02._cli_contract(cp.returncode, cp.stdout, cp.stderr, out2, accepted=None)
            if bad is not None:
                failures.append({"case": what + " (python -m aas_core_codegen)", "observed": bad})
    if rejected == 0 or accepted == 0:
        failures.append({"observed": f"vacuous: {accepted} accepted and {rejected} rejected configurations"})
    seen = set()
    unique = []
    for f in failures:
        key = (f["observed"][:80], f.get("case", "").split(" with the content ")[0])
        if key not in seen:
            seen.add(key)
            unique.append(f)
    return {"cases": n, "distinct": n, "failures": unique[:40], "exhaustive": False,
            "samples": [{"configurations": len(cases), "accepted": accepted, "rejected": rejected,
                         "repeated_through_the_module_entry": len(through_process)}]}
