"""C11 / C13 (examples-bounded): the schemas generated for a variety of meta-models are valid schemas.

``native/c11.py`` judges the schemas of one constraint-rich meta-model against documents.  Here a dozen other
meta-models (hostile texts in descriptions and values, constants of every primitive type, inheritance with invariants,
a child adding patterns to an inherited property, methods and constructors with 0..3 arguments) go through the JSON
Schema and the XSD target; when the generator succeeds, the result must be well-formed and a valid schema for
``jsonschema`` (Draft 2019-09 meta-schema) resp. ``xmlschema`` (XSD 1.0), and every ``pattern`` facet must compile in
the judge.
"""
import io
import json
import pathlib
import tempfile
from typing import Any, Dict, List, Tuple

import jsonschema
import xmlschema

from aas_core_codegen import main as cg_main

from native import c02, c20java, c22


def _models() -> List[Tuple[str, str]]:
    out = list(c20java._models())
    out.append(("a child adding three patterns to a property constrained by its parent (native/c22.py)", c22.TIGHTENING))
    out.append(("base model of native/c06.py", c02.c06.BASE))
    return out


def bounded(seed: int = 0, **_: Any) -> Dict[str, Any]:
    failures: List[Dict[str, Any]] = []
    cases = 0
    generated = 0
    skipped: List[str] = []
    with tempfile.TemporaryDirectory() as d:
        root = pathlib.Path(d)
        (root / "snippets").mkdir()
        for name, content in c02.SNIPPETS.items():
            (root / "snippets" / name).write_text(content, encoding="utf-8")
        # a root snippet with an import: XML Schema wants inclusions and imports before all definitions
        (root / "snippets" / "root_element.xml").write_text(
            '<xs:schema xmlns:xs="http://www.w3.org/2001/XMLSchema" xmlns="https://dummy.com" '
            'elementFormDefault="qualified" targetNamespace="https://dummy.com">\n'
            '    <xs:import namespace="http://www.w3.org/XML/1998/namespace"/>\n</xs:schema>', encoding="utf-8")
        for k, (what, text) in enumerate(_models()):
            model = root / f"model_{k}.py"
            model.write_text(text, encoding="utf-8")
            for target in (cg_main.Target.JSONSCHEMA, cg_main.Target.XSD):
                out = root / f"out_{k}_{target.value}"
                out.mkdir()
                stdout, stderr = io.StringIO(), io.StringIO()
                try:
                    rc = cg_main.execute(cg_main.Parameters(model_path=model, target=target, snippets_dir=root / "snippets",
                                                            output_dir=out, cache_model=False), stdout=stdout, stderr=stderr)
                except BaseException as e:  # noqa
                    skipped.append(f"{what} / {target.value}: the generator raised {type(e).__name__} (C02)")
                    continue
                if rc != 0:
                    skipped.append(f"{what} / {target.value}: {stderr.getvalue()[:120]}")
                    continue
                generated += 1
                cases += 1
                prop = "C11" if target is cg_main.Target.JSONSCHEMA else "C13"
                try:
                    if target is cg_main.Target.JSONSCHEMA:
                        schema = json.loads((out / "schema.json").read_text(encoding="utf-8"))
                        jsonschema.Draft201909Validator.check_schema(schema)
                        # every pattern must compile in the judge's regex engine
                        stack: List[Any] = [schema]
                        while stack:
                            x = stack.pop()
                            if isinstance(x, dict):
                                if isinstance(x.get("pattern"), str):
                                    import re
                                    re.compile(x["pattern"])
                                stack.extend(x.values())
                            elif isinstance(x, list):
                                stack.extend(x)
                    else:
                        xmlschema.XMLSchema(str(out / "schema.xsd"))
                except BaseException as e:  # noqa
                    failures.append({"property": prop, "model": what, "target": target.value,
                                     "observed": f"the generated schema is not a valid schema: {type(e).__name__}: "
                                                 f"{str(e)[:300]}"})
    if generated == 0:
        failures.append({"observed": "no schema was generated", "skipped": skipped[:4]})
    return {"cases": cases, "distinct": generated, "failures": failures[:6], "exhaustive": False,
            "samples": [{"schemas_checked": generated, "not_generated": skipped[:6]}]}
