"""Native replays / bounded search for C15 and C02 (schema constraint inference), on the real code."""
import itertools
from typing import Any, Dict, List, Optional

from aas_core_codegen.infer_for_schema import _len, _inline
from aas_core_codegen.infer_for_schema._types import LenConstraint
from specs import lengths as S


def _mk(kind: str, value: int) -> Any:
    cls = {"min": _len._MinLength, "max": _len._MaxLength, "exact": _len._ExactLength}[kind]
    return cls(node=None, value=value)  # type: ignore


def _check_reduce(cs: List[Any]) -> Optional[str]:
    try:
        res, errs = _len._reduce_constraints(cs)
    except BaseException as e:  # noqa
        return f"raised {type(e).__name__}: {str(e)[:200]}"
    if (res is None) == (errs is None):
        return "result and errors are not exclusive"
    if errs is not None and len(errs) == 0:
        return "empty error list"
    if res is not None:
        for n in range(-3, 9):
            if S.admits(res.min_value, res.max_value, n) != all(S.sat(c, n) for c in cs):
                return f"range ({res.min_value},{res.max_value}) disagrees with the conjunction at n={n}"
    return None


def replay_reduce(obligation: str = "", model: Optional[Dict[str, str]] = None, desc: str = "", seed: int = 0,
                  **_: Any) -> Dict[str, Any]:
    """The solver's model does not name the constraint list (loop state is havocked), so the
    replay searches the smallest constraint lists for an input violating the contract."""
    kinds = ("min", "max", "exact")
    vals = (-1, 0, 1, 2, 5)
    atoms = [(k, v) for k in kinds for v in vals]
    for size in (0, 1, 2, 3):
        for combo in itertools.product(atoms, repeat=size):
            cs = [_mk(k, v) for k, v in combo]
            why = _check_reduce(cs)
            if why is not None:
                return {"confirmed": True, "input": {"constraints": list(combo)}, "observed": why,
                        "call": "aas_core_codegen.infer_for_schema._len._reduce_constraints"}
    return {"confirmed": False, "searched": "all lists of <= 3 constraints over values -1,0,1,2,5"}


def _check_merge(a: Optional[LenConstraint], b: Optional[LenConstraint]) -> Optional[str]:
    try:
        r = _inline._merge_len_constraints(a, b)
    except BaseException as e:  # noqa
        return f"raised {type(e).__name__}: {str(e)[:200]}"
    for n in range(-3, 9):
        if S.admits_c(r, n) != (S.admits_c(a, n) and S.admits_c(b, n)):
            return f"merged range disagrees with the intersection at n={n}"
    return None


def _ranges() -> List[Optional[LenConstraint]]:
    out: List[Optional[LenConstraint]] = [None]
    vals = [None, 0, 1, 3, 5]
    for mn in vals:
        for mx in vals:
            if mn is not None and mx is not None and mn > mx:
                continue
            out.append(LenConstraint(mn, mx))
    return out


def replay_merge_len(obligation: str = "", model: Optional[Dict[str, str]] = None, desc: str = "", seed: int = 0,
                     **_: Any) -> Dict[str, Any]:
    model = model or {}

    def build(prefix: str) -> Optional[LenConstraint]:
        if model.get(prefix + "?none") == "True":
            return None
        mn = None if model.get(prefix + ".min_value?none") == "True" else int(model.get(prefix + ".min_value", "0"))
        mx = None if model.get(prefix + ".max_value?none") == "True" else int(model.get(prefix + ".max_value", "0"))
        return LenConstraint(mn, mx)

    try:
        a, b = build("that"), build("other")
        why = _check_merge(a, b)
        if why is not None:
            return {"confirmed": True, "input": {"that": str(a), "other": str(b)}, "observed": why,
                    "call": "aas_core_codegen.infer_for_schema._inline._merge_len_constraints"}
    except BaseException as e:  # noqa
        pass
    for a in _ranges():
        for b in _ranges():
            why = _check_merge(a, b)
            if why is not None:
                return {"confirmed": True, "input": {"that": str(a), "other": str(b)}, "observed": why,
                        "call": "aas_core_codegen.infer_for_schema._inline._merge_len_constraints"}
    return {"confirmed": False}


def known_merge_contradiction(seed: int = 0, **_: Any) -> Dict[str, Any]:
    """Witness of the recorded finding: disjoint parent/child ranges crash the merge."""
    a, b = LenConstraint(5, None), LenConstraint(None, 3)
    why = _check_merge(a, b)
    known = []
    failures: List[Any] = []
    if why is not None and why.startswith("raised"):
        known.append("merging disjoint length ranges of a parent and a child (min 5 vs max 3) raises "
                     f"instead of reporting an error: {why[:80]}")
    return {"cases": 1, "distinct": 1, "failures": failures, "known": known,
            "samples": [{"that": str(a), "other": str(b), "observed": why}]}
