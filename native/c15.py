"""Native replays / bounded search for C15 and C02 (schema constraint inference), on the real code."""
import itertools
from typing import Any, Dict, List, Optional

from aas_core_codegen.infer_for_schema import _len, _inline
from aas_core_codegen.infer_for_schema._types import LenConstraint
from specs import lengths as S


def _mk(kind: str, value: int) -> Any:
    cls = {"min": _len._MinLength, "max": _len._MaxLength, "exact": _len._ExactLength}[kind]
    return cls(node=None, value=value)  # type: ignore


def _check_reduce(cs: List[Any]) -> Optional[str]:
    try:
        res, errs = _len._reduce_constraints(cs)
    except BaseException as e:  # noqa
        return f"raised {type(e).__name__}: {str(e)[:200]}"
    if (res is None) == (errs is None):
        return "result and errors are not exclusive"
    if errs is not None and len(errs) == 0:
        return "empty error list"
    if res is not None:
        for n in range(-3, 9):
            if S.admits(res.min_value, res.max_value, n) != all(S.sat(c, n) for c in cs):
                return f"range ({res.min_value},{res.max_value}) disagrees with the conjunction at n={n}"
    return None


def replay_reduce(obligation: str = "", model: Optional[Dict[str, str]] = None, desc: str = "", seed: int = 0,
                  **_: Any) -> Dict[str, Any]:
    """The solver's model does not name the constraint list (loop state is havocked), so the
    replay searches the smallest constraint lists for an input violating the contract."""
    kinds = ("min", "max", "exact")
    vals = (-1, 0, 1, 2, 5)
    atoms = [(k, v) for k in kinds for v in vals]
    for size in (0, 1, 2, 3):
        for combo in itertools.product(atoms, repeat=size):
            cs = [_mk(k, v) for k, v in combo]
            why = _check_reduce(cs)
            if why is not None:
                return {"confirmed": True, "input": {"constraints": list(combo)}, "observed": why,
                        "call": "aas_core_codegen.infer_for_schema._len._reduce_constraints"}
    return {"confirmed": False, "searched": "all lists of <= 3 constraints over values -1,0,1,2,5"}


def _check_merge(a: Optional[LenConstraint], b: Optional[LenConstraint]) -> Optional[str]:
    try:
        r = _inline._merge_len_constraints(a, b)
    except BaseException as e:  # noqa
        return f"raised {type(e).__name__}: {str(e)[:200]}"
    for n in range(-3, 9):
        if S.admits_c(r, n) != (S.admits_c(a, n) and S.admits_c(b, n)):
            return f"merged range disagrees with the intersection at n={n}"
    return None


def _ranges() -> List[Optional[LenConstraint]]:
    out: List[Optional[LenConstraint]] = [None]
    vals = [None, 0, 1, 3, 5]
    for mn in vals:
        for mx in vals:
            if mn is not None and mx is not None and mn > mx:
                continue
            out.append(LenConstraint(mn, mx))
    return out


def replay_merge_len(obligation: str = "", model: Optional[Dict[str, str]] = None, desc: str = "", seed: int = 0,
                     **_: Any) -> Dict[str, Any]:
    model = model or {}

    def build(prefix: str) -> Optional[LenConstraint]:
        if model.get(prefix + "?none") == "True":
            return None
        mn = None if model.get(prefix + ".min_value?none") == "True" else int(model.get(prefix + ".min_value", "0"))
        mx = None if model.get(prefix + ".max_value?none") == "True" else int(model.get(prefix + ".max_value", "0"))
        return LenConstraint(mn, mx)

    try:
        a, b = build("that"), build("other")
        why = _check_merge(a, b)
        if why is not None:
            return {"confirmed": True, "input": {"that": str(a), "other": str(b)}, "observed": why,
                    "call": "aas_core_codegen.infer_for_schema._inline._merge_len_constraints"}
    except BaseException as e:  # noqa
        pass
    for a in _ranges():
        for b in _ranges():
            why = _check_merge(a, b)
            if why is not None:
                return {"confirmed": True, "input": {"that": str(a), "other": str(b)}, "observed": why,
                        "call": "aas_core_codegen.infer_for_schema._inline._merge_len_constraints"}
    return {"confirmed": False}


def known_merge_contradiction(seed: int = 0, **_: Any) -> Dict[str, Any]:
    """Witness of the recorded finding: disjoint parent/child ranges crash the merge."""
    a, b = LenConstraint(5, None), LenConstraint(None, 3)
    why = _check_merge(a, b)
    known = []
    failures: List[Any] = []
    if why is not None and why.startswith("raised"):
        known.append("merging disjoint length ranges of a parent and a child (min 5 vs max 3) raises "
                     f"instead of reporting an error: {why[:80]}")
    return {"cases": 1, "distinct": 1, "failures": failures, "known": known,
            "samples": [{"that": str(a), "other": str(b), "observed": why}]}


# ------------------------------------------------------------------ matchers on parse-tree nodes
from aas_core_codegen.infer_for_schema import match as _match  # noqa: E402
from aas_core_codegen.parse import tree as T  # noqa: E402
from aas_core_codegen.common import Identifier  # noqa: E402


def _name(n: str) -> Any:
    return T.Name(identifier=Identifier(n), original_node=None)  # type: ignore


def _self_prop(p: str) -> Any:
    return T.Member(instance=_name("self"), name=Identifier(p), original_node=None)  # type: ignore


def _len_call(arg: Any) -> Any:
    return T.FunctionCall(name=_name("len"), args=[arg], original_node=None)  # type: ignore


def _atoms() -> List[Any]:
    c = T.Constant(value=5, original_node=None)  # type: ignore
    out: List[Any] = [
        _name("x"), _self_prop("a"), c,
        T.IsNone(value=_self_prop("a"), original_node=None),  # type: ignore
        T.IsNotNone(value=_self_prop("a"), original_node=None),  # type: ignore
        T.IsNone(value=_name("a"), original_node=None),  # type: ignore
        T.IsNotNone(value=T.Member(instance=_name("other"), name=Identifier("a"), original_node=None), original_node=None),  # type: ignore
        T.Comparison(left=_len_call(_self_prop("b")), op=T.Comparator.LE, right=c, original_node=None),  # type: ignore
    ]
    return out


def _forms() -> List[Any]:
    at = _atoms()
    forms: List[Any] = list(at)
    for a in at:
        for b in at[:4] + at[-1:]:
            forms.append(T.Implication(antecedent=a, consequent=b, original_node=None))  # type: ignore
            forms.append(T.Or(values=[a, b], original_node=None))  # type: ignore
            forms.append(T.Or(values=[a, b, _name("relaxed")], original_node=None))  # type: ignore
            forms.append(T.And(values=[a, b], original_node=None))  # type: ignore
    forms.append(T.Or(values=[at[3]], original_node=None))  # type: ignore
    return forms


def replay_conditional(obligation: str = "", model: Optional[Dict[str, str]] = None, desc: str = "",
                       **_: Any) -> Dict[str, Any]:
    from aas_core_codegen.parse.tree import dump as _dump  # type: ignore
    for node in _forms():
        try:
            r = _match.try_conditional_on_prop(node)
        except BaseException as e:  # noqa
            return {"confirmed": True, "input": _dump(node), "observed": f"raised {type(e).__name__}"}
        want = S.is_guarded_form(node)
        ok = (r is not None) == want
        if ok and r is not None:
            ok = r.prop_name == S.guard_prop(node) and r.consequent is S.guarded_consequent(node)
        if not ok:
            return {"confirmed": True, "input": _dump(node),
                    "observed": f"matched={r is not None} but the node is{'' if want else ' not'} a guarded form"
                                + (f"; guard property {getattr(r, 'prop_name', None)!r}" if r is not None else "")}
    return {"confirmed": False, "searched": f"{len(_forms())} small invariant forms"}


def replay_match(obligation: str = "", model: Optional[Dict[str, str]] = None, desc: str = "",
                 **_: Any) -> Dict[str, Any]:
    from aas_core_codegen.parse.tree import dump as _dump  # type: ignore
    operands = [_self_prop("b"), _name("self")]
    for op in T.Comparator:
        for c in (-1, 0, 1, 3, True):
            for x in operands:
                const = T.Constant(value=c, original_node=None)  # type: ignore
                for node in (T.Comparison(left=_len_call(x), op=op, right=const, original_node=None),  # type: ignore
                             T.Comparison(left=const, op=op, right=_len_call(x), original_node=None)):  # type: ignore
                    try:
                        r = _len._match_len_constraint_on_member_or_name(node)
                    except BaseException as e:  # noqa
                        return {"confirmed": True, "input": _dump(node), "observed": f"raised {type(e).__name__}"}
                    if r is None:
                        if op is not T.Comparator.NE:
                            return {"confirmed": True, "input": _dump(node), "observed": "recognised comparison dropped"}
                        continue
                    if r.member_or_name is not x:
                        return {"confirmed": True, "input": _dump(node), "observed": "constraint attached to another operand"}
                    for n in range(-3, 8):
                        if S.sat(r.constraint, n) != S.comparison_holds(node, n):
                            return {"confirmed": True, "input": _dump(node),
                                    "observed": f"inferred {type(r.constraint).__name__}({r.constraint.value}) "
                                                f"disagrees with the comparison at length {n}"}
    return {"confirmed": False}


# ---------------------------------------------------------------------------------------------------------------
# bounded (examples): the constraints inferred by the real pipeline for the meta-model of native/c11.py against the
# conjunction of its invariants worked out by hand (own class, ancestors, constrained primitives incl. a chain
# declared child-first)

def inferred_for_harness_model(seed: int = 0, **_: Any) -> Dict[str, Any]:
    from aas_core_codegen import infer_for_schema, intermediate
    from native import c05, c11
    code_pattern = "^[A-Z][a-z0-9]*$"
    expected = {
        ("Thing", "name", ""): (3, None, []),
        ("Carton", "name", ""): (3, 6, []),
        ("Carton", "code", ""): (2, 5, [code_pattern]),
        ("Carton", "labels", ""): (1, 2, []),
        ("Carton", "labels", "items"): (None, 8, [code_pattern]),
        ("Carton", "data", ""): (1, 4, []),
        ("Ball", "name", ""): (3, None, []),
        ("Ball", "tiny", ""): (1, 3, []),
        ("URL_thing", "name", ""): (3, None, []),
        ("Signed_URL_thing", "name", ""): (3, None, []),
        ("Shelf", "things", ""): (1, None, []),
    }
    st, why = c05.translate(c11.MODEL)
    if st is None:
        return {"cases": 1, "distinct": 0, "exhaustive": False, "failures": [{"observed": f"model not accepted: {why[:300]}"}]}
    res, errs = infer_for_schema.infer_constraints_by_class(symbol_table=st)
    if errs is not None or res is None:
        return {"cases": 1, "distinct": 0, "exhaustive": False, "failures": [{"observed": f"inference failed: {errs}"}]}
    got: Dict[Any, Any] = {}
    for cls, by_value in res.items():
        for ta, cons in by_value.items():
            where = None
            for prop in cls.properties:
                t = intermediate.beneath_optional(prop.type_annotation)
                if t is ta:
                    where = (cls.name, prop.name, "")
                elif isinstance(t, intermediate.ListTypeAnnotation) and t.items is ta:
                    where = (cls.name, prop.name, "items")
            lc = cons.len_constraint
            got[where] = ((lc.min_value if lc else None), (lc.max_value if lc else None),
                          sorted(p.pattern for p in (cons.patterns or [])))
    failures = []
    for key in sorted(set(expected) | set(got), key=str):
        e = expected.get(key)
        g = got.get(key)
        e2 = (e[0], e[1], sorted(e[2])) if e else None
        if e2 != g and not (e is None and g == (None, None, [])):
            failures.append({"where": list(key) if key else None, "expected": str(e2), "observed": f"inferred {g}, the "
                             f"invariants of the class, its ancestors and the constrained primitives give {e2}"})
    return {"cases": len(expected), "distinct": len(expected), "failures": failures[:6], "exhaustive": False,
            "samples": [{"constraints": len(got)}]}
