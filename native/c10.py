"""C08 / C10 / C29 (examples-bounded): behaviour of the Python SDK that the real generator emits for the meta-model
of native/c11.py -- verification against the invariants evaluated directly in Python (C08), JSON / XML round trips
and rejection of bad documents (C10), traversal, visitors and accessors (C29).

The generator functions return program text; what the text does is decided by executing it: a bounded stand-in on a
list of examples (DESIGN.md §6), never a proof.
"""
import copy
import importlib
import io
import math
import pathlib
import re
import sys
import tempfile
from typing import Any, Callable, Dict, List, Optional, Tuple

from native import c11

CODE_RE = re.compile(r"^[A-Z][a-z0-9]*$")


def expected_errors(T: Any, shelf: Any) -> List[Tuple[str, str]]:
    """(description, path fragment) of every invariant of the meta-model that is false on the instance: the
    invariants of native/c11.py:MODEL written once more as plain Python."""
    out: List[Tuple[str, str]] = []

    def code(v: str, where: str, short: bool) -> None:
        if not len(v) <= 8:
            out.append(("Code at most 8 characters", where))
        if CODE_RE.match(v) is None:
            out.append(("Code must be a code", where))
        if short and not len(v) >= 2:
            out.append(("Short code at least 2 characters", where))
        if short and not len(v) <= 5:
            out.append(("Short code at most 5 characters", where))

    if not len(shelf.things) >= 1:
        out.append(("At least one thing", ""))
    for i, t in enumerate(shelf.things):
        where = f"things[{i}]"
        if not len(t.name) >= 3:
            out.append(("Name at least 3 characters", where))
        if isinstance(t, T.Ball) and t.tiny is not None:
            if not len(t.tiny) <= 3:
                out.append(("Tiny text at most 3 characters", where + ".tiny"))
            if not len(t.tiny) <= 10:
                out.append(("Small text at most 10 characters", where + ".tiny"))
            if not len(t.tiny) >= 1:
                out.append(("Wide text non-empty", where + ".tiny"))
        if isinstance(t, T.Carton):
            if not len(t.name) <= 6:
                out.append(("Name of a carton at most 6 characters", where))
            if t.labels is not None and not len(t.labels) >= 1:
                out.append(("Labels non-empty", where))
            if t.labels is not None and not len(t.labels) <= 2:
                out.append(("At most two labels", where))
            code(t.code, where + ".code", True)
            for j, lab in enumerate(t.labels or []):
                code(lab, where + f".labels[{j}]", False)
            if t.data is not None:
                if not len(t.data) >= 1:
                    out.append(("Blob non-empty", where + ".data"))
                if not len(t.data) <= 4:
                    out.append(("Blob at most 4 bytes", where + ".data"))
    return out


def same(T: Any, a: Any, b: Any) -> Optional[str]:
    """None if the two instances are equal field by field, otherwise where they differ."""
    if type(a) is not type(b):
        return f"{type(a).__name__} vs {type(b).__name__}"
    if isinstance(a, T.Class):
        for k in vars(a):
            d = same(T, getattr(a, k), getattr(b, k))
            if d is not None:
                return f".{k}: {d}"
        return None
    if isinstance(a, list):
        if len(a) != len(b):
            return f"lengths {len(a)} vs {len(b)}"
        for i, (x, y) in enumerate(zip(a, b)):
            d = same(T, x, y)
            if d is not None:
                return f"[{i}]{d}"
        return None
    if isinstance(a, float):
        return None if (a == b or (math.isnan(a) and math.isnan(b))) else f"{a!r} vs {b!r}"
    return None if a == b else f"{a!r} vs {b!r}"


def bounded(seed: int = 0, **_: Any) -> Dict[str, Any]:
    failures: List[Dict[str, Any]] = []
    cases = 0
    with tempfile.TemporaryDirectory() as d:
        root = pathlib.Path(d)
        module = f"c10sdk{abs(hash(d)) % 10 ** 8}"
        why = c11._generate(root, module)
        if why is not None:
            return {"cases": 1, "distinct": 0, "exhaustive": False, "failures": [{"observed": why}]}
        sys.path.insert(0, str(root / "python"))
        try:
            T = importlib.import_module(f"{module}.types")
            V = importlib.import_module(f"{module}.verification")
            J = importlib.import_module(f"{module}.jsonization")
            X = importlib.import_module(f"{module}.xmlization")

            def box(**kw: Any) -> Any:
                args = dict(name="Boxy", code="Ab", count=3, ratio=1.5, flag=True, color=None, labels=None, data=None)
                args.update(kw)
                return T.Carton(**args)

            def shelf(*things: Any) -> Any:
                return T.Shelf(things=list(things))

            instances = {
                "minimal": shelf(box()),
                "everything": shelf(box(color=T.Color.GREEN, labels=["A", "Bc1"], data=b"\x00\xff\x10")),
                "two kinds": shelf(T.Ball(name="Round", radius=2), box(), T.Ball(name="Other", radius=-7)),
                "floats": shelf(box(ratio=0.1), box(ratio=1e300), box(ratio=-2.5e-7), box(ratio=float(2 ** 53))),
                "big integers": shelf(box(count=2 ** 62), box(count=-(2 ** 62))),
                "carriage return and specials": shelf(T.Ball(name="a\rb\n\tc<&>\"' \U0001F600", radius=0)),
                "empty optional list kept apart from None": shelf(box(labels=[])),
                "name too short": shelf(box(name="Ab")),
                "name too long for a carton": shelf(box(name="Abcdefg")),
                "several invariants at once": shelf(box(name="A", code="abcdefghij", labels=["x", "Y", "Zz", "W"],
                                                        data=b"12345")),
                "empty shelf": T.Shelf(things=[]),
                "empty blob": shelf(box(data=b"")),
                "empty string": shelf(T.Ball(name="", radius=1)),
                "code at the bounds": shelf(box(code="Ab"), box(code="Abcde")),
                "code out of the bounds": shelf(box(code="A"), box(code="Abcdef")),
                "abbreviations in names": shelf(T.URLThing(name="Link", target_url="https://x"),
                                                T.SignedURLThing(name="Signed", target_url="https://y", signature="s"),
                                                box()),
                "tiny texts": shelf(T.Ball(name="Round", radius=1, tiny="abc"), T.Ball(name="Round", radius=1, tiny=""),
                                    T.Ball(name="Round", radius=1, tiny="abcdefghijkl")),
            }
            # ---------------------------------------------------------------- C08: verification == invariants in Python
            for label, inst in instances.items():
                cases += 1
                try:
                    got = [(str(e.cause), str(e.path)) for e in V.verify(inst)]
                except BaseException as e:  # noqa
                    failures.append({"property": "C08", "case": label, "observed": f"verify raised {type(e).__name__}: {e}"})
                    continue
                want = expected_errors(T, inst)
                if sorted(c for c, _ in got) != sorted(c for c, _ in want):
                    failures.append({"property": "C08", "case": label,
                                     "observed": f"verification reports {sorted(c for c, _ in got)}, the invariants "
                                                 f"that are false in Python are {sorted(c for c, _ in want)}"})
                    continue
                for cause, where in want:
                    if not any(c == cause and where.replace("things", ".things") in p.replace("'", "") or
                               (c == cause and where in p) for c, p in got):
                        failures.append({"property": "C08", "case": label,
                                         "observed": f"no error for {cause!r} carries a path through {where!r}: "
                                                     f"{[p for c, p in got if c == cause]}"})
            # ---------------------------------------------------------------- C08: formulas on a grid of values
            lambdas = [eval("lambda self: " + e) for e in c11.FORMULAS]  # noqa: S307
            import itertools
            for a, b, c, pp, qq in itertools.product((-3, 0, 1, 2), (-3, 0, 2), (-1, 0, 2), (True, False), (True, False)):
                cases += 1
                inst = T.Formula(a=a, b=b, c=c, p=pp, q=qq)
                want = sorted(f"Formula {k}" for k, f in enumerate(lambdas) if not f(inst))
                try:
                    got = sorted(str(e.cause) for e in V.verify(inst))
                except BaseException as e:  # noqa
                    failures.append({"property": "C08", "case": f"Formula({a}, {b}, {c}, {pp}, {qq})",
                                     "observed": f"verify raised {type(e).__name__}: {e}"})
                    break
                if got != want:
                    k = next(iter(sorted(set(got) ^ set(want))))
                    failures.append({"property": "C08", "case": f"Formula({a}, {b}, {c}, {pp}, {qq})",
                                     "observed": f"verification and Python disagree on {k!r} "
                                                 f"({c11.FORMULAS[int(k.split()[1])]}): reported {k in got}, "
                                                 f"false in Python {k in want}"})
                    break
            # ---------------------------------------------------------------- C10: round trips
            for label, inst in instances.items():
                cases += 1
                try:
                    jsonable = J.to_jsonable(inst)
                    back = J.shelf_from_jsonable(jsonable)
                    diff = same(T, inst, back)
                except BaseException as e:  # noqa
                    diff = f"raised {type(e).__name__}: {str(e)[:200]}"
                if diff is not None:
                    failures.append({"property": "C10", "case": label, "observed": f"JSON round trip differs at {diff}"})
                cases += 1
                try:
                    writer = io.StringIO()
                    X.write(inst, writer)
                    back = X.shelf_from_str(writer.getvalue())
                    diff = same(T, inst, back)
                except BaseException as e:  # noqa
                    diff = f"raised {type(e).__name__}: {str(e)[:200]}"
                # XML cannot tell an empty list from a missing one and normalises a lone carriage return
                if diff is not None and label not in ("empty optional list kept apart from None",
                                                      "carriage return and specials"):
                    failures.append({"property": "C10", "case": label, "observed": f"XML round trip differs at {diff}"})
            # ---------------------------------------------------------------- C10: bad documents
            good = J.to_jsonable(instances["everything"])
            bad_docs: List[Tuple[str, Callable[[Any], Any]]] = [
                ("not an object", lambda doc: [doc]),
                ("things not a list", lambda doc: {**doc, "things": 3}),
                ("missing modelType", lambda doc: (doc["things"][0].pop("modelType"), doc)[1]),
                ("unknown modelType", lambda doc: (doc["things"][0].__setitem__("modelType", "Nope"), doc)[1]),
                ("modelType not a string", lambda doc: (doc["things"][0].__setitem__("modelType", 1), doc)[1]),
                ("missing required property", lambda doc: (doc["things"][0].pop("count"), doc)[1]),
                ("unknown property", lambda doc: (doc["things"][0].__setitem__("extra", 1), doc)[1]),
                ("string for an integer", lambda doc: (doc["things"][0].__setitem__("count", "3"), doc)[1]),
                ("float for an integer", lambda doc: (doc["things"][0].__setitem__("count", 3.5), doc)[1]),
                ("integer for a boolean", lambda doc: (doc["things"][0].__setitem__("flag", 1), doc)[1]),
                ("boolean for a string", lambda doc: (doc["things"][0].__setitem__("name", True), doc)[1]),
                ("None for a required string", lambda doc: (doc["things"][0].__setitem__("name", None), doc)[1]),
                ("unknown enumeration literal", lambda doc: (doc["things"][0].__setitem__("color", "BLUE"), doc)[1]),
                ("invalid base64", lambda doc: (doc["things"][0].__setitem__("data", "***"), doc)[1]),
                ("list of numbers for labels", lambda doc: (doc["things"][0].__setitem__("labels", [1, 2]), doc)[1]),
                ("object for a list", lambda doc: (doc["things"][0].__setitem__("labels", {"a": 1}), doc)[1]),
                ("huge integer", lambda doc: (doc["things"][0].__setitem__("count", 2 ** 80), doc)[1]),
            ]
            for label, f in bad_docs:
                cases += 1
                doc = f(copy.deepcopy(good))
                try:
                    J.shelf_from_jsonable(doc)
                    if label not in ("huge integer",):
                        failures.append({"property": "C10", "case": "JSON " + label,
                                         "observed": "the malformed document is de-serialized without an error"})
                except J.DeserializationException:
                    pass
                except BaseException as e:  # noqa
                    failures.append({"property": "C10", "case": "JSON " + label,
                                     "observed": f"raised {type(e).__name__} instead of DeserializationException: {str(e)[:150]}"})
            writer = io.StringIO()
            X.write(instances["everything"], writer)
            good_xml = writer.getvalue()
            bad_xml = [("not XML at all", "<<<"), ("empty", ""), ("truncated", good_xml[: len(good_xml) // 2]),
                       ("wrong root", good_xml.replace("shelf", "shelves")),
                       ("no namespace", good_xml.replace(' xmlns="https://dummy.com"', "")),
                       ("unknown element", good_xml.replace("<count>3</count>", "<count>3</count><extra>1</extra>")),
                       ("missing required element", good_xml.replace("<count>3</count>", "")),
                       ("text for an integer", good_xml.replace("<count>3</count>", "<count>three</count>")),
                       ("text for a boolean", good_xml.replace("<flag>true</flag>", "<flag>yes</flag>")),
                       ("unknown enumeration literal", good_xml.replace("<color>GREEN</color>", "<color>BLUE</color>")),
                       ("invalid base64", good_xml.replace("<data>AP8Q</data>", "<data>***</data>")),
                       ("attribute on an element", good_xml.replace("<count>", '<count unit="x">')),
                       ("nested element in a text", good_xml.replace("<count>3</count>", "<count><a/>3</count>"))]
            for label, text in bad_xml:
                cases += 1
                if text == good_xml:
                    failures.append({"property": "C10", "case": "XML " + label, "observed": "checker: the replacement did not apply",
                                     "document": good_xml[:400]})
                    continue
                try:
                    X.shelf_from_str(text)
                    failures.append({"property": "C10", "case": "XML " + label,
                                     "observed": "the malformed document is de-serialized without an error"})
                except X.DeserializationException:
                    pass
                except BaseException as e:  # noqa
                    failures.append({"property": "C10", "case": "XML " + label,
                                     "observed": f"raised {type(e).__name__} instead of DeserializationException: {str(e)[:150]}"})
            # ---------------------------------------------------------------- C29: traversal, dispatch, accessors
            b1, ball, b2 = box(labels=["A"]), T.Ball(name="Round", radius=2), box()
            sh = shelf(b1, ball, b2)
            cases += 1
            once = list(sh.descend_once())
            if len(once) != 3 or once[0] is not b1 or once[1] is not ball or once[2] is not b2:
                failures.append({"property": "C29", "case": "descend_once", "observed": f"{once!r}"})
            cases += 1
            deep = list(sh.descend())
            if [id(x) for x in deep] != [id(b1), id(ball), id(b2)]:
                failures.append({"property": "C29", "case": "descend", "observed": f"{deep!r}"})
            if list(b1.descend_once()) or list(ball.descend()):
                failures.append({"property": "C29", "case": "descend of a leaf", "observed": "not empty"})
            calls: List[str] = []

            class Vis(T.AbstractVisitor):  # type: ignore
                def visit_carton(self, that: Any) -> None:
                    calls.append("carton")

                def visit_ball(self, that: Any) -> None:
                    calls.append("ball")

                def visit_shelf(self, that: Any) -> None:
                    calls.append("shelf")
            cases += 1
            for x in (b1, ball, sh):
                x.accept(Vis())
            if calls != ["carton", "ball", "shelf"]:
                failures.append({"property": "C29", "case": "visitor dispatch", "observed": f"{calls}"})

            class Tr(T.AbstractTransformer):  # type: ignore
                def transform_carton(self, that: Any) -> str:
                    return "carton"

                def transform_ball(self, that: Any) -> str:
                    return "ball"

                def transform_shelf(self, that: Any) -> str:
                    return "shelf"
            cases += 1
            got_t = [x.transform(Tr()) for x in (b1, ball, sh)]
            if got_t != ["carton", "ball", "shelf"]:
                failures.append({"property": "C29", "case": "transformer dispatch", "observed": f"{got_t}"})
            cases += 1
            if list(b1.over_labels_or_empty()) != ["A"] or list(b2.over_labels_or_empty()) != []:
                failures.append({"property": "C29", "case": "over_labels_or_empty",
                                 "observed": f"{list(b1.over_labels_or_empty())}, {list(b2.over_labels_or_empty())}"})
        finally:
            sys.path.remove(str(root / "python"))
            for m in [m for m in sys.modules if m == module or m.startswith(module + ".")]:
                del sys.modules[m]
    return {"cases": cases, "distinct": cases, "failures": failures[:10], "exhaustive": False,
            "samples": [{"instances": 14, "bad_json_documents": 17, "bad_xml_documents": 13}]}
