"""C27: bounded stand-in for wrap_text_into_lines -- exhaustive small texts, on the real function.

Clauses (from the property; readings fixed in DESIGN.md §5 C27):
 1. "".join(segments) == text;
 2. every segment fits the width unless it consists of a single token (a word, or an article glued to
    the following word) longer than the width;
 3. a segment never ends with an article ('a', 'an', 'the') while the next segment starts with a word that
    is not an article (runs of articles only may break after an article, as the pinned test shows).
"""
import itertools
from typing import Any, Dict, List, Optional

from aas_core_codegen.common import wrap_text_into_lines

ARTICLES = ("a", "an", "the")
WORDS = ["a", "an", "the", "x", "word", "looooooooong", ""]


def check(text: str, width: int) -> Optional[str]:
    try:
        segs = wrap_text_into_lines(text, line_width=width)
    except BaseException as e:  # noqa
        return f"raised {type(e).__name__}: {str(e)[:100]}"
    if "".join(segs) != text:
        return f"concatenation differs: {segs!r}"
    for k, seg in enumerate(segs):
        if len(seg) > width:
            words = [w for w in seg.split(" ") if w != ""]
            non_articles = [w for w in words if w not in ARTICLES]
            # a single token: one word, optionally preceded by its article(s) -- not two words
            if len(non_articles) > 1:
                return f"segment {seg!r} exceeds width {width} but holds several words"
            if len(non_articles) == 0 and len(words) > 1:
                return f"segment {seg!r} of several articles exceeds width {width}"
    for k in range(len(segs) - 1):
        last_words = [w for w in segs[k].split(" ") if w != ""]
        next_words = [w for ss in segs[k + 1:] for w in ss.split(" ") if w != ""]
        if last_words and next_words and last_words[-1] in ARTICLES and next_words[0] not in ARTICLES:
            # exempt only the doubled-space reading: an article directly followed by an empty part
            if not segs[k].endswith("  ") and not segs[k + 1].startswith(" "):
                return f"segment {segs[k]!r} ends with an article although {next_words[0]!r} follows"
    return None


def bounded(seed: int = 0, max_tokens: int = 4, widths: Optional[List[int]] = None, **_: Any) -> Dict[str, Any]:
    widths = widths or [1, 4, 7, 12, 60]
    cases = 0
    failures: List[Any] = []
    seen = set()
    for n in range(0, max_tokens + 1):
        for combo in itertools.product(WORDS, repeat=n):
            text = " ".join(combo)
            if text in seen:
                continue
            seen.add(text)
            first: Dict[int, Any] = {}
            # ascending then descending, or the other way round: the result may not depend on the calls made before (a function of its
            # arguments); every clause is checked on every call
            order = list(widths) + list(reversed(widths))
            if len(seen) % 2 == 0:
                order = list(reversed(widths)) + list(widths)
            for w in order:
                cases += 1
                why = check(text, w)
                if why is None:
                    got = wrap_text_into_lines(text, line_width=w)
                    if w in first and first[w] != got:
                        why = (f"the result depends on earlier calls: first {first[w]!r}, after calls with other "
                               f"widths {got!r}")
                    first.setdefault(w, got)
                if why is not None and len(failures) < 3:
                    failures.append({"text": text, "line_width": w, "observed": why,
                                     "history": "calls with widths " + ", ".join(map(str, order))})
    return {"cases": cases, "distinct": len(seen), "failures": failures, "exhaustive": True,
            "samples": [{"text": "the cat sat on a looooooooong mat", "line_width": 7}]}


def replay(obligation: str = "", model: Optional[Dict[str, str]] = None, **_: Any) -> Dict[str, Any]:
    """Replay a counter-model of the proof unit on the running function: the model's text and width if it has them,
    then the small texts of the bounded unit (the verifier's model of a loop cut is an arbitrary iteration, not
    always a run from the start)."""
    candidates: List[Any] = []
    m = model or {}
    text = m.get("text")
    if isinstance(text, str) and text.startswith("seq:"):
        try:
            text = "".join(chr(int(x)) for x in text[4:].split(",") if x != "")
        except ValueError:
            text = None
    try:
        width = int(str(m.get("line_width", "60")))
    except ValueError:
        width = 60
    if isinstance(text, str):
        candidates.append((text, width))
    for n in range(0, 5):
        for combo in itertools.product(WORDS, repeat=n):
            for w in (60, 12, 7, 4, 1, 0):
                candidates.append((" ".join(combo), w))
    for text, width in candidates:
        why = check(text, width)
        if why is not None:
            return {"confirmed": True, "input": {"text": text, "line_width": width}, "observed": why}
    return {"confirmed": False}
