"""C30: bounded stand-in -- meta-models with constants, constant sets (superset_of chains) and enumerations go
through the real front end and the real Python generator; the generated ``constants.py`` / ``types.py`` /
``stringification.py`` are imported and compared with the values written in the meta-model.

The generator functions return program text; what that text *does* when imported is decided by CPython, not by a
contract on the generator (DESIGN.md).  Labelled bounded: the listed families of values, not all meta-models.
"""
import importlib
import io
import itertools
import pathlib
import sys
import tempfile
from typing import Any, Dict, List, Optional, Tuple

from aas_core_codegen import main as cg_main
from aas_core_codegen.python import naming as python_naming
from aas_core_codegen.common import Identifier

STR_VALUES = ["plain", "", "with 'single' and \"double\" quotes", "back\\slash", "line\nbreak\ttab", "nul\x00char",
              "ä€\U0001F600", "trailing\\", "{braces}", "%s %d", "\"\"\"", "'''", "\r", "\x7f\x85 ",
              # an escape followed by a character that could extend it: NUL + octal digit, control + hex digit
              "v\x001", "x\x007", "\x01f", "\x7f0", "\\x41", "\\N{DASH}"]
INT_VALUES = [0, 1, 7, 2 ** 31, 2 ** 63, 10 ** 20]  # a negative number is not a literal for the front end
FLOAT_VALUES = [0.0, 1.5, 2.25, 1e300, 1e-300, 123456789.123456789]
BYTES_VALUES: List[bytes] = []  # the front end has no literal form for byte-array constants
ENUM_VALUES = ["ok", "not-ok", "", "with space", "qu\"ote", "back\\slash", "ä", "UPPER", "upper", "new\nline",
               "L\x000", "L\x00",
               # braces: the from-string table is a plain dict literal, not an f-string
               "{id}", "{", "}", "{{id}}", "{0}"]


def _lit(v: Any) -> str:
    if isinstance(v, bytes):
        return "bytearray(" + repr(v) + ")"  # placeholder, replaced below
    return repr(v)


def build_model() -> Tuple[str, Dict[str, Any]]:
    """The meta-model text and what it declares."""
    lines: List[str] = []
    decl: Dict[str, Any] = {"constants": {}, "sets": {}, "enums": {}}
    lines.append("class Kind(Enum):")
    lines.append('    """Kinds."""')
    members = {}
    for k, v in enumerate(ENUM_VALUES):
        name = f"Literal_{k}"
        members[name] = v
        lines.append(f"    {name} = {v!r}")
    decl["enums"]["Kind"] = members
    lines.append("")
    lines.append("")
    for k, v in enumerate(STR_VALUES):
        decl["constants"][f"Text_{k}"] = v
        lines.append(f'Text_{k}: str = constant_str(value={v!r}, description="text {k}")')
    for k, v in enumerate(INT_VALUES):
        decl["constants"][f"Number_{k}"] = v
        lines.append(f'Number_{k}: int = constant_int(value={v!r}, description="number {k}")')
    for k, v in enumerate(FLOAT_VALUES):
        decl["constants"][f"Real_{k}"] = v
        lines.append(f'Real_{k}: float = constant_float(value={v!r}, description="real {k}")')
    for k, v in enumerate([True, False]):
        decl["constants"][f"Flag_{k}"] = v
        lines.append(f'Flag_{k}: bool = constant_bool(value={v!r}, description="flag {k}")')
    for k, v in enumerate(BYTES_VALUES):
        decl["constants"][f"Blob_{k}"] = v
        lines.append(f'Blob_{k}: bytearray = constant_bytearray(value={v!r}, description="blob {k}")')
    lines.append("")
    # sets of strings with a chain  Small <= Medium <= Large
    small = STR_VALUES[:3]
    medium = STR_VALUES[:7]
    large = list(STR_VALUES)
    decl["sets"]["Small_texts"] = set(small)
    decl["sets"]["Medium_texts"] = set(medium)
    decl["sets"]["Large_texts"] = set(large)
    lines.append(f'Small_texts: Set[str] = constant_set(values={small!r}, description="small")')
    lines.append(f'Medium_texts: Set[str] = constant_set(values={medium!r}, description="medium", '
                 f'superset_of=[Small_texts])')
    lines.append(f'Large_texts: Set[str] = constant_set(values={large!r}, description="large", '
                 f'superset_of=[Medium_texts, Small_texts])')
    ints = INT_VALUES[:4]
    decl["sets"]["Some_numbers"] = set(ints)
    lines.append(f'Some_numbers: Set[int] = constant_set(values={ints!r}, description="numbers")')
    # the same value listed twice is accepted by the front end: the set has it once
    decl["sets"]["Repeated_texts"] = {"a", "b", "c"}
    lines.append('Repeated_texts: Set[str] = constant_set(values=["a", "b", "b", "c"], description="repeated")')
    decl["sets"]["Repeated_numbers"] = {1, 2, 3}
    lines.append('Repeated_numbers: Set[int] = constant_set(values=[1, 2, 2, 3], description="repeated")')
    few = ["Literal_0", "Literal_2"]
    more = ["Literal_0", "Literal_2", "Literal_4", "Literal_9"]
    decl["sets"]["Few_kinds"] = {("Kind", n) for n in few}
    decl["sets"]["More_kinds"] = {("Kind", n) for n in more}
    lines.append("Few_kinds: Set[Kind] = constant_set(values=[" + ", ".join("Kind." + n for n in few)
                 + '], description="few")')
    lines.append("More_kinds: Set[Kind] = constant_set(values=[" + ", ".join("Kind." + n for n in more)
                 + '], description="more", superset_of=[Few_kinds])')
    lines.append("")
    lines.append("")
    lines.append('__version__ = "dummy"')
    lines.append('__xml_namespace__ = "https://dummy.com"')
    return "\n".join(lines) + "\n", decl


def bounded(seed: int = 0, **_: Any) -> Dict[str, Any]:
    text, decl = build_model()
    failures: List[Dict[str, Any]] = []
    cases = 0
    with tempfile.TemporaryDirectory() as d:
        root = pathlib.Path(d)
        (root / "snippets").mkdir()
        module = f"c30sdk{abs(hash(d)) % 10 ** 8}"
        (root / "snippets" / "qualified_module_name.txt").write_text(module, encoding="utf-8")
        model_path = root / "meta_model.py"
        model_path.write_text(text, encoding="utf-8")
        out = root / "out"
        out.mkdir()
        stdout, stderr = io.StringIO(), io.StringIO()
        try:
            rc = cg_main.execute(cg_main.Parameters(model_path=model_path, target=cg_main.Target.PYTHON,
                                                    snippets_dir=root / "snippets", output_dir=out,
                                                    cache_model=False), stdout=stdout, stderr=stderr)
        except BaseException as e:  # noqa
            return {"cases": 1, "distinct": 0, "exhaustive": False,
                    "failures": [{"observed": f"the generator raised {type(e).__name__}: {str(e)[:300]}"}]}
        if rc != 0:
            return {"cases": 1, "distinct": 0, "exhaustive": False,
                    "failures": [{"observed": f"the model with constants is not accepted: {stderr.getvalue()[:600]}"}]}
        sys.path.insert(0, str(out))
        try:
            try:
                consts = importlib.import_module(f"{module}.constants")
                types_ = importlib.import_module(f"{module}.types")
                strf = importlib.import_module(f"{module}.stringification")
            except BaseException as e:  # noqa
                return {"cases": 1, "distinct": 0, "exhaustive": False,
                        "failures": [{"observed": f"the generated SDK does not import: {type(e).__name__}: {str(e)[:300]}"}]}
            for name, want in decl["constants"].items():
                cases += 1
                py = python_naming.constant_name(Identifier(name))
                if not hasattr(consts, py):
                    failures.append({"constant": name, "observed": f"constants.{py} is missing"})
                    continue
                got = getattr(consts, py)
                same = (bytes(got) == want) if isinstance(want, bytes) else (got == want and type(got) is type(want))
                if not same:
                    failures.append({"constant": name, "declared": repr(want), "observed": f"constants.{py} == {got!r}"})
            enum_cls = getattr(types_, python_naming.enum_name(Identifier("Kind")))
            members = decl["enums"]["Kind"]
            got_values = sorted(m.value for m in enum_cls)
            cases += 1
            if got_values != sorted(members.values()):
                failures.append({"enumeration": "Kind", "declared": sorted(members.values()), "observed": got_values})
            from_str = getattr(strf, python_naming.function_name(Identifier("Kind_from_str")))
            for lit_name, value in members.items():
                cases += 1
                m = getattr(enum_cls, python_naming.enum_literal_name(Identifier(lit_name)), None)
                if m is None or m.value != value:
                    failures.append({"literal": lit_name, "declared": value, "observed": repr(m)})
                    continue
                if from_str(m.value) is not m:
                    failures.append({"literal": lit_name, "observed": f"from_str({m.value!r}) is {from_str(m.value)!r}"})
            for other in ["", "OK", "ok ", " ok", "Literal_0", "nope", "not-ok\n", "Ä"]:
                if other not in members.values():
                    cases += 1
                    if from_str(other) is not None:
                        failures.append({"text": other, "observed": f"from_str gives {from_str(other)!r} for a text that "
                                                                    "is no literal value"})
            for name, want in decl["sets"].items():
                cases += 1
                py = python_naming.constant_name(Identifier(name))
                got = getattr(consts, py, None)
                if got is None:
                    failures.append({"constant_set": name, "observed": f"constants.{py} is missing"})
                    continue
                if want and isinstance(next(iter(want)), tuple):
                    want_members = {getattr(enum_cls, python_naming.enum_literal_name(Identifier(n))) for _, n in want}
                    ok = set(got) == want_members
                else:
                    ok = set(got) == want and all(type(x) is type(next(iter(want))) for x in got)
                if not ok:
                    failures.append({"constant_set": name, "declared": repr(sorted(map(repr, want))),
                                     "observed": repr(sorted(map(repr, got)))})
        finally:
            sys.path.remove(str(out))
            for m in [m for m in sys.modules if m == module or m.startswith(module + ".")]:
                del sys.modules[m]
    return {"cases": cases, "distinct": cases, "failures": failures[:6], "exhaustive": False,
            "samples": [{"constants": len(decl["constants"]), "sets": sorted(decl["sets"]), "enum_literals": len(ENUM_VALUES)}]}
