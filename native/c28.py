"""C28: the recorded smoke cases (examples; not proof)."""
import io
import os
import pathlib
from typing import Any, Dict, List, Optional, Tuple

import aas_core_codegen.smoke.main as smoke

REPO = pathlib.Path(os.environ.get("VERIF_REPO", "/repo"))
if not (REPO / "dev").exists():
    REPO = pathlib.Path("/repo")


def recorded(seed: int = 0, **_: Any) -> Dict[str, Any]:
    root = REPO / "dev" / "test_data" / "smoke" / "test_main" / "unexpected"
    failures: List[Any] = []
    n = 0
    samples = []
    for mm in sorted(root.glob("**/meta_model.py")):
        n += 1
        err = io.StringIO()
        try:
            rc = smoke.execute(model_path=mm, stderr=err)
        except BaseException as e:  # noqa
            failures.append({"case": str(mm.parent.relative_to(root)), "observed": f"raised {type(e).__name__}: {e}"})
            continue
        exp = (mm.parent / "expected_stderr.txt").read_text(encoding="utf-8")
        got = err.getvalue().replace(str(mm), "<meta_model.py>")
        samples.append({"case": str(mm.parent.relative_to(root)), "exit": rc})
        if rc != 1 or got != exp:
            failures.append({"case": str(mm.parent.relative_to(root)), "exit": rc,
                             "observed": "stderr differs from the recorded expectation" if rc == 1 else "exit status is not 1",
                             "got": got[:300], "expected": exp[:300]})
    return {"cases": n, "distinct": n, "failures": failures, "samples": samples[:3], "exhaustive": True}


# ---------------------------------------------------------------------------------------------------------------
# bounded differential: the smoke tool against the stages it stands for, on mutants of valid meta-models

def _reference(model_path: pathlib.Path) -> Tuple[bool, str]:
    """(everything succeeds, first failing stage): front end, constraint inference, C# types and verification --
    called directly, independently of smoke/main.py (same dummy snippets as documented there)."""
    from aas_core_codegen import infer_for_schema, intermediate, run, specific_implementations
    from aas_core_codegen.common import Stripped
    from aas_core_codegen.csharp import common as csharp_common, lib as csharp_lib
    loaded, why = run.load_model(model_path)
    if why is not None or loaded is None:
        return False, "front end"
    st = loaded[0]
    _, errs = infer_for_schema.infer_constraints_by_class(symbol_table=st)
    if errs is not None:
        return False, "inference"
    verified, errs = csharp_lib.verify_for_types(st)
    if errs is not None or verified is None:
        return False, "csharp verify_for_types"
    spec: Dict[Any, Any] = {}
    dummy = Stripped("DUMMY IMPLEMENTATION")
    for cls in st.classes:
        if cls.is_implementation_specific:
            spec[specific_implementations.ImplementationKey(f"Types/{cls.name}/{cls.name}.cs")] = dummy
            continue
        for method in cls.methods:
            if isinstance(method, intermediate.ImplementationSpecificMethod):
                spec[specific_implementations.ImplementationKey(f"Types/{cls.name}/{method.name}.cs")] = dummy
    for verification in st.verification_functions:
        if isinstance(verification, intermediate.ImplementationSpecificVerification):
            spec[specific_implementations.ImplementationKey(f"Verification/{verification.name}.cs")] = dummy
    ns = csharp_common.NamespaceIdentifier("DummyNamespace")
    _, errs = csharp_lib.generate_types(symbol_table=verified, namespace=ns, spec_impls=spec)
    if errs is not None:
        return False, "csharp generate_types"
    _, errs = csharp_lib.generate_verification(symbol_table=st, namespace=ns, spec_impls=spec)
    if errs is not None:
        return False, "csharp generate_verification"
    return True, ""


def _differential_one(args: Any) -> Optional[Dict[str, Any]]:
    import io
    import tempfile
    from aas_core_codegen.smoke import main as smoke_main
    what, text = args
    with tempfile.TemporaryDirectory() as d:
        p = pathlib.Path(d) / "meta_model.py"
        p.write_text(text, encoding="utf-8")
        try:
            ok, stage = _reference(p)
        except BaseException:  # noqa
            return None  # a crash of a stage is C01 / C02's business
        err = io.StringIO()
        try:
            rc = smoke_main.execute(model_path=p, stderr=err)
        except BaseException as e:  # noqa
            return {"what": what, "observed": f"the smoke tool raised {type(e).__name__}: {str(e)[:200]}", "meta_model": text}
        if rc == 0 and not ok:
            return {"what": what, "observed": f"the smoke tool exits 0 although the stage '{stage}' fails", "meta_model": text}
        if rc != 0 and ok:
            return {"what": what, "observed": f"the smoke tool exits {rc} although every stage succeeds: {err.getvalue()[:300]}",
                    "meta_model": text}
        if rc != 0 and (rc != 1 or not err.getvalue().strip()):
            return {"what": what, "observed": f"exit status {rc} with the report {err.getvalue()[:100]!r}", "meta_model": text}
        if rc == 0 and err.getvalue() != "":
            return {"what": what, "observed": f"exit status 0 but stderr is {err.getvalue()[:100]!r}", "meta_model": text}
    return None


def differential(seed: int = 0, stride: int = 3, jobs: int = 16, **_: Any) -> Dict[str, Any]:
    import multiprocessing as mp
    from native import c01, c02, c06, c07, c11
    tasks = [("base model", c06.BASE), ("base model 2", c02.BASE2), ("harness model", c11.MODEL)]
    for base_name, base in (("base model", c06.BASE), ("harness model", c11.MODEL)):
        for k, (what, line, text) in enumerate(c01._mutants(base)):
            if k % stride == 0:
                tasks.append((f"{what} at line {line} of the {base_name}", text))
    # invariants that the type inference / the C# transpiler reject, next to accepted ones
    c07.reorder_props()
    exprs = c07.candidates()
    for k in range(0, len(exprs), 40):
        tasks.append((f"invariant {exprs[k]!r}", c07.build_model([exprs[k]])[0]))
    with mp.get_context("fork").Pool(jobs) as pool:
        res = pool.map(_differential_one, tasks, chunksize=8)
    failures = [r for r in res if r is not None]
    by_kind: Dict[str, Any] = {}
    for f in failures:
        by_kind.setdefault(f["observed"][:50], f)
    return {"cases": len(tasks), "distinct": len(tasks), "failures": list(by_kind.values())[:6], "exhaustive": True,
            "n_failing": len(failures), "samples": [{"meta_models": len(tasks)}]}
