"""C28: the recorded smoke cases (examples; not proof)."""
import io
import os
import pathlib
from typing import Any, Dict, List

import aas_core_codegen.smoke.main as smoke

REPO = pathlib.Path(os.environ.get("VERIF_REPO", "/repo"))
if not (REPO / "dev").exists():
    REPO = pathlib.Path("/repo")


def recorded(seed: int = 0, **_: Any) -> Dict[str, Any]:
    root = REPO / "dev" / "test_data" / "smoke" / "test_main" / "unexpected"
    failures: List[Any] = []
    n = 0
    samples = []
    for mm in sorted(root.glob("**/meta_model.py")):
        n += 1
        err = io.StringIO()
        try:
            rc = smoke.execute(model_path=mm, stderr=err)
        except BaseException as e:  # noqa
            failures.append({"case": str(mm.parent.relative_to(root)), "observed": f"raised {type(e).__name__}: {e}"})
            continue
        exp = (mm.parent / "expected_stderr.txt").read_text(encoding="utf-8")
        got = err.getvalue().replace(str(mm), "<meta_model.py>")
        samples.append({"case": str(mm.parent.relative_to(root)), "exit": rc})
        if rc != 1 or got != exp:
            failures.append({"case": str(mm.parent.relative_to(root)), "exit": rc,
                             "observed": "stderr differs from the recorded expectation" if rc == 1 else "exit status is not 1",
                             "got": got[:300], "expected": exp[:300]})
    return {"cases": n, "distinct": n, "failures": failures, "samples": samples[:3], "exhaustive": True}
