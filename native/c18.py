"""C18: bounded stand-in -- small anchored patterns through the real parser and ``revm.translate``; the program
is run by a reference implementation of the documented instruction semantics (a Pike VM) on every short string
and compared with ``re.fullmatch`` on the original pattern.

Instruction semantics (docstrings of intermediate/revm.py, and the generated C++ matcher): a set of threads, each
a program counter; Char/Set/NotSet/Any consume one character or kill the thread; Jump/Split move / fork without
consuming; End succeeds only at the end of the input; Match: the text matches.  Targets are indices into the
linearized program.
"""
import itertools
import re
from typing import Any, Dict, Iterator, List, Optional, Set

from aas_core_codegen.intermediate import revm
from aas_core_codegen.parse import retree

ATOMS = ["a", "b", ".", "[ab]", "[^a]", "[a-c]", "\\x62", "(a|b)", "(ab)", "(a|bc)", "(a*)", "[b-da]", "\\.", "(|a)"]
QUANTS = ["", "*", "+", "?", "{2}", "{1,2}", "{2,}", "{,2}", "{0}", "{0,1}", "{3}"]
ALPHABET = "abcd."


def flatten(node: Any) -> List[Any]:
    if isinstance(node, revm.Leaf):
        return [node]
    out: List[Any] = []
    for ch in node.children:
        out.extend(flatten(ch))
    return out


def in_ranges(c: str, ranges: Any) -> bool:
    return any(r.first <= c <= r.last for r in ranges)


def run(program: List[Any], text: str) -> Optional[bool]:
    """True / False, or None if the program is ill-formed (target out of range, no progress)."""
    n = len(program)

    def closure(pcs: List[int]) -> Optional[List[int]]:
        seen: Set[int] = set()
        order: List[int] = []
        stack = list(reversed(pcs))
        while stack:
            pc = stack.pop()
            if pc in seen:
                continue
            if not 0 <= pc < n:
                return None
            seen.add(pc)
            ins = program[pc].instruction
            if isinstance(ins, revm.InstructionJump):
                stack.append(ins.target)
            elif isinstance(ins, revm.InstructionSplit):
                stack.append(ins.second_target)
                stack.append(ins.first_target)
            else:
                order.append(pc)
        return order

    threads = closure([0])
    if threads is None:
        return None
    for pos in range(len(text) + 1):
        nxt: List[int] = []
        for pc in threads:
            ins = program[pc].instruction
            if isinstance(ins, revm.InstructionMatch):
                return True
            if isinstance(ins, revm.InstructionEnd):
                if pos == len(text):
                    more = closure([pc + 1])
                    if more is None:
                        return None
                    for q in more:
                        if isinstance(program[q].instruction, revm.InstructionMatch):
                            return True
                        if isinstance(program[q].instruction, revm.InstructionEnd):
                            # $$: handled by iterating once more
                            more2 = closure([q + 1])
                            if more2 is None:
                                return None
                            if any(isinstance(program[z].instruction, revm.InstructionMatch) for z in more2):
                                return True
                continue
            if pos == len(text):
                continue
            c = text[pos]
            ok = (
                (isinstance(ins, revm.InstructionChar) and ins.character == c)
                or (isinstance(ins, revm.InstructionSet) and in_ranges(c, ins.ranges))
                or (isinstance(ins, revm.InstructionNotSet) and not in_ranges(c, ins.ranges))
                or isinstance(ins, revm.InstructionAny)
            )
            if ok:
                nxt.append(pc + 1)
        if pos == len(text):
            break
        t2 = closure(nxt)
        if t2 is None:
            return None
        threads = t2
    return False


def patterns(max_terms: int) -> Iterator[str]:
    terms = [a + q for a in ATOMS for q in QUANTS]
    for k in range(0, max_terms + 1):
        for combo in itertools.product(terms, repeat=k):
            yield "^" + "".join(combo) + "$"


def check_pattern(pat: str, max_len: int) -> Optional[Dict[str, Any]]:
    try:
        regex, error = retree.parse([pat])
    except BaseException as e:  # noqa
        return {"pattern": pat, "observed": f"retree.parse raised {type(e).__name__}"}
    if error is not None:
        return None  # not accepted by the front end: outside C18
    try:
        compiled = re.compile(pat)
    except re.error:
        return None
    try:
        program = flatten(revm.translate(regex))
    except BaseException as e:  # noqa
        return {"pattern": pat, "observed": f"revm.translate raised {type(e).__name__}: {str(e)[:150]}"}
    for i, leaf in enumerate(program):
        if leaf.label is not None and leaf.label != i:
            return {"pattern": pat, "observed": f"label {leaf.label} at index {i}: labels are not the indices",
                    "program": revm.dump(revm.translate(regex))}
    for n in range(0, max_len + 1):
        for chars in itertools.product(ALPHABET, repeat=n):
            s = "".join(chars)
            want = compiled.fullmatch(s) is not None
            got = run(program, s)
            if got is None or got != want:
                return {"pattern": pat, "text": s, "observed": f"the program says {got}, re.fullmatch says {want}",
                        "program": revm.dump(revm.translate(regex))}
    return None


def bounded(seed: int = 0, max_terms: int = 2, max_len: int = 4, jobs: int = 16, **_: Any) -> Dict[str, Any]:
    import multiprocessing as mp
    pats = list(patterns(max_terms))
    pats += ["^(a|b)*c$", "^a(b|c)+d?$", "^((a|b)(c|d))*$", "^[a-c]{2,3}b*$", "^(a{2}){2}$", "^(a|ab)(c|bcd)$",
             "^a{,2}b{1,}$", "^(a*)*$", "^(a?)+b$", "^$", "^.*$", "^[^a]*a$", "^\\x61\\u0062$"]
    with mp.get_context("fork").Pool(jobs) as pool:
        res = pool.starmap(check_pattern, [(p, max_len) for p in pats], chunksize=64)
    failures = [r for r in res if r is not None]
    accepted = sum(1 for p in pats if retree.parse([p])[1] is None) if len(pats) < 5000 else -1
    out: Dict[str, Any] = {"cases": len(pats), "distinct": accepted if accepted >= 0 else len(pats),
                           "failures": failures[:3], "exhaustive": True,
                           "samples": [{"pattern": "^(a|b)*c$", "strings": f"all over '{ALPHABET}' up to length {max_len}"}]}
    if accepted == 0:
        out["failures"].append({"observed": "no generated pattern was accepted by the front end"})
    return out
