"""C18 (bounded), first alternative of the property: the *generated C++ matcher* run on the generated programs.

The generators ``cpp.lib._generate_common`` / ``_generate_revm`` write ``common.*`` and ``revm.*``; for each pattern
``cpp.lib._generate_pattern._generate_program_definition_for_regex`` writes the C++ block that builds its program
(the real emission, labels and wide-character literals included).  One translation unit with all programs is compiled
with g++ (C++17; ``tl/expected.hpp`` -- a third-party header the virtual machine does not use -- is a four-line
stand-in) and run: for every pattern and every string the answer of ``revm::Match`` is printed and compared with
``re.fullmatch``.  wchar_t has 32 bits on this platform: the UTF-32 branch of the generated code is the one compiled.
"""
import itertools
import os
import pathlib
import re
import shutil
import subprocess
import tempfile
from typing import Any, Dict, List

from aas_core_codegen.common import Stripped
from aas_core_codegen.cpp.lib import _generate_common, _generate_pattern, _generate_revm
from aas_core_codegen.parse import retree

from native import c18

STUB = '''// minimal stand-in for https://github.com/TartanLlama/expected: the regex virtual machine does not use it
#pragma once
#include <utility>
namespace tl {
template <class T, class E> class expected {};
template <class E> class unexpected {};
template <class E> unexpected<typename std::decay<E>::type> make_unexpected(E&&) { return {}; }
}  // namespace tl
'''

EXTRA = ["^(a|b)*c$", "^a(b|c)+d?$", "^((a|b)(c|d))*$", "^[a-c]{2,3}b*$", "^(a{2}){2}$", "^(a|ab)(c|bcd)$",
         "^a{,2}b{1,}$", "^(a*)*$", "^(a?)+b$", "^$", "^.*$", "^[^a]*a$", "^\\x61\\u0062$", "^[\\x61-\\x63]+\\.$",
         "^(\\U0001F600|a)b$", "^[\\U0001F600-\\U0001F64F]a$", "^[^\\U0001F600]$", "^\\u00e9{2}$",
         # comments written next to the instructions: empty node, node ending in a blank with */ inside, trailing backslash
         "^(|a)b$", "^(a*/ )b$", "^(a*/ |b)$", "^a \\\\$", "^(a\\\\)b$"]


def _wide(s: str) -> str:
    def one(c: str) -> str:
        if c in '"\\':
            return "\\" + c
        if ord(c) < 32:
            return f"\\x{ord(c):02x}\" L\""  # hex escape, closed so that a following hex digit is not swallowed
        if ord(c) > 126:
            return f"\\U{ord(c):08x}"
        return c
    return 'L"' + "".join(one(c) for c in s) + '"'


def _run_with_watchdog(cmd: List[str], quiet_s: float) -> Any:
    """Run ``cmd``; returns (stdout so far, hung, return code, stderr).  ``hung``: no output for ``quiet_s`` seconds."""
    import selectors
    import time
    proc = subprocess.Popen(cmd, stdout=subprocess.PIPE, stderr=subprocess.PIPE)
    assert proc.stdout is not None and proc.stderr is not None
    os.set_blocking(proc.stdout.fileno(), False)
    sel = selectors.DefaultSelector()
    sel.register(proc.stdout, selectors.EVENT_READ)
    chunks: List[bytes] = []
    last = time.time()
    hung = False
    while True:
        events = sel.select(timeout=0.25)
        if events:
            data = os.read(proc.stdout.fileno(), 1 << 16)
            if data:
                chunks.append(data)
                last = time.time()
                continue
            break  # end of file
        if proc.poll() is not None:
            rest = proc.stdout.read()
            if rest:
                chunks.append(rest)
            break
        if time.time() - last > quiet_s:
            hung = True
            proc.kill()
            break
    try:
        proc.wait(timeout=30)
    except subprocess.TimeoutExpired:
        proc.kill()
    err = b""
    try:
        err = proc.stderr.read() or b""
    except (OSError, ValueError):
        pass
    sel.close()
    return b"".join(chunks).decode("ascii", "replace"), hung, (proc.returncode if not hung else -9), err.decode("utf-8", "replace")


def _has_empty_cycle(pattern: str) -> bool:
    """The program of ``pattern`` has a cycle through jump / split instructions only (no character consumed)."""
    from aas_core_codegen.intermediate import revm
    regex, _ = retree.parse([pattern])
    assert regex is not None
    program = c18.flatten(revm.translate(regex))
    succ: Dict[int, List[int]] = {}
    for i, leaf in enumerate(program):
        ins = leaf.instruction
        if isinstance(ins, revm.InstructionJump):
            succ[i] = [ins.target]
        elif isinstance(ins, revm.InstructionSplit):
            succ[i] = [ins.first_target, ins.second_target]
    for s0 in succ:
        seen, stack = set(), list(succ[s0])
        while stack:
            x = stack.pop()
            if x == s0:
                return True
            if x in seen or x not in succ:
                continue
            seen.add(x)
            stack.extend(succ[x])
    return False


def bounded(seed: int = 0, stride: int = 41, max_len: int = 3, hang_s: int = 5, **_: Any) -> Dict[str, Any]:
    if shutil.which("g++") is None:
        return {"cases": 0, "distinct": 0, "failures": [], "exhaustive": False,
                "error": "g++ is not installed: the generated matcher cannot be compiled"}
    pats = [p for k, p in enumerate(c18.patterns(2)) if k % stride == 0] + list(c18.patterns(1)) + EXTRA
    pats = list(dict.fromkeys(pats))
    accepted: List[str] = []
    blocks: List[str] = []
    failures: List[Dict[str, Any]] = []
    for p in pats:
        regex, error = retree.parse([p])
        if error is not None or regex is None:
            continue
        try:
            re.compile(p)
        except re.error:
            continue
        try:
            block = _generate_pattern._generate_program_definition_for_regex(regex)
        except BaseException as e:  # noqa
            failures.append({"pattern": p, "observed": f"the program emission raised {type(e).__name__}: {str(e)[:120]}"})
            continue
        k = len(accepted)
        accepted.append(p)
        blocks.append(f"static Program Program{k}() {{\n{block}\nreturn program;\n}}\n")
    strings = ["".join(c) for n in range(0, max_len + 1) for c in itertools.product(c18.ALPHABET, repeat=n)]
    strings += ["\U0001F600", "\U0001F600b", "ab\u00e9", "\u00e9\u00e9", "\U0001F610a", "a.", "abc.", "\n", "a\nb"]
    ns = Stripped("dummy")
    with tempfile.TemporaryDirectory() as d:
        root = pathlib.Path(d)
        (root / "dummy").mkdir()
        (root / "tl").mkdir()
        (root / "tl" / "expected.hpp").write_text(STUB)
        (root / "dummy" / "common.hpp").write_text(_generate_common.generate_header(ns))
        (root / "dummy" / "common.cpp").write_text(_generate_common.generate_implementation(ns))
        (root / "dummy" / "revm.hpp").write_text(_generate_revm.generate_header(ns))
        (root / "dummy" / "revm.cpp").write_text(_generate_revm.generate_implementation(ns))
        main = ['#include "dummy/common.hpp"', '#include "dummy/revm.hpp"', "#include <cstdio>", "#include <string>",
                "#include <vector>", "#include <memory>", "using namespace dummy;",
                "typedef std::vector<std::unique_ptr<revm::Instruction> > Program;"]
        main += blocks
        main.append("static const std::wstring TEXTS[] = {" + ",\n".join(_wide(s) for s in strings) + "};")
        main.append("typedef Program (*Maker)();")
        main.append("static const Maker MAKERS[] = {" + ", ".join(f"Program{k}" for k in range(len(accepted))) + "};")
        # every answer is flushed: if the matcher does not terminate, the output tells on which program and text
        main.append("int main(int argc, char** argv) {\n  size_t start = (argc > 1) ? std::stoul(argv[1]) : 0;\n"
                    "  for (size_t k = start; k < sizeof(MAKERS) / sizeof(MAKERS[0]); ++k) {\n"
                    "    Program program = MAKERS[k]();\n"
                    "    for (const std::wstring& text : TEXTS) {\n"
                    "      std::putchar(revm::Match(program, text) ? '1' : '0');\n      std::fflush(stdout);\n    }\n"
                    "    std::putchar('\\n');\n    std::fflush(stdout);\n  }\n  return 0;\n}")
        (root / "main.cpp").write_text("\n".join(main), encoding="utf-8")
        cmd = ["g++", "-std=c++17", "-O0", "-I", str(root), "-o", str(root / "matcher"), str(root / "dummy" / "common.cpp"),
               str(root / "dummy" / "revm.cpp"), str(root / "main.cpp")]
        cp = subprocess.run(cmd, capture_output=True, text=True, timeout=1500)
        if cp.returncode != 0:
            return {"cases": len(accepted), "distinct": len(accepted), "exhaustive": False,
                    "failures": [{"observed": "the generated C++ does not compile: " + cp.stderr[:900]}]}
        lines: List[str] = []
        start = 0
        while start < len(accepted):
            # a program "does not terminate" if the matcher prints nothing for ``hang_s`` seconds (every answer is
            # flushed; on a loaded machine the whole run may take longer than that, a single answer does not)
            done, hung, rc, err = _run_with_watchdog([str(root / "matcher"), str(start)], hang_s)
            if hung:
                rows = done.split("\n")
                lines.extend(rows[:-1])
                k, j = start + len(rows) - 1, len(rows[-1])
                lines.append("")  # no answers for the program that hangs
                pat = accepted[k]
                cyc = _has_empty_cycle(pat)
                failures.append({"pattern": pat, "text": strings[j] if j < len(strings) else "?",
                                 "kind": "no-termination-on-an-empty-loop" if cyc else "no-termination",
                                 "observed": f"the generated C++ matcher does not terminate (no answer for {hang_s} s) on "
                                             f"this pattern and text" + ("; the program has a cycle of jumps and splits "
                                                                         "that consumes no character" if cyc else "")})
                start = k + 1
                continue
            if rc != 0:
                return {"cases": len(accepted), "distinct": len(accepted), "exhaustive": False,
                        "failures": [{"observed": f"the generated matcher exits with {rc}: {err[-400:]}"}]}
            lines.extend(done.splitlines())
            break
    if len(lines) != len(accepted):
        failures.append({"observed": f"{len(lines)} result lines for {len(accepted)} programs"})
    cases = 0
    for p, line in zip(accepted, lines):
        if line == "":
            continue
        compiled = re.compile(p)
        for s, bit in zip(strings, line):
            cases += 1
            want = compiled.fullmatch(s) is not None
            if "\n" in s:
                continue  # the property speaks of strings without line breaks
            if (bit == "1") != want:
                failures.append({"pattern": p, "text": s,
                                 "observed": f"the generated C++ matcher says {bit == '1'}, re.fullmatch says {want}"})
                break
    by_kind: Dict[str, Dict[str, Any]] = {}
    for f in failures:
        by_kind.setdefault(f.get("kind", "answer") + "|" + f.get("pattern", "")[:0], f)
    n_hang = sum(1 for f in failures if f.get("kind", "").startswith("no-termination"))
    failures = list(by_kind.values()) + [f for f in failures if f.get("kind") is None][1:4]
    return {"cases": cases, "distinct": len(accepted), "failures": failures[:4], "exhaustive": False,
            "programs_that_do_not_terminate": n_hang,
            "samples": [{"compiler": "g++ -std=c++17", "programs": len(accepted), "strings": len(strings)}]}
