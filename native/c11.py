"""C11 / C12 / C13 / C14 (examples-bounded): the generated JSON Schema and XSD against documents written by the
generated Python SDK.

One meta-model with length, pattern and list-size constraints on a class itself, on an ancestor and on constrained
primitives, an abstract parent with concrete children (model type), an enumeration and all primitive types goes
through the real front end and the real Python / JSON-Schema / XSD generators.  Instances are built with the
generated SDK; valid ones (the SDK's own ``verification`` reports nothing) are serialized and must validate (C11,
C13); for every constraint one value is broken (the SDK's verification must then report it -- otherwise the case is
skipped as not a violation) and the document must be rejected (C12, C14); structural faults (missing / unknown
properties, wrong model type, mistyped values) must be rejected too.  The schemas themselves must be valid schemas.

This executes generated artefacts with third-party validators (``jsonschema``, ``xmlschema``): it is a bounded
stand-in on a list of examples, never a proof (DESIGN.md §6 says why no contract decides these properties).
"""
import copy
import importlib
import io
import json
import pathlib
import sys
import tempfile
from typing import Any, Callable, Dict, List, Optional, Tuple

import jsonschema
import xmlschema

from aas_core_codegen import main as cg_main

MODEL = '''\
class Color(Enum):
    """Represent a color."""

    Red = "RED"
    Green = "GREEN"


@verification
def matches_code(text: str) -> bool:
    """Check that :paramref:`text` is a code."""
    pattern = f"^[A-Z][a-z0-9]*$"
    return match(pattern, text) is not None


@invariant(lambda self: len(self) <= 8, "Code at most 8 characters")
@invariant(lambda self: matches_code(self), "Code must be a code")
class Code(str, DBC):
    """Represent a code."""


@invariant(lambda self: len(self) >= 2, "Short code at least 2 characters")
@invariant(lambda self: len(self) <= 5, "Short code at most 5 characters")
class Short_code(Code, DBC):
    """Represent a short code."""


# a chain declared child first (the meta-model is only parsed, never executed, so this order is accepted)
@invariant(lambda self: len(self) <= 3, "Tiny text at most 3 characters")
class Tiny_text(Small_text, DBC):
    """Represent a tiny text."""


@invariant(lambda self: len(self) <= 10, "Small text at most 10 characters")
class Small_text(Wide_text, DBC):
    """Represent a small text."""


@invariant(lambda self: len(self) >= 1, "Wide text non-empty")
class Wide_text(str, DBC):
    """Represent a wide text."""


@invariant(lambda self: len(self) >= 1, "Blob non-empty")
@invariant(lambda self: len(self) <= 4, "Blob at most 4 bytes")
class Blob(bytearray, DBC):
    """Represent a blob."""


@abstract
@serialization(with_model_type=True)
@invariant(lambda self: len(self.name) >= 3, "Name at least 3 characters")
class Thing(DBC):
    """Represent a thing."""

    name: str
    """Name of the thing"""

    def __init__(self, name: str) -> None:
        self.name = name


@invariant(lambda self: len(self.name) <= 6, "Name of a carton at most 6 characters")
@invariant(lambda self: not (self.labels is not None) or len(self.labels) >= 1, "Labels non-empty")
@invariant(lambda self: not (self.labels is not None) or len(self.labels) <= 2, "At most two labels")
class Carton(Thing):
    """Represent a carton."""

    code: Short_code
    """Code of the carton"""

    count: int
    """Count"""

    ratio: float
    """Ratio"""

    flag: bool
    """Flag"""

    color: Optional[Color]
    """Color, if any"""

    labels: Optional[List[Code]]
    """Labels"""

    data: Optional[Blob]
    """Data"""

    def __init__(
        self,
        name: str,
        code: Short_code,
        count: int,
        ratio: float,
        flag: bool,
        color: Optional[Color] = None,
        labels: Optional[List[Code]] = None,
        data: Optional[Blob] = None,
    ) -> None:
        Thing.__init__(self, name)
        self.code = code
        self.count = count
        self.ratio = ratio
        self.flag = flag
        self.color = color
        self.labels = labels
        self.data = data


class Ball(Thing):
    """Represent a ball."""

    radius: int
    """Radius"""

    tiny: Optional[Tiny_text]
    """Tiny text"""

    def __init__(self, name: str, radius: int, tiny: Optional[Tiny_text] = None) -> None:
        Thing.__init__(self, name)
        self.radius = radius
        self.tiny = tiny


class URL_thing(Thing):
    """Represent a thing with an abbreviation in its name; concrete with a concrete descendant."""

    target_URL: str
    """Target"""

    def __init__(self, name: str, target_URL: str) -> None:
        Thing.__init__(self, name)
        self.target_URL = target_URL


class Signed_URL_thing(URL_thing):
    """Represent a signed thing."""

    signature: str
    """Signature"""

    def __init__(self, name: str, target_URL: str, signature: str) -> None:
        URL_thing.__init__(self, name, target_URL)
        self.signature = signature


#FORMULAS#
class Formula(DBC):
    """Represent a formula playground."""

    a: int
    """A"""

    b: int
    """B"""

    c: int
    """C"""

    p: bool
    """P"""

    q: bool
    """Q"""

    def __init__(self, a: int, b: int, c: int, p: bool, q: bool) -> None:
        self.a = a
        self.b = b
        self.c = c
        self.p = p
        self.q = q


@invariant(lambda self: len(self.things) >= 1, "At least one thing")
class Shelf(DBC):
    """Represent a shelf."""

    things: List[Thing]
    """Things on the shelf"""

    def __init__(self, things: List[Thing]) -> None:
        self.things = things


__version__ = "dummy"
__xml_namespace__ = "https://dummy.com"
'''

# invariants of ``Formula``: operator precedence and nesting as the transpilers have to preserve them
FORMULAS = [
    "self.a - (self.b + self.c) >= 0", "self.a - (self.b - self.c) >= 0", "(self.a + self.b) - self.c >= 0",
    "self.a - self.b - self.c >= 0", "self.a + (self.b - self.c) >= 0", "self.a - (self.b + (self.c - self.a)) >= 1",
    "not (self.p and self.q) or self.a > 0", "not self.p or not self.q or self.a > 0",
    "(self.p or self.q) and self.a > 0 or self.b > 0", "self.p or self.q and self.a > 0",
    "not (self.a > 0 and self.b > 0) or self.c > 0", "not (self.a > 0 or self.b > 0) or self.c > 0",
    "not (not self.p) or self.a >= self.b", "self.a > self.b or self.b > self.c or self.c > self.a or self.a == self.b",
    "(self.a > 0) == (self.b > 0) or self.p", "self.a - 1 >= self.b + 1 or self.q",
    "not (self.a - self.b > self.c) or self.p", "self.p == self.q or self.a != self.b",
]
MODEL = MODEL.replace("#FORMULAS#\n", "".join(
    f'@invariant(lambda self: {e}, "Formula {k}")\n' for k, e in enumerate(FORMULAS)))

SCHEMA_BASE = json.dumps({"$schema": "https://json-schema.org/draft/2019-09/schema", "title": "Dummy", "type": "object",
                          "allOf": [{"$ref": "#/definitions/Shelf"}]})
ROOT_ELEMENT = ('<xs:schema xmlns:xs="http://www.w3.org/2001/XMLSchema" xmlns="https://dummy.com" '
                'elementFormDefault="qualified" targetNamespace="https://dummy.com">\n'
                '    <xs:element name="shelf" type="shelf_t" />\n</xs:schema>')


def _generate(root: pathlib.Path, module: str) -> Optional[str]:
    (root / "snippets").mkdir()
    (root / "snippets" / "qualified_module_name.txt").write_text(module, encoding="utf-8")
    (root / "snippets" / "schema_base.json").write_text(SCHEMA_BASE, encoding="utf-8")
    (root / "snippets" / "root_element.xml").write_text(ROOT_ELEMENT, encoding="utf-8")
    model_path = root / "meta_model.py"
    model_path.write_text(MODEL, encoding="utf-8")
    for target in (cg_main.Target.PYTHON, cg_main.Target.JSONSCHEMA, cg_main.Target.XSD):
        out = root / target.value
        out.mkdir()
        stdout, stderr = io.StringIO(), io.StringIO()
        try:
            rc = cg_main.execute(cg_main.Parameters(model_path=model_path, target=target, snippets_dir=root / "snippets",
                                                    output_dir=out, cache_model=False), stdout=stdout, stderr=stderr)
        except BaseException as e:  # noqa
            return f"the {target.value} generator raised {type(e).__name__}: {str(e)[:300]}"
        if rc != 0:
            return f"the {target.value} generator reported: {stderr.getvalue()[:500]}"
    return None


def bounded(seed: int = 0, **_: Any) -> Dict[str, Any]:
    failures: List[Dict[str, Any]] = []
    cases = 0
    skipped: List[str] = []
    with tempfile.TemporaryDirectory() as d:
        root = pathlib.Path(d)
        module = f"c11sdk{abs(hash(d)) % 10 ** 8}"
        why = _generate(root, module)
        if why is not None:
            return {"cases": 1, "distinct": 0, "exhaustive": False, "failures": [{"observed": why}]}
        sys.path.insert(0, str(root / "python"))
        try:
            T = importlib.import_module(f"{module}.types")
            V = importlib.import_module(f"{module}.verification")
            J = importlib.import_module(f"{module}.jsonization")
            X = importlib.import_module(f"{module}.xmlization")
            schema = json.loads((root / "jsonschema" / "schema.json").read_text(encoding="utf-8"))
            # ---- the schemas are valid schemas
            cases += 1
            try:
                jsonschema.Draft201909Validator.check_schema(schema)
                validator = jsonschema.Draft201909Validator(schema)
            except BaseException as e:  # noqa
                return {"cases": cases, "distinct": 0, "exhaustive": False,
                        "failures": [{"property": "C11", "observed": f"the JSON schema is not a valid schema: {str(e)[:300]}"}]}
            refs = []

            def walk(x: Any) -> None:
                if isinstance(x, dict):
                    if "$ref" in x:
                        refs.append(x["$ref"])
                    for v in x.values():
                        walk(v)
                elif isinstance(x, list):
                    for v in x:
                        walk(v)
            walk(schema)
            for r in refs:
                cases += 1
                if not (r.startswith("#/definitions/") and r.split("/")[-1] in schema.get("definitions", {})):
                    failures.append({"property": "C11", "observed": f"the reference {r} does not resolve"})
            cases += 1
            try:
                xsd = xmlschema.XMLSchema(str(root / "xsd" / "schema.xsd"))
            except BaseException as e:  # noqa
                return {"cases": cases, "distinct": 0, "exhaustive": False,
                        "failures": [{"property": "C13", "observed": f"the XSD is not a valid schema: {str(e)[:300]}"}]}

            def box(**kw: Any) -> Any:
                args = dict(name="Boxy", code="Ab", count=3, ratio=1.5, flag=True, color=None, labels=None, data=None)
                args.update(kw)
                return T.Carton(**args)

            def shelf(*things: Any) -> Any:
                return T.Shelf(things=list(things))

            def judge(label: str, instance: Any, expect_valid: bool, json_too: bool = True) -> None:
                nonlocal cases
                errors = list(V.verify(instance))
                if expect_valid and errors:
                    skipped.append(f"{label}: the SDK itself reports {errors[0].cause!r}")
                    return
                if not expect_valid and not errors:
                    skipped.append(f"{label}: the SDK's verification does not report the broken value")
                    return
                jsonable = J.to_jsonable(instance)
                cases += 1
                ok_json = validator.is_valid(jsonable)
                if ok_json != expect_valid and json_too:
                    failures.append({"property": "C11" if expect_valid else "C12", "case": label, "document": jsonable,
                                     "observed": ("a valid document is rejected by the JSON schema: "
                                                  + "; ".join(e.message[:120] for e in validator.iter_errors(jsonable)))
                                     if expect_valid else "a document breaking the constraint is accepted by the JSON schema"})
                writer = io.StringIO()
                X.write(instance, writer)
                text = writer.getvalue()
                cases += 1
                try:
                    ok_xml = xsd.is_valid(text)
                    detail = ""
                    if expect_valid and not ok_xml:
                        detail = "; ".join(str(e.reason)[:120] for e in xsd.iter_errors(text))
                except BaseException as e:  # noqa
                    ok_xml, detail = False, f"{type(e).__name__}: {str(e)[:200]}"
                if ok_xml != expect_valid:
                    failures.append({"property": "C13" if expect_valid else "C14", "case": label, "document": text[:600],
                                     "observed": ("a valid document is rejected by the XSD: " + detail) if expect_valid
                                     else "a document breaking the constraint is accepted by the XSD"})

            # ---- valid instances (C11, C13)
            judge("minimal box", shelf(box()), True)
            judge("box with everything", shelf(box(color=T.Color.RED, labels=["A", "Bc1"], data=bytearray(b"\x00\x01\x02"))), True)
            judge("name at both bounds", shelf(box(name="Abc"), box(name="Abcdef")), True)
            judge("code at both bounds", shelf(box(code="Ab"), box(code="Abcde")), True)
            judge("label at its maximum", shelf(box(labels=["Abcdefgh"])), True)
            judge("two kinds of things", shelf(T.Ball(name="Round", radius=2), box()), True)
            judge("one-byte blob", shelf(box(data=bytearray(b"\xff"))), True)
            judge("four-byte blob", shelf(box(data=bytearray(b"abcd"))), True)
            judge("astral and special characters in a name", shelf(T.Ball(name="a\U0001F600<&>\"'", radius=1)), True)
            # ---- one constraint broken (C12, C14)
            judge("name shorter than the ancestor's minimum", shelf(box(name="Ab")), False)
            judge("ball name shorter than the ancestor's minimum", shelf(T.Ball(name="R", radius=1)), False)
            judge("code longer than the ancestor primitive's maximum", shelf(box(code="Abcdefghi")), False)
            judge("code longer than the descendant primitive's tightened maximum", shelf(box(code="Abcdef")), False)
            judge("code shorter than the descendant primitive's minimum", shelf(box(code="A")), False)
            judge("code breaking the pattern", shelf(box(code="ab")), False)
            judge("label breaking the pattern", shelf(box(labels=["x"])), False)
            judge("label longer than its maximum", shelf(box(labels=["Abcdefghi"])), False)
            judge("empty list of labels", shelf(box(labels=[])), False)
            judge("three labels", shelf(box(labels=["A", "B", "C"])), False)
            judge("empty shelf", T.Shelf(things=[]), False)
            judge("tiny text at its bounds", shelf(T.Ball(name="Round", radius=1, tiny="a"),
                                                   T.Ball(name="Round", radius=1, tiny="abc")), True)
            judge("tiny text shorter than the grand parent's minimum (declared after it)",
                  shelf(T.Ball(name="Round", radius=1, tiny="")), False)
            judge("tiny text longer than its own maximum", shelf(T.Ball(name="Round", radius=1, tiny="abcd")), False)
            judge("empty blob", shelf(box(data=bytearray(b""))), False)
            # five bytes are eight base64 characters, like four bytes: not expressible on the JSON text (excluded in C12)
            judge("blob longer than its maximum", shelf(box(data=bytearray(b"abcde"))), False, json_too=False)
            judge("blob much longer than its maximum", shelf(box(data=bytearray(b"abcdefgh"))), False)
            # the own-class tightening of an inherited property (excluded by design for C14, required by C12)
            errors = list(V.verify(shelf(box(name="Abcdefg"))))
            if errors:
                jsonable = J.to_jsonable(shelf(box(name="Abcdefg")))
                cases += 1
                if validator.is_valid(jsonable):
                    failures.append({"property": "C12", "case": "name longer than the class's own maximum",
                                     "document": jsonable,
                                     "observed": "a document breaking the constraint is accepted by the JSON schema"})
            # ---- structural faults on a valid document (C12 / C14)
            good = J.to_jsonable(shelf(box(color=T.Color.RED)))
            assert validator.is_valid(good) or True

            def mutate(label: str, f: Callable[[Any], None]) -> None:
                nonlocal cases
                doc = copy.deepcopy(good)
                f(doc)
                cases += 1
                if validator.is_valid(doc):
                    failures.append({"property": "C12", "case": label, "document": doc,
                                     "observed": "a structurally wrong document is accepted by the JSON schema"})
            mutate("missing modelType", lambda doc: doc["things"][0].pop("modelType"))
            mutate("wrong modelType", lambda doc: doc["things"][0].__setitem__("modelType", "Ball"))
            mutate("unknown modelType", lambda doc: doc["things"][0].__setitem__("modelType", "Nope"))
            mutate("missing required property", lambda doc: doc["things"][0].pop("count"))
            mutate("mistyped integer", lambda doc: doc["things"][0].__setitem__("count", "3"))
            mutate("mistyped boolean", lambda doc: doc["things"][0].__setitem__("flag", "true"))
            mutate("unknown enumeration literal", lambda doc: doc["things"][0].__setitem__("color", "BLUE"))
            mutate("things is not a list", lambda doc: doc.__setitem__("things", doc["things"][0]))
            writer = io.StringIO()
            X.write(shelf(box(color=T.Color.RED)), writer)
            good_xml = writer.getvalue()
            for label, old, new in (("unknown element", "<count>3</count>", "<count>3</count><extra>1</extra>"),
                                    ("missing required element", "<count>3</count>", ""),
                                    ("misplaced element", "<count>3</count><ratio>1.5</ratio>", "<ratio>1.5</ratio><count>3</count>"),
                                    ("mistyped integer", "<count>3</count>", "<count>three</count>"),
                                    ("unknown enumeration literal", "<color>RED</color>", "<color>BLUE</color>")):
                if old not in good_xml:
                    skipped.append(f"xml {label}: the SDK output has no {old!r}")
                    continue
                cases += 1
                try:
                    ok = xsd.is_valid(good_xml.replace(old, new))
                except BaseException:  # noqa
                    ok = False
                if ok:
                    failures.append({"property": "C14", "case": label,
                                     "observed": "a structurally wrong document is accepted by the XSD"})
        finally:
            sys.path.remove(str(root / "python"))
            for m in [m for m in sys.modules if m == module or m.startswith(module + ".")]:
                del sys.modules[m]
    return {"cases": cases, "distinct": cases, "failures": failures[:8], "exhaustive": False,
            "samples": [{"skipped": skipped[:6]}]}
