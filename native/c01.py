"""Native replays for C01 units: the real front end on small meta-models around the refuted obligation."""
import pathlib
import re
import tempfile
from typing import Any, Dict, Optional

from aas_core_codegen import run
from native import c06


def _load(text: str, d: str) -> Optional[str]:
    """None: no crash; otherwise what was raised."""
    p = pathlib.Path(d) / "meta_model.py"
    p.write_text(text, encoding="utf-8")
    try:
        run.load_model(p)
    except BaseException as e:  # noqa
        return f"load_model raised {type(e).__name__}: {str(e)[:200]}"
    return None


def replay_constant_set(obligation: str = "", model: Optional[Dict[str, str]] = None, **_: Any) -> Dict[str, Any]:
    """constant_set(...) written with positional / keyword arguments in every arrangement."""
    old = 'constant_set(values=[Color.Red], description="Warm colors")'
    variants = [
        'constant_set([Color.Red])', 'constant_set([Color.Red], "d")', 'constant_set([Color.Red], "d", None)',
        'constant_set([Color.Red], "d", None, [])', 'constant_set([Color.Red], "d", None, [], 1)', 'constant_set()',
        'constant_set(values=[Color.Red], superset_of=[])', 'constant_set(values=[Color.Red], reference_in_the_book="x")',
        'constant_set(values=Color.Red)', 'constant_set(values=[])', 'constant_set(values=[Color.Red], description=1)',
        'constant_set(values=[Color.Red], superset_of=[Unknown])', 'constant_set(values=[Color.Red], superset_of=Warm_colors)',
    ]
    with tempfile.TemporaryDirectory() as d:
        for v in variants:
            why = _load(c06.BASE.replace(old, v), d)
            if why is not None:
                return {"confirmed": True, "input": {"constant_set": v}, "observed": why}
    return {"confirmed": False}


def replay_pattern_function(obligation: str = "", model: Optional[Dict[str, str]] = None, **_: Any) -> Dict[str, Any]:
    """Meta-models whose pattern verification function has an unusual pattern: never a crash, and an accepted
    model has a non-empty pattern anchored with '^' ... '$' in its single alternative."""
    old = 'f"^[a-zA-Z][a-zA-Z0-9_]*$"'
    pats = ["|^a$", "^a$|^b$", "^a$|", "||", "", "a", "^a", "a$", "^$", "^a$", "(^a$)", "^(a|b)$", "^a|b$", "$a^",
            "^^a$$"]
    with tempfile.TemporaryDirectory() as d:
        for pat in pats:
            text = c06.BASE.replace(old, 'f"' + pat + '"')
            p = pathlib.Path(d) / "meta_model.py"
            p.write_text(text, encoding="utf-8")
            try:
                res, err = run.load_model(p)
            except BaseException as e:  # noqa
                return {"confirmed": True, "input": {"pattern": pat},
                        "observed": f"load_model raised {type(e).__name__}: {str(e)[:200]}"}
            anchored = pat in ("^$", "^a$", "^(a|b)$", "^^a$$")
            if err is None and not anchored:
                return {"confirmed": True, "input": {"pattern": pat},
                        "observed": "a pattern that is empty / not anchored at both ends in one alternative is accepted"}
    return {"confirmed": False}
