"""Native replays for C01 units: the real front end on small meta-models around the refuted obligation."""
import pathlib
import re
import tempfile
from typing import Any, Dict, Optional

from aas_core_codegen import run
from native import c06


def _load(text: str, d: str) -> Optional[str]:
    """None: no crash; otherwise what was raised."""
    p = pathlib.Path(d) / "meta_model.py"
    p.write_text(text, encoding="utf-8")
    try:
        run.load_model(p)
    except BaseException as e:  # noqa
        return f"load_model raised {type(e).__name__}: {str(e)[:200]}"
    return None


def replay_constant_set(obligation: str = "", model: Optional[Dict[str, str]] = None, **_: Any) -> Dict[str, Any]:
    """constant_set(...) written with positional / keyword arguments in every arrangement."""
    old = 'constant_set(values=[Color.Red], description="Warm colors")'
    variants = [
        'constant_set([Color.Red])', 'constant_set([Color.Red], "d")', 'constant_set([Color.Red], "d", None)',
        'constant_set([Color.Red], "d", None, [])', 'constant_set([Color.Red], "d", None, [], 1)', 'constant_set()',
        'constant_set(values=[Color.Red], superset_of=[])', 'constant_set(values=[Color.Red], reference_in_the_book="x")',
        'constant_set(values=Color.Red)', 'constant_set(values=[])', 'constant_set(values=[Color.Red], description=1)',
        'constant_set(values=[Color.Red], superset_of=[Unknown])', 'constant_set(values=[Color.Red], superset_of=Warm_colors)',
    ]
    with tempfile.TemporaryDirectory() as d:
        for v in variants:
            why = _load(c06.BASE.replace(old, v), d)
            if why is not None:
                return {"confirmed": True, "input": {"constant_set": v}, "observed": why}
    return {"confirmed": False}


def replay_pattern_function(obligation: str = "", model: Optional[Dict[str, str]] = None, **_: Any) -> Dict[str, Any]:
    """Meta-models whose pattern verification function has an unusual pattern: never a crash, and an accepted
    model has a non-empty pattern anchored with '^' ... '$' in its single alternative."""
    old = 'f"^[a-zA-Z][a-zA-Z0-9_]*$"'
    pats = ["|^a$", "^a$|^b$", "^a$|", "||", "", "a", "^a", "a$", "^$", "^a$", "(^a$)", "^(a|b)$", "^a|b$", "$a^",
            "^^a$$"]
    with tempfile.TemporaryDirectory() as d:
        for pat in pats:
            text = c06.BASE.replace(old, 'f"' + pat + '"')
            p = pathlib.Path(d) / "meta_model.py"
            p.write_text(text, encoding="utf-8")
            try:
                res, err = run.load_model(p)
            except BaseException as e:  # noqa
                return {"confirmed": True, "input": {"pattern": pat},
                        "observed": f"load_model raised {type(e).__name__}: {str(e)[:200]}"}
            anchored = pat in ("^$", "^a$", "^(a|b)$", "^^a$$")
            if err is None and not anchored:
                return {"confirmed": True, "input": {"pattern": pat},
                        "observed": "a pattern that is empty / not anchored at both ends in one alternative is accepted"}
    return {"confirmed": False}


# ---------------------------------------------------------------------------------------------------------------
# bounded stand-in for the front end as a whole: token- and line-level mutants of valid meta-models never make
# run.load_model raise (they may be accepted or rejected)

STRING_ALTERNATIVES = ['""', '"^$"', '"*"', "1", 'f"{x}"', '"\\u00b2"', "None",
                       # rejected patterns with literal line breaks (the error has to be rendered), a trailing '|'
                       '"^\\n\\\\d$"', '"[\\r"', '"^a$|"',
                       # texts that docutils warns about, in the usual multi-line layout (closing quotes on their own
                       # line): the error quotes the text, which ends in a line break
                       '"""\n    Represent *something.\n    """', '"""\n    Represent something.\n\n    * item\n    continued\n    """']


def _mutants(text: str) -> Any:
    import io
    import tokenize
    lines = text.splitlines(keepends=True)
    for i in range(len(lines)):
        yield ("delete line", i + 1, "".join(lines[:i] + lines[i + 1:]))
        yield ("duplicate line", i + 1, "".join(lines[:i + 1] + lines[i:]))
        if i + 1 < len(lines):
            yield ("swap lines", i + 1, "".join(lines[:i] + [lines[i + 1], lines[i]] + lines[i + 2:]))
    try:
        toks = list(tokenize.generate_tokens(io.StringIO(text).readline))
    except (tokenize.TokenError, IndentationError, SyntaxError):
        return
    names = sorted({t.string for t in toks if t.type == tokenize.NAME})
    offsets = [0]
    for ln in lines:
        offsets.append(offsets[-1] + len(ln))
    # f-strings (the usual form of a pattern) are several tokens since Python 3.12: replace them as a whole
    fstart = getattr(tokenize, "FSTRING_START", None)
    fend = getattr(tokenize, "FSTRING_END", None)
    depth, start_tok = 0, None
    for t in toks:
        if fstart is not None and t.type == fstart:
            if depth == 0:
                start_tok = t
            depth += 1
        elif fend is not None and t.type == fend:
            depth -= 1
            if depth == 0 and start_tok is not None:
                a = offsets[start_tok.start[0] - 1] + start_tok.start[1]
                b = offsets[t.end[0] - 1] + t.end[1]
                for alt in STRING_ALTERNATIVES:
                    yield (f"f-string {text[a:b][:20]!r} -> {alt!r}", start_tok.start[0], text[:a] + alt + text[b:])
    for k, t in enumerate(toks):
        if t.type not in (tokenize.NAME, tokenize.STRING, tokenize.NUMBER, tokenize.OP):
            continue
        a = offsets[t.start[0] - 1] + t.start[1]
        b = offsets[t.end[0] - 1] + t.end[1]
        if t.type == tokenize.NAME:
            alts = ["None", "self", "str", "Optional", "List", "x_1", names[(names.index(t.string) + 1) % len(names)],
                    names[(names.index(t.string) + 7) % len(names)]]
        elif t.type == tokenize.STRING:
            alts = STRING_ALTERNATIVES
        elif t.type == tokenize.NUMBER:
            alts = ["0", "-1", '"1"', "1.5", "None"]
        else:
            alts = {"(": ["[", ""], ")": ["]", ""], "[": ["(", ""], "]": [")", ""], ",": ["", ";"], ":": ["", "="],
                    "=": ["==", ":"], ".": ["", ","], "->": ["", ":"], ">=": ["<", "=="], ">": [">=", "in"],
                    "@": [""]}.get(t.string, [""])
        for alt in alts:
            if alt != t.string:
                yield (f"token {t.string!r} -> {alt!r}", t.start[0], text[:a] + alt + text[b:])


def _try_load(args: Any) -> Optional[Dict[str, Any]]:
    what, line, text = args
    with tempfile.TemporaryDirectory() as d:
        why = _load(text, d)
    if why is not None:
        return {"mutation": what, "line": line, "observed": why, "meta_model": text}
    return None


def mutation_sweep(seed: int = 0, with_recorded: bool = False, jobs: int = 16, **_: Any) -> Dict[str, Any]:
    import multiprocessing as mp
    import os
    sources = [("base", c06.BASE)]
    repo = pathlib.Path(os.environ.get("VERIF_REPO", "/repo"))
    if not (repo / "dev").exists():
        repo = pathlib.Path("/repo")
    if with_recorded:
        for pat in ("dev/test_data/intermediate/expected/**/meta_model.py", "dev/test_data/parse/expected/**/meta_model.py",
                    "dev/test_data/common_meta_models/*.py", "dev/test_data/intermediate/unexpected/**/meta_model.py",
                    "dev/test_data/parse/unexpected/**/meta_model.py"):
            for p in sorted(repo.glob(pat)):
                if p.stat().st_size < 6000:
                    sources.append((str(p.relative_to(repo)), p.read_text(encoding="utf-8")))
    tasks = []
    for _name, text in sources:
        tasks.extend(_mutants(text))
    with mp.get_context("fork").Pool(jobs) as pool:
        res = pool.map(_try_load, tasks, chunksize=32)
    failures: Dict[str, Dict[str, Any]] = {}
    for r in res:
        if r is not None:
            failures.setdefault(r["observed"][:60], r)
    return {"cases": len(tasks), "distinct": len(sources), "failures": list(failures.values())[:8], "exhaustive": True,
            "n_failing": sum(1 for r in res if r is not None),
            "samples": [{"sources": [n for n, _ in sources][:5], "mutants": len(tasks)}]}
