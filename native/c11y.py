"""C11 / C12 / C13 / C14 (examples-bounded), second model: the recursive meta-model of ``native/c09.py``.

Nested containers (a class that contains a list of itself), optional enumeration / integer / string properties, a
class with boolean and integer properties only.  Documents are written by the generated Python SDK.  An instance for
which the SDK's own verification reports nothing must validate against the generated JSON Schema and XSD (C11, C13);
an instance whose *only* violations are constraints that the schemas are meant to enforce (length and pattern of a
property) must be rejected by both (C12, C14).  Instances violating other invariants (arithmetic, cross-property) are
not judged: the schemas cannot express them.
"""
import importlib
import io
import json
import pathlib
import sys
import tempfile
from typing import Any, Dict, List

import jsonschema
import xmlschema

from aas_core_codegen import main as cg_main

from native import c09

SCHEMA_BASE = json.dumps({"$schema": "https://json-schema.org/draft/2019-09/schema", "title": "Dummy", "type": "object",
                          "allOf": [{"$ref": "#/definitions/Carton"}]})
ROOT_ELEMENT = ('<xs:schema xmlns:xs="http://www.w3.org/2001/XMLSchema" xmlns="https://dummy.com" '
                'elementFormDefault="qualified" targetNamespace="https://dummy.com">\n'
                '    <xs:element name="carton" type="carton_t" />\n</xs:schema>')
# descriptions of the invariants that the schemas are meant to enforce (lengths and patterns of properties)
ENFORCED = {"Name at least 2 characters", "Name at most 6 characters", "Name must be a code",
            "Note at least 3 characters if given", "At least one item", "At most three items", "At least two nested",
            "At most ten nested"}


def bounded(seed: int = 0, **_: Any) -> Dict[str, Any]:
    failures: List[Dict[str, Any]] = []
    cases = 0
    judged = {"valid": 0, "invalid": 0, "not judged": 0}
    with tempfile.TemporaryDirectory() as d:
        root = pathlib.Path(d)
        module = f"c11ysdk{abs(hash(d)) % 10 ** 8}"
        (root / "snippets").mkdir()
        (root / "snippets" / "qualified_module_name.txt").write_text(module, encoding="utf-8")
        (root / "snippets" / "schema_base.json").write_text(SCHEMA_BASE, encoding="utf-8")
        (root / "snippets" / "root_element.xml").write_text(ROOT_ELEMENT, encoding="utf-8")
        model = root / "meta_model.py"
        # a list bound with more digits than its lower bound (2..10): cardinalities are numbers, not texts
        text = c09.MODEL.replace(
            '@invariant(lambda self: len(self.items) >= 1, "At least one item")',
            '@invariant(lambda self: not (self.nested is not None) or len(self.nested) >= 2, "At least two nested")\n'
            '@invariant(lambda self: not (self.nested is not None) or len(self.nested) <= 10, "At most ten nested")\n'
            '@invariant(lambda self: len(self.items) >= 1, "At least one item")')
        assert text != c09.MODEL
        # a length constraint behind a guard on *another* property cannot be put into a schema
        text2 = text.replace(
            '@invariant(lambda self: len(self.name) >= 2, "Name at least 2 characters")',
            '@invariant(lambda self: not (self.weight is not None) or len(self.name) >= 3, "Weighed items have longer names")\n'
            '@invariant(lambda self: not (self.weight is not None) or matches_code(self.name), "Weighed items have codes")\n'
            '@invariant(lambda self: len(self.name) >= 2, "Name at least 2 characters")')
        assert text2 != text
        model.write_text(text2, encoding="utf-8")
        for target in (cg_main.Target.PYTHON, cg_main.Target.JSONSCHEMA, cg_main.Target.XSD):
            out = root / target.value
            out.mkdir()
            stdout, stderr = io.StringIO(), io.StringIO()
            try:
                rc = cg_main.execute(cg_main.Parameters(model_path=model, target=target, snippets_dir=root / "snippets",
                                                        output_dir=out, cache_model=False), stdout=stdout, stderr=stderr)
            except BaseException as e:  # noqa
                return {"cases": 1, "distinct": 0, "exhaustive": False,
                        "failures": [{"observed": f"the {target.value} generator raised {type(e).__name__}: {str(e)[:200]}"}]}
            if rc != 0:
                return {"cases": 1, "distinct": 0, "exhaustive": False,
                        "failures": [{"observed": f"the {target.value} generator reported: {stderr.getvalue()[:400]}"}]}
        sys.path.insert(0, str(root / "python"))
        try:
            T = importlib.import_module(f"{module}.types")
            V = importlib.import_module(f"{module}.verification")
            J = importlib.import_module(f"{module}.jsonization")
            X = importlib.import_module(f"{module}.xmlization")
            schema = json.loads((root / "jsonschema" / "schema.json").read_text(encoding="utf-8"))
            try:
                jsonschema.Draft201909Validator.check_schema(schema)
                validator = jsonschema.Draft201909Validator(schema)
                xsd = xmlschema.XMLSchema(str(root / "xsd" / "schema.xsd"))
            except BaseException as e:  # noqa
                return {"cases": 1, "distinct": 0, "exhaustive": False,
                        "failures": [{"property": "C11", "observed": f"a generated schema is not valid: {str(e)[:300]}"}]}

            def item(args: Any) -> Any:
                name, note, color, weight = args
                return T.Item(name=name, remark=note, color=None if color is None else getattr(T.Color, color.upper()),
                              weight=weight)

            def formula(args: Any) -> Any:
                a, b, c, p, q = args
                return T.Formula(a=a, b=b, c=c, p=p, q=q)

            def tree(t: Any) -> Any:
                its, fi, kids = t
                return T.Carton(items=[item(c09.ITEM_ARGS[i]) for i in its],
                                formula=None if fi is None else formula(c09.FORMULA_ARGS[fi]),
                                nested=None if kids is None else [tree(k) for k in kids])
            cartons = [(f"box {k}", T.Carton(items=[item(c09.ITEM_ARGS[i]) for i in its],
                                              formula=None if fi is None else formula(c09.FORMULA_ARGS[fi])))
                       for k, (its, fi) in enumerate(c09.BOX_ARGS)]
            cartons += [(f"tree {k}", tree(t)) for k, t in enumerate(c09.TREES)]
            # one item per carton, for every item, so that each constraint is seen alone
            cartons += [(f"single item {k}", T.Carton(items=[item(a)])) for k, a in enumerate(c09.ITEM_ARGS)]
            # valid formulas inside a valid carton
            good_item = item(("Ab", None, None, None))
            for k, a in enumerate(c09.FORMULA_ARGS):
                f = formula(a)
                if not list(V.verify(f)) and a[0] >= 0:
                    cartons.append((f"valid formula {k}", T.Carton(items=[good_item], formula=f)))
            # nested lists of every size 0..11 (bounds 2..10), the nested cartons themselves valid
            for size in range(0, 12):
                cartons.append((f"{size} nested cartons", T.Carton(items=[good_item], nested=[
                    T.Carton(items=[item(("Ab", None, None, None))]) for _ in range(size)])))
            for label, inst in cartons:
                causes = {str(e.cause) for e in V.verify(inst)}
                if not causes:
                    expect = True
                    judged["valid"] += 1
                elif causes <= ENFORCED:
                    expect = False
                    judged["invalid"] += 1
                else:
                    judged["not judged"] += 1
                    continue
                jsonable = J.to_jsonable(inst)
                cases += 1
                if validator.is_valid(jsonable) != expect:
                    why = "; ".join(e.message[:100] for e in list(validator.iter_errors(jsonable))[:2])
                    failures.append({"property": "C11" if expect else "C12", "case": label, "document": jsonable,
                                     "observed": ("a valid document is rejected by the JSON schema: " + why) if expect else
                                     f"the JSON schema accepts a document that breaks {sorted(causes)}"})
                text = X.to_str(inst)
                cases += 1
                try:
                    ok_xml = xsd.is_valid(text)
                    why_xml = "" if ok_xml else str(next(xsd.iter_errors(text)).reason)[:160]
                except BaseException as e:  # noqa
                    ok_xml, why_xml = False, f"{type(e).__name__}: {str(e)[:120]}"
                if ok_xml != expect:
                    failures.append({"property": "C13" if expect else "C14", "case": label, "document": text[:400],
                                     "observed": ("a valid document is rejected by the XSD: " + why_xml) if expect else
                                     f"the XSD accepts a document that breaks {sorted(causes)}"})
        finally:
            sys.path.remove(str(root / "python"))
            for m in [m for m in sys.modules if m == module or m.startswith(module + ".")]:
                del sys.modules[m]
    if judged["valid"] == 0 or judged["invalid"] == 0:
        failures.append({"observed": f"vacuous: {judged}"})
    return {"cases": cases, "distinct": cases, "failures": failures[:8], "exhaustive": False, "samples": [judged]}
