"""Native replays for C17: the real UTF-16 rewriting, judged by Python's ``re`` on UTF-16 code units.

A string is encoded to UTF-16 code units and each unit is mapped to one character, so that ``re`` on the
unit string behaves like a UTF-16-only regex engine; the rewritten pattern must match the unit string
exactly when the original pattern matches the string."""
import re
from typing import Any, Dict, List, Optional

from aas_core_codegen.parse import retree


def _units(s: str) -> str:
    b = s.encode("utf-16-le", "surrogatepass")
    return "".join(chr(int.from_bytes(b[i:i + 2], "little")) for i in range(0, len(b), 2))


def _rewrite(pattern: str) -> Optional[str]:
    regex, err = retree.parse([pattern])
    if err is not None or regex is None:
        return None
    retree.fix_for_utf16_regex_in_place(regex)
    return "".join(retree.render(regex))  # type: ignore


def _check(pattern: str, samples: List[str]) -> Optional[Dict[str, Any]]:
    try:
        fixed = _rewrite(pattern)
    except BaseException as e:  # noqa
        return {"pattern": pattern, "observed": f"rewriting raised {type(e).__name__}: {str(e)[:120]}"}
    if fixed is None:
        return None
    for s in samples:
        want = re.fullmatch(pattern, s) is not None
        try:
            got = re.fullmatch(fixed, _units(s)) is not None
        except re.error as e:
            return {"pattern": pattern, "rewritten": fixed, "observed": f"rewritten pattern is invalid: {e}"}
        if want != got:
            return {"pattern": pattern, "rewritten": fixed, "string_code_points": [ord(c) for c in s],
                    "observed": f"original matches: {want}; rewritten on UTF-16 units matches: {got}"}
    return None


def _esc(cp: int) -> str:
    return f"\\U{cp:08x}" if cp > 0xFFFF else f"\\u{cp:04x}"


def replay_charset(obligation: str = "", model: Optional[Dict[str, str]] = None, unit: str = "", **_: Any) -> Dict[str, Any]:
    model = model or {}
    cands = []
    comp = "complementing" in unit
    if "s0" in model:
        s0 = int(model["s0"])
        e0 = int(model.get("e0", s0))
        rng = _esc(s0) + ("-" + _esc(e0) if e0 != s0 else "")
        if "s1" in model:
            s1, e1 = int(model["s1"]), int(model.get("e1", model["s1"]))
            rng += _esc(s1) + ("-" + _esc(e1) if e1 != s1 else "")
        cands += [f"^[^{rng}]$"] if comp else [f"^[{rng}]$", f"^[{rng}]+$"]
    cands += ["^[^a]$", "^.$"] if comp else [
        "^[\\uffff-\\U00010010]$", "^[\\U00010000-\\U0010FFFF]$", "^[a\\U0001F600-\\U0001F64F]*$",
        "^[\\U0001F600]{2}$"]
    c = int(model.get("c", "128512"))
    samples = ["", "a", "￿", "\U00010000", "\U00010010", "\U00010011", "\U0001F600", "\U0001F600\U0001F600",
               "\U0010FFFF", "a\U0001F600"]
    if 0 <= c <= 0x10FFFF and not (0xD800 <= c <= 0xDFFF):
        samples.append(chr(c))
    for p in cands:
        bad = _check(p, samples)
        if bad is not None:
            return {"confirmed": True, "input": bad, "observed": bad["observed"]}
    return {"confirmed": False}


def replay_literal(obligation: str = "", model: Optional[Dict[str, str]] = None, **_: Any) -> Dict[str, Any]:
    model = model or {}
    cands = []
    if "s0" in model:
        cands += [f"^{_esc(int(model['s0']))}$", f"^{_esc(int(model['s0']))}+$", f"^a{_esc(int(model['s0']))}?b$"]
    # every form of quantifier on an astral literal: the rewriting has to keep minimum, maximum and greediness
    cands += ["^\\U0001F600$", "^\\U0001F600{2,3}$", "^x\\U00010000*$", "^\\U0001F600?$", "^\\U0001F600{2}$",
              "^\\U0001F600{1,2}$", "^\\U0001F600{0,3}$", "^\\U0001F600{,2}$", "^\\U0001F600+$", "^\\U0001F600{2,}$",
              "^a\\U0001F600??b$"]
    samples = ["", "a", "ab", "\U0001F600", "\U0001F600\U0001F600", "\U0001F600\U0001F600\U0001F600",
               "\U0001F600\U0001F600\U0001F600\U0001F600", "x", "x\U00010000\U00010000", "\U00010000",
               "a\U0001F600b", "a\U0001F600\U0001F600b"]
    if "s0" in model and not (0xD800 <= int(model["s0"]) <= 0xDFFF):
        ch = chr(int(model["s0"]))
        samples += [ch, ch + ch, "a" + ch + "b"]
    for p in cands:
        bad = _check(p, samples)
        if bad is not None:
            return {"confirmed": True, "input": bad, "observed": bad["observed"]}
    return {"confirmed": False}
