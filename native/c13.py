"""C13 (bounded): the pattern translation of the XSD generator keeps the language.

``xsd.main._translate_pattern`` rewrites a meta-model pattern for XML Schema: ``\\xHH`` escapes are replaced by the
characters, anchors are dropped, the tree is rendered again.  For a family of anchored patterns (every printable
ASCII character and a few others, written as ``\\xHH``, in every syntactic position: alone, between letters,
quantified, alone in a set, in the middle of a set, complemented, as either end of a range, after an escaped
backslash) the translated pattern must accept exactly the strings that the original accepts, over all strings of
length <= 2 from a small alphabet of XML characters without line breaks.

Judges, independent of the repository: Python's ``re`` for the original pattern, ``xmlschema`` (an XSD validator)
for the translated one inside a one-element schema.  Patterns that the repository's own parser of regular
expressions rejects are skipped (not accepted meta-models).
"""
import io
import itertools
import re
from typing import Any, Dict, List, Optional

import xmlschema

from aas_core_codegen.parse import retree as parse_retree
from aas_core_codegen.xsd import main as xsd_main

XSD = '''<?xml version="1.0" encoding="UTF-8"?>
<xs:schema xmlns:xs="http://www.w3.org/2001/XMLSchema">
  <xs:element name="e">
    <xs:simpleType>
      <xs:restriction base="xs:string">
        <xs:pattern value="{}"/>
      </xs:restriction>
    </xs:simpleType>
  </xs:element>
</xs:schema>
'''


def _xml_escape(text: str, attribute: bool) -> str:
    out = text.replace("&", "&amp;").replace("<", "&lt;").replace(">", "&gt;")
    if attribute:
        out = out.replace('"', "&quot;").replace("\t", "&#9;")
    return out


def _forms(code: int) -> List[str]:
    h = f"\\x{code:02x}" if code <= 0xFF else (f"\\u{code:04x}" if code <= 0xFFFF else f"\\U{code:08x}")
    forms = [f"^{h}$", f"^a{h}b$", f"^{h}{{2}}$", f"^[{h}]$", f"^[a{h}z]$", f"^[^{h}]$", f"^\\\\{h}$", f"^({h}|b)$"]
    if code < 0x7E:
        forms.append(f"^[{h}-\\x7e]$")
    if code > 0x20:
        forms.append(f"^[ -{h}]$")
    return forms


def _accepted(pattern: str) -> bool:
    try:
        _, error = parse_retree.parse(values=[pattern])
    except BaseException:  # noqa
        return False
    return error is None


def _judge(pattern: str, reference: Any, translated: str, words: List[str], failures: List[Dict[str, Any]],
           quirks: List[Dict[str, Any]]) -> int:
    """Compare the languages of the original and the translated pattern on ``words``; returns the number of cases."""
    cases = 0
    try:
        schema = xmlschema.XMLSchema(io.StringIO(XSD.format(_xml_escape(translated, True))))
    except BaseException as e:  # noqa
        failures.append({"pattern": pattern, "translated": translated, "kind": "invalid-schema",
                         "observed": f"the XSD validator rejects the schema: {type(e).__name__}: {str(e)[:160]}"})
        return cases
    try:
        second = re.compile(translated)
    except re.error:
        second = None
    for w in words:
        cases += 1
        want = reference.fullmatch(w) is not None
        got = schema.is_valid(f"<e>{_xml_escape(w, False)}</e>")
        if want != got:
            # the translated text is also a Python regular expression here (no XSD-only syntax is produced): if
            # Python reads it like the original, the two judges disagree about the *same* text -- seen for ranges
            # that start at an escape, ``[\\\\-~]`` and ``[\\t-~]``, which xmlschema 4.3.2 does not read as the range
            # the XSD grammar (seRange) says it is.  Recorded, not reported.
            if second is not None and (second.fullmatch(w) is not None) == want:
                quirks.append({"pattern": pattern, "translated": translated, "text": w})
                break
            failures.append({"pattern": pattern, "translated": translated, "text": w, "kind": "language",
                             "observed": f"the meta-model pattern {'accepts' if want else 'rejects'} {w!r}, the "
                                         f"XSD pattern {'accepts' if got else 'rejects'} it"})
            break
    return cases


def bounded(seed: int = 0, max_len: int = 2, **_: Any) -> Dict[str, Any]:
    failures: List[Dict[str, Any]] = []
    quirks: List[Dict[str, Any]] = []
    cases = 0
    distinct = 0
    # beyond U+00FF the escapes are \\uXXXX and \\UXXXXXXXX: XML Schema knows none of them
    codes = list(range(0x20, 0x7F)) + [0x09, 0x80, 0xE9, 0xFF, 0x100, 0x20AC, 0xD7FF, 0x1F600]
    for code in codes:
        ch = chr(code)
        alphabet = sorted({ch, "a", "b", "z", "\\", "x", f"{code:02x}"[0], f"{code:02x}"[1], "-", "]", "^", " ", "~"})
        words = ["".join(c) for n in range(0, max_len + 1) for c in itertools.product(alphabet, repeat=n)]
        for pattern in _forms(code):
            if not _accepted(pattern):
                continue
            try:
                reference = re.compile(pattern)
            except re.error:
                continue
            distinct += 1
            try:
                translated, error = xsd_main._translate_pattern(pattern)
            except BaseException as e:  # noqa
                failures.append({"pattern": pattern, "kind": "raised",
                                 "observed": f"_translate_pattern raised {type(e).__name__}: {str(e)[:120]}"})
                continue
            if error is not None or translated is None:
                failures.append({"pattern": pattern, "kind": "not-translated",
                                 "observed": f"an accepted pattern cannot be translated: {str(error)[:160]}"})
                continue
            cases += _judge(pattern, reference, translated, words, failures, quirks)
    by_kind: Dict[str, Dict[str, Any]] = {}
    for f in failures:
        by_kind.setdefault(f["kind"] + "|" + f["pattern"][:3], f)
    return {"cases": cases, "distinct": distinct, "failures": list(by_kind.values())[:8], "n_failing": len(failures),
            "exhaustive": True, "samples": [{"pattern": "^[a\\x2dz]$", "judges": ["re", "xmlschema"],
                                            "validator_disagreements_not_reported": quirks[:4]}]}


def replay(obligation: str = "", model: Optional[Dict[str, str]] = None, **_: Any) -> Dict[str, Any]:
    r = bounded()
    if r["failures"]:
        return {"confirmed": True, "input": r["failures"][0], "observed": r["failures"][0]["observed"]}
    return {"confirmed": False}


MODEL = '''\
@verification
def matches_first(text: str) -> bool:
    """Check first."""
    pattern = "PATTERN"
    return match(pattern, text) is not None


@verification
def matches_anything(text: str) -> bool:
    """Check second."""
    pattern = "^.*$"
    return match(pattern, text) is not None


@invariant(lambda self: matches_anything(self.some_property), "Second")
@invariant(lambda self: matches_first(self.some_property), "First")
class Something(DBC):
    """Represent something."""

    some_property: str
    """Some property"""

    def __init__(self, some_property: str) -> None:
        self.some_property = some_property


__version__ = "dummy"
__xml_namespace__ = "https://dummy.com"
'''


def _merged_one(pattern: str) -> Dict[str, Any]:
    """The pattern in the generated schema.xsd for a property with ``pattern`` and ``^.*$`` (merged by greenery)."""
    import pathlib
    import tempfile
    from xml.sax.saxutils import unescape
    from native import c02
    from aas_core_codegen import main as cg_main
    with tempfile.TemporaryDirectory() as d:
        root = pathlib.Path(d)
        (root / "s").mkdir()
        (root / "o").mkdir()
        for n, c in c02.SNIPPETS.items():
            (root / "s" / n).write_text(c, encoding="utf-8")
        (root / "m.py").write_text(MODEL.replace("PATTERN", pattern.replace("\\", "\\\\")), encoding="utf-8")
        out, err = io.StringIO(), io.StringIO()
        try:
            rc = cg_main.execute(cg_main.Parameters(model_path=root / "m.py", target=cg_main.Target.XSD,
                                                    snippets_dir=root / "s", output_dir=root / "o",
                                                    cache_model=False), stdout=out, stderr=err)
        except BaseException as e:  # noqa
            return {"pattern": pattern, "raised": f"{type(e).__name__}: {str(e)[:120]}"}
        if rc != 0:
            return {"pattern": pattern, "error": err.getvalue()[:400]}
        found = re.findall(r'pattern value="([^"]*)"', (root / "o" / "schema.xsd").read_text(encoding="utf-8"))
        if len(found) != 1:
            return {"pattern": pattern, "error": f"{len(found)} patterns in schema.xsd"}
        return {"pattern": pattern, "translated": unescape(found[0], {"&quot;": '"', "&#9;": "\t"})}


def merged(seed: int = 0, jobs: int = 16, **_: Any) -> Dict[str, Any]:
    """The same for a property with two patterns (``p`` and ``^.*$``): the XSD generator merges them with greenery;
    the generated schema.xsd must still accept exactly what ``p`` accepts (texts without line breaks)."""
    import multiprocessing as mp
    failures: List[Dict[str, Any]] = []
    quirks: List[Dict[str, Any]] = []
    codes = [ord(c) for c in "\\^$.|?*+()[]{}-#&\"<' aZ~"] + [0x09, 0xE9]
    tasks = []
    for code in codes:
        for pattern in _forms(code):
            if _accepted(pattern):
                try:
                    re.compile(pattern)
                except re.error:
                    continue
                tasks.append((code, pattern))
    with mp.get_context("fork").Pool(jobs) as pool:
        res = pool.map(_merged_one, [p for _, p in tasks], chunksize=4)
    cases = 0
    for (code, pattern), r in zip(tasks, res):
        ch = chr(code)
        alphabet = sorted({ch, "a", "b", "z", "\\", "x", f"{code:02x}"[0], f"{code:02x}"[1], "-", "]", "^", " ", "~"})
        words = ["".join(c) for n in range(0, 3) for c in itertools.product(alphabet, repeat=n)]
        if "raised" in r:
            failures.append({"pattern": pattern, "kind": "raised", "observed": f"the XSD generator raised {r['raised']}"})
        elif "error" in r:
            failures.append({"pattern": pattern, "kind": "not-translated",
                             "observed": f"the XSD generator fails on an accepted meta-model: {r['error']}"})
        else:
            cases += _judge(pattern, re.compile(pattern), r["translated"], words, failures, quirks)
    by_kind: Dict[str, Dict[str, Any]] = {}
    for f in failures:
        by_kind.setdefault(f["kind"] + "|" + f["pattern"][:3], f)
    return {"cases": cases, "distinct": len(tasks), "failures": list(by_kind.values())[:8], "n_failing": len(failures),
            "exhaustive": True, "samples": [{"pattern": "^a\\x2a$ merged with ^.*$", "judges": ["re", "xmlschema"],
                                            "validator_disagreements_not_reported": quirks[:4]}]}
