"""C29 (examples-bounded): traversal of the generated Python ``types.py`` alone, for property shapes that the complete
Python target cannot generate (nested lists: the jsonization generator asserts on them), built with the generator's
own steps ``verify_for_types`` + ``generate_types``.

descend_once: exactly the directly nested instances in property and list order; descend: all nested ones in
pre-order; PassThroughVisitor visits what descend_once yields.
"""
import importlib
import pathlib
import sys
import tempfile
from typing import Any, Dict, List

from aas_core_codegen import run, specific_implementations
from aas_core_codegen.python import common as python_common, lib as python_lib

MODEL = '''\
class Color(Enum):
    Red = "RED"
    Green = "GREEN"


@abstract
@serialization(with_model_type=True)
class Abstract_item:
    pass


class Leaf(Abstract_item):
    name: str

    def __init__(self, name: str) -> None:
        self.name = name


class Branch(Abstract_item):
    children: Optional[List[Abstract_item]]

    def __init__(self, children: Optional[List[Abstract_item]] = None) -> None:
        self.children = children


@implementation_specific
class Special(Abstract_item):
    leaf: Leaf
    more_leaves: List[Leaf]

    def __init__(self, leaf: Leaf, more_leaves: List[Leaf]) -> None:
        self.leaf = leaf
        self.more_leaves = more_leaves


class Holder(Abstract_item):
    first: Leaf
    special: Special
    opt_special: Optional[Special]
    specials: List[Special]
    opt_items: Optional[List[Abstract_item]]
    last: Leaf

    def __init__(
        self,
        first: Leaf,
        special: Special,
        specials: List[Special],
        last: Leaf,
        opt_special: Optional[Special] = None,
        opt_items: Optional[List[Abstract_item]] = None,
    ) -> None:
        self.first = first
        self.special = special
        self.opt_special = opt_special
        self.specials = specials
        self.opt_items = opt_items
        self.last = last


class Something:
    head: Leaf
    items: List[Abstract_item]
    grid: List[List[Abstract_item]]
    cube: Optional[List[List[List[Leaf]]]]
    tail: Optional[Branch]
    tags: Optional[List[str]]
    counts: Optional[List[int]]
    flags: Optional[List[bool]]
    ratios: Optional[List[float]]
    blobs: Optional[List[bytearray]]
    leaves: Optional[List[Leaf]]
    colors: Optional[List[Color]]

    def __init__(
        self,
        head: Leaf,
        items: List[Abstract_item],
        grid: List[List[Abstract_item]],
        cube: Optional[List[List[List[Leaf]]]] = None,
        tail: Optional[Branch] = None,
        tags: Optional[List[str]] = None,
        counts: Optional[List[int]] = None,
        flags: Optional[List[bool]] = None,
        ratios: Optional[List[float]] = None,
        blobs: Optional[List[bytearray]] = None,
        leaves: Optional[List[Leaf]] = None,
        colors: Optional[List[Color]] = None,
    ) -> None:
        self.head = head
        self.items = items
        self.grid = grid
        self.cube = cube
        self.tail = tail
        self.tags = tags
        self.counts = counts
        self.flags = flags
        self.ratios = ratios
        self.blobs = blobs
        self.leaves = leaves
        self.colors = colors


__version__ = "dummy"
__xml_namespace__ = "https://dummy.com"
'''


# the hand-written class for the implementation-specific ``Special``, structured like the generated classes
TYPES_SPECIAL = '''\
class Special(AbstractItem):
    """Represent something special."""

    leaf: "Leaf"

    more_leaves: List["Leaf"]

    def descend_once(self) -> Iterator[Class]:
        yield self.leaf

        yield from self.more_leaves

    def descend(self) -> Iterator[Class]:
        yield self.leaf

        yield from self.leaf.descend()

        for an_item in self.more_leaves:
            yield an_item

            yield from an_item.descend()

    def accept(self, visitor: "AbstractVisitor") -> None:
        visitor.visit_special(self)

    def accept_with_context(
            self,
            visitor: "AbstractVisitorWithContext[ContextT]",
            context: ContextT
    ) -> None:
        visitor.visit_special_with_context(self, context)

    def transform(
            self,
            transformer: "AbstractTransformer[T]"
    ) -> T:
        return transformer.transform_special(self)

    def transform_with_context(
            self,
            transformer: "AbstractTransformerWithContext[ContextT, T]",
            context: ContextT
    ) -> T:
        return transformer.transform_special_with_context(self, context)

    def __init__(self, leaf: "Leaf", more_leaves: List["Leaf"]) -> None:
        self.leaf = leaf
        self.more_leaves = more_leaves
'''


def bounded(seed: int = 0, **_: Any) -> Dict[str, Any]:
    failures: List[Dict[str, Any]] = []
    cases = 0
    with tempfile.TemporaryDirectory() as d:
        root = pathlib.Path(d)
        (root / "snippets").mkdir()
        (root / "snippets" / "Types").mkdir()
        (root / "snippets" / "Types" / "Special.py").write_text(TYPES_SPECIAL, encoding="utf-8")
        model_path = root / "meta_model.py"
        model_path.write_text(MODEL, encoding="utf-8")
        spec_impls, errs = specific_implementations.read_from_directory(snippets_dir=root / "snippets")
        loaded, why = run.load_model(model_path=model_path, cache_model=False)
        if why is not None or loaded is None or spec_impls is None:
            return {"cases": 1, "distinct": 0, "exhaustive": False, "failures": [{"observed": f"model not accepted: {why}"}]}
        table, errors = python_lib.verify_for_types(symbol_table=loaded[0])
        if errors is not None or table is None:
            return {"cases": 1, "distinct": 0, "exhaustive": False, "failures": [{"observed": f"verify_for_types: {errors}"}]}
        module = f"c29sdk{abs(hash(d)) % 10 ** 8}"
        code, errors = python_lib.generate_types(symbol_table=table, spec_impls=spec_impls,
                                                 qualified_module_name=python_common.QualifiedModuleName(module))
        if errors is not None or code is None:
            return {"cases": 1, "distinct": 0, "exhaustive": False, "failures": [{"observed": f"generate_types: {errors}"}]}
        pkg = root / "out" / module
        pkg.mkdir(parents=True)
        (pkg / "types.py").write_text(code, encoding="utf-8")
        (pkg / "__init__.py").write_text("", encoding="utf-8")
        sys.path.insert(0, str(root / "out"))
        try:
            T = importlib.import_module(f"{module}.types")
            leaf = {n: T.Leaf(n) for n in "abcdefghijk"}
            inner = T.Branch(children=[leaf["g"], T.Branch(children=[leaf["h"]]), T.Branch(children=None)])
            sth = T.Something(head=leaf["a"], items=[leaf["b"], inner], grid=[[leaf["c"], leaf["d"]], [], [leaf["e"]]],
                              cube=[[[leaf["i"]], []], [[leaf["j"], leaf["k"]]]], tail=T.Branch(children=[leaf["f"]]))
            want_once = [leaf["a"], leaf["b"], inner, leaf["c"], leaf["d"], leaf["e"], leaf["i"], leaf["j"], leaf["k"],
                         sth.tail]
            cases += 1
            got_once = list(sth.descend_once())
            if len(got_once) != len(want_once) or any(x is not y for x, y in zip(got_once, want_once)):
                failures.append({"property": "C29", "case": "descend_once over nested lists",
                                 "observed": f"yielded {[type(x).__name__ for x in got_once]} "
                                             f"({len(got_once)} items), expected the {len(want_once)} directly nested "
                                             f"instances in property and list order"})
            want_all = [leaf["a"], leaf["b"], inner, leaf["g"], inner.children[1], leaf["h"], inner.children[2],
                        leaf["c"], leaf["d"], leaf["e"], leaf["i"], leaf["j"], leaf["k"], sth.tail, leaf["f"]]
            cases += 1
            got_all = list(sth.descend())
            if len(got_all) != len(want_all) or any(x is not y for x, y in zip(got_all, want_all)):
                failures.append({"property": "C29", "case": "descend (pre-order) over nested lists",
                                 "observed": f"yielded {[getattr(x, 'name', type(x).__name__) for x in got_all]}"})
            visited: List[Any] = []

            class Vis(T.PassThroughVisitor):  # type: ignore
                def visit_leaf(self, that: Any) -> None:
                    visited.append(that.name)
            cases += 1
            try:
                Vis().visit(sth)
                if visited != list("abghcdeijkf"):
                    failures.append({"property": "C29", "case": "pass-through visitor", "observed": f"visited {visited}"})
            except BaseException as e:  # noqa
                failures.append({"property": "C29", "case": "pass-through visitor",
                                 "observed": f"raised {type(e).__name__}: {e}"})
            # descend() is the pre-order over descend_once(), also through an implementation-specific class
            def preorder(x: Any) -> Any:
                for y in x.descend_once():
                    yield y
                    yield from preorder(y)

            def special(tag: str) -> Any:
                return T.Special(leaf=T.Leaf(tag + "0"), more_leaves=[T.Leaf(tag + "1"), T.Leaf(tag + "2")])
            holder = T.Holder(first=leaf["a"], special=special("s"), specials=[special("t"), special("u")], last=leaf["b"],
                              opt_special=special("v"), opt_items=[special("w"), leaf["c"]])
            for label, inst in (("Something", sth), ("Holder with implementation-specific parts", holder)):
                cases += 1
                try:
                    got_d, want_d = list(inst.descend()), list(preorder(inst))
                except BaseException as e:  # noqa
                    failures.append({"property": "C29", "case": f"descend vs descend_once recursively: {label}",
                                     "observed": f"the traversal raised {type(e).__name__}: {e} (descend_once yields "
                                                 f"something that is not an instance)"})
                    continue
                if len(got_d) != len(want_d) or any(x is not y for x, y in zip(got_d, want_d)):
                    failures.append({"property": "C29", "case": f"descend vs descend_once recursively: {label}",
                                     "observed": f"descend yields {len(got_d)} instances, the pre-order over descend_once "
                                                 f"{len(want_d)}: {[getattr(x, 'name', type(x).__name__) for x in got_d]}"})
            # accessors: every Optional[List[...]] property has over_<property>_or_empty -- the items if set, nothing
            # if not; whatever the items are (primitives, classes, enumeration literals, nested lists)
            optional_lists = {"cube": [[[leaf["i"]], []]], "tags": ["x", ""], "counts": [0, 7], "flags": [True, False],
                              "ratios": [0.5], "blobs": [b"\x00\x01"], "leaves": [leaf["a"]], "colors": [T.Color.RED]}
            bare = T.Something(head=leaf["a"], items=[], grid=[])
            for prop, value in optional_lists.items():
                cases += 1
                full = T.Something(head=leaf["a"], items=[], grid=[], **{prop: value})
                name = f"over_{prop}_or_empty"
                if not hasattr(full, name):
                    failures.append({"property": "C29", "case": name,
                                     "observed": f"the generated class has no accessor {name} for the optional list {prop!r}"})
                    continue
                try:
                    got_set, got_unset = list(getattr(full, name)()), list(getattr(bare, name)())
                except BaseException as e:  # noqa
                    failures.append({"property": "C29", "case": name, "observed": f"raised {type(e).__name__}: {e}"})
                    continue
                if got_unset != [] or len(got_set) != len(value) or any(x is not y and x != y for x, y in zip(got_set, value)):
                    failures.append({"property": "C29", "case": name,
                                     "observed": f"set: {got_set!r} (expected {value!r}), not set: {got_unset!r} (expected [])"})
        finally:
            sys.path.remove(str(root / "out"))
            for m in [m for m in sys.modules if m == module or m.startswith(module + ".")]:
                del sys.modules[m]
    return {"cases": cases, "distinct": cases, "failures": failures, "exhaustive": False,
            "samples": [{"shapes": ["C", "List[C]", "List[List[C]]", "Optional[List[List[List[C]]]]", "Optional[C]",
                                    "Optional[List[str|int|bool|float|bytearray|C|enumeration]]"]}]}
