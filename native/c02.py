"""C02: bounded stand-in for the generators as a whole -- accepted meta-models never make a generator raise.

The generators are tens of thousands of lines of text emission; only a few of their functions are under contract
(DESIGN.md §5 C02).  This sweep runs the real ``main.execute`` of all eight targets on (a) the accepted single-edit
mutants of the base meta-model of native/c06.py, (b) the small hierarchies of native/c05.py, (c) the recorded
meta-models under dev/test_data/common_meta_models (small ones).  A generator may report errors (exit 1 with a
report) but must not raise.  Labelled bounded.
"""
import io
import os
import pathlib
import tempfile
from typing import Any, Dict, List, Optional, Tuple

from aas_core_codegen import main as cg_main, run
from native import c01, c05, c06

SNIPPETS = {
    "namespace.txt": "dummy",
    "repo_url.txt": "github.com/dummy-works/dummy",
    "package.txt": "dummy",
    "qualified_module_name.txt": "dummy",
    "package_documentation.txt": "Provide dummy SDK.",
    "package_identifier.txt": "@dummy-works/dummy",
    "schema_base.json": '{"$schema": "https://json-schema.org/draft/2019-09/schema", "title": "Dummy", "type": "object"}',
    "root_element.xml": '<xs:schema xmlns:xs="http://www.w3.org/2001/XMLSchema" xmlns="https://dummy.com" '
                        'elementFormDefault="qualified" targetNamespace="https://dummy.com">\n</xs:schema>',
}
TARGETS = [t for t in cg_main.Target]

# the C++ and Java generators do not support lists of primitives (recorded finding): a second base with a list of
# classes lets the sweep reach the rest of those two generators
BASE2 = c06.BASE.replace("List[str]", "List[Tag]").replace(
    "@invariant(lambda self: not (self.tags is not None)",
    '''class Tag(DBC):
    """Represent a tag."""

    text: str
    """Text of the tag"""

    def __init__(self, text: str) -> None:
        self.text = text


@invariant(lambda self: not (self.tags is not None)''')


def _cli_contract(rc: int, out_text: str, err_text: str, out_dir: pathlib.Path, accepted: Optional[bool]) -> Optional[str]:
    """C03: exit 0 <=> 'Code generated to: <dir>' on stdout and nothing on stderr; otherwise exit 1, nothing announced
    on stdout, and stderr = a headline ending in ':' followed by '* ' entries."""
    if rc == 0:
        if accepted is False:
            return "exit code 0 for a meta-model that the front end rejects"
        if err_text != "":
            return f"exit code 0 although stderr is not empty: {err_text[:120]!r}"
        if out_text != f"Code generated to: {out_dir}\n":
            return f"exit code 0 but stdout is {out_text[:120]!r}"
        return None
    if rc != 1:
        return f"exit code {rc}"
    if "Code generated to" in out_text:
        return "exit code 1 although the generation is announced on stdout"
    lines = err_text.split("\n")
    if not lines[0].endswith(":") or len(lines) < 2 or not lines[1].startswith("* "):
        return f"exit code 1 but stderr is not a headline ending in ':' followed by '* ' entries: {err_text[:160]!r}"
    for ln in lines[1:]:
        if ln and not (ln.startswith("* ") or ln.startswith("  ")):
            return f"a line of the report is neither an entry nor indented: {ln[:100]!r}"
    return None


def _generate(args: Any) -> Optional[Dict[str, Any]]:
    what, text, targets = args
    with tempfile.TemporaryDirectory() as d:
        root = pathlib.Path(d)
        (root / "snippets").mkdir()
        for name, content in SNIPPETS.items():
            (root / "snippets" / name).write_text(content, encoding="utf-8")
        model_path = root / "meta_model.py"
        model_path.write_text(text, encoding="utf-8")
        try:
            res, err = run.load_model(model_path)
        except BaseException as e:  # noqa
            return {"what": what, "target": "<front end>", "observed": f"load_model raised {type(e).__name__}", "skip": True}
        failures: List[Dict[str, Any]] = []
        if err is not None:
            # not accepted: outside C02; the command-line contract of C03 still applies (one target is enough: the
            # front end is shared)
            out = root / "out_rejected"
            out.mkdir()
            stdout, stderr = io.StringIO(), io.StringIO()
            try:
                rc = cg_main.execute(cg_main.Parameters(model_path=model_path, target=cg_main.Target.PYTHON,
                                                        snippets_dir=root / "snippets", output_dir=out,
                                                        cache_model=False), stdout=stdout, stderr=stderr)
            except BaseException as e:  # noqa
                return {"what": what, "failures": [{"property": "C03", "what": what, "target": "python", "site": "front-end",
                                                    "observed": f"main.execute raised {type(e).__name__} on a rejected "
                                                                f"meta-model", "meta_model": text}]}
            bad = _cli_contract(rc, stdout.getvalue(), stderr.getvalue(), out, accepted=False)
            if bad is not None:
                return {"what": what, "failures": [{"property": "C03", "what": what, "target": "python", "site": "cli",
                                                    "observed": bad, "meta_model": text}]}
            return None
        for target in targets:
            out = root / f"out_{target.value}"
            out.mkdir()
            stdout, stderr = io.StringIO(), io.StringIO()
            try:
                rc = cg_main.execute(cg_main.Parameters(model_path=model_path, target=target,
                                                        snippets_dir=root / "snippets", output_dir=out,
                                                        cache_model=False), stdout=stdout, stderr=stderr)
            except BaseException as e:  # noqa
                import traceback
                tb = [x for x in traceback.extract_tb(e.__traceback__) if "aas_core_codegen" in x.filename]
                site = f"{pathlib.Path(tb[-1].filename).name}:{tb[-1].name}" if tb else "?"
                failures.append({"property": "C02", "what": what, "target": target.value, "site": site,
                                 "observed": f"the {target.value} generator raised {type(e).__name__}: {str(e)[:200]}",
                                 "meta_model": text})
                continue
            bad = _cli_contract(rc, stdout.getvalue(), stderr.getvalue(), out, accepted=None)
            if bad is not None:
                failures.append({"property": "C03", "what": what, "target": target.value, "site": "cli",
                                 "observed": bad, "meta_model": text})
        if failures:
            return {"what": what, "failures": failures}
    return {"what": what, "accepted": True}


DIAMOND = '''\
@abstract
@invariant(lambda self: len(self.name) >= 1, "Name non-empty")
class Root(DBC):
    """Represent a root."""

    name: str
    """Name"""

    def __init__(self, name: str) -> None:
        self.name = name


@abstract
class Left(Root):
    """Represent left."""

    def __init__(self, name: str) -> None:
        Root.__init__(self, name)


@abstract
class Right(Root):
    """Represent right."""

    def __init__(self, name: str) -> None:
        Root.__init__(self, name)


class Bottom(Left, Right):
    """Represent bottom."""

    def __init__(self, name: str) -> None:
        Left.__init__(self, name)


__version__ = "dummy"
__xml_namespace__ = "https://dummy.com"
'''

ARG_TYPES = ["int", "str", "List[Item]", "float", "bool"]


def signature_models() -> List[Tuple[str, str]]:
    """Meta-models that differ in the *number* of arguments of methods, verification functions and constructors
    (0..4): generators format signatures by argument count."""
    out: List[Tuple[str, str]] = []
    for nargs in range(0, 5):
        args = ", ".join(f"arg_{i}: {ARG_TYPES[i]}" for i in range(nargs))
        for descendant in (False, True):
            for kind in ("method", "verification", "constructor"):
                lines = ['class Item:', '    """Represent an item."""', '', '    text: str', '    """Text"""', '',
                         '    def __init__(self, text: str) -> None:', '        self.text = text', '', '']
                if kind == "verification":
                    lines += ['@verification', '@implementation_specific',
                              f'def is_fine({args}) -> bool:', '    """Check something."""', '    pass', '', '']
                lines += ['class Something:', '    """Represent something."""', '']
                if kind == "constructor":
                    for i in range(nargs):
                        lines += [f'    prop_{i}: {ARG_TYPES[i]}', f'    """Property {i}"""', '']
                    params = "".join(f", prop_{i}: {ARG_TYPES[i]}" for i in range(nargs))
                    lines += [f'    def __init__(self{params}) -> None:']
                    lines += [f'        self.prop_{i} = prop_{i}' for i in range(nargs)] or ['        pass']
                    lines += ['']
                if kind == "method":
                    lines += ['    @implementation_specific',
                              f'    def do_something(self{", " + args if args else ""}) -> int:',
                              '        """Do something."""', '        pass', '']
                if kind == "verification" and nargs == 0:
                    pass
                if kind != "constructor" and kind != "method":
                    lines += ['    pass', '']
                lines += ['']
                if descendant:
                    lines += ['class Other(Something):', '    """Represent something else."""', '']
                    if kind == "constructor" and nargs:
                        params = "".join(f", prop_{i}: {ARG_TYPES[i]}" for i in range(nargs))
                        call = ", ".join(f"prop_{i}=prop_{i}" for i in range(nargs))
                        lines += [f'    def __init__(self{params}) -> None:',
                                  f'        Something.__init__(self, {call})', '']
                    else:
                        lines += ['    pass', '']
                    lines += ['']
                lines += ['__version__ = "dummy"', '__xml_namespace__ = "https://dummy.com"', '']
                out.append((f"{kind} with {nargs} argument(s){', with a descendant' if descendant else ''}",
                            "\n".join(lines)))
    return out


def sweep(seed: int = 0, stride: int = 4, max_classes: int = 3, jobs: int = 16, **_: Any) -> Dict[str, Any]:
    import multiprocessing as mp
    repo = pathlib.Path(os.environ.get("VERIF_REPO", "/repo"))
    if not (repo / "dev").exists():
        repo = pathlib.Path("/repo")
    tasks: List[Tuple[str, str, Any]] = [("base model", c06.BASE, TARGETS), ("base model 2", BASE2, TARGETS)]
    for k, (what, line, text) in enumerate(c01._mutants(c06.BASE)):
        if k % stride == 0:
            tasks.append((f"{what} at line {line} of the base model", text, TARGETS))
    for k, (what, line, text) in enumerate(c01._mutants(BASE2)):
        if k % stride == 0:
            tasks.append((f"{what} at line {line} of the base model 2", text, TARGETS))
    for n in range(1, max_classes + 1):
        for shape in c05.shapes(n):
            names = ["A", "B", "C", "D"][:n]
            abstract = [any(k in ps for ps in shape) for k in range(n)]
            text = c05.render(shape, names, abstract, [True if not shape[k] else None for k in range(n)], False)
            tasks.append((f"hierarchy {shape}", text, TARGETS))
    for what, text in signature_models():
        tasks.append((what, text, TARGETS))
    tasks.append(("diamond with a length constraint on the shared property", DIAMOND, TARGETS))
    # texts that are hostile for literals / comments and constants of every primitive type (native/c20java.py)
    from native import c20java
    for ascii_only in (False, True):
        for what, text in c20java._models(ascii_only)[:3]:
            tasks.append((what + (" (ASCII only)" if ascii_only else ""), text, TARGETS))
    for p in sorted((repo / "dev" / "test_data" / "common_meta_models").glob("*.py")):
        if p.stat().st_size < 6000:
            tasks.append((str(p.relative_to(repo)), p.read_text(encoding="utf-8"), TARGETS))
    with mp.get_context("fork").Pool(jobs) as pool:
        res = pool.map(_generate, tasks, chunksize=4)
    accepted = sum(1 for r in res if r is not None and not r.get("skip"))
    by_site: Dict[str, Dict[str, Any]] = {}
    n_failing = 0
    for r in res:
        for f in (r or {}).get("failures", []):
            n_failing += 1
            by_site.setdefault(f["target"] + "|" + f["site"], f)
    failures = list(by_site.values())
    if accepted == 0:
        failures.append({"observed": "no meta-model of the sweep was accepted"})
    return {"cases": len(tasks) * len(TARGETS), "distinct": accepted, "failures": failures[:12], "exhaustive": True,
            "n_failing": n_failing,
            "samples": [{"meta_models": len(tasks), "accepted": accepted, "targets": [t.value for t in TARGETS]}]}
