// Parse Java source files with the JDK's own parser (no symbol resolution): one line per syntax error.
import com.sun.source.util.JavacTask;
import java.util.ArrayList;
import java.util.List;
import javax.tools.Diagnostic;
import javax.tools.DiagnosticCollector;
import javax.tools.JavaCompiler;
import javax.tools.JavaFileObject;
import javax.tools.StandardJavaFileManager;
import javax.tools.ToolProvider;

public class ParseOnly {
  public static void main(String[] args) throws Exception {
    JavaCompiler compiler = ToolProvider.getSystemJavaCompiler();
    DiagnosticCollector<JavaFileObject> diagnostics = new DiagnosticCollector<>();
    StandardJavaFileManager fileManager = compiler.getStandardFileManager(diagnostics, null, null);
    List<String> options = new ArrayList<>();
    options.add("-proc:none");
    JavacTask task = (JavacTask) compiler.getTask(
        null, fileManager, diagnostics, options, null, fileManager.getJavaFileObjects(args));
    task.parse();
    for (Diagnostic<? extends JavaFileObject> d : diagnostics.getDiagnostics()) {
      if (d.getKind() == Diagnostic.Kind.ERROR) {
        String name = d.getSource() == null ? "?" : d.getSource().getName();
        System.out.println(name + ":" + d.getLineNumber() + ": " + d.getMessage(null).replace('\n', ' '));
      }
    }
    System.out.println("PARSED " + args.length);
  }
}
