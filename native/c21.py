"""Native replay for C21: run the real per-target collision check on small hand-made our-types.

The intermediate objects are stand-ins with just the attributes the checks read (name, parsed.node,
literals / properties / methods); the isinstance dispatch is satisfied by creating real (uninitialised)
instances of the intermediate classes with ``__new__``."""
import importlib
from typing import Any, Dict, List, Optional

from aas_core_codegen import intermediate
from aas_core_codegen.common import Identifier

TARGETS = ["cpp", "csharp", "golang", "java", "python", "typescript"]


class _Parsed:
    node = None


def _obj(cls: Any, **attrs: Any) -> Any:
    o = object.__new__(cls)
    for k, v in attrs.items():
        object.__setattr__(o, k, v)
    return o


def _named(cls: Any, name: str) -> Any:
    return _obj(cls, name=Identifier(name), parsed=_Parsed())


def _enum(names: List[str]) -> Any:
    return _obj(intermediate.Enumeration, name=Identifier("Some_enum"), parsed=_Parsed(),
                literals=[_named(intermediate.EnumerationLiteral, n) for n in names])


def _cls(props: List[str], methods: List[str], inherited: int = 0) -> Any:
    """A class; its first ``inherited`` properties and methods are specified for an ancestor."""
    ancestor = _obj(intermediate.AbstractClass, name=Identifier("Some_ancestor"), parsed=_Parsed())
    me = _obj(intermediate.ConcreteClass, name=Identifier("Some_class"), parsed=_Parsed())
    ps = [_named(intermediate.Property, n) for n in props]
    ms = [_named(intermediate.ImplementationSpecificMethod, n) for n in methods]
    for k, x in enumerate(ps):
        object.__setattr__(x, "specified_for", ancestor if k < inherited else me)
    for k, x in enumerate(ms):
        object.__setattr__(x, "specified_for", ancestor if k < inherited else me)
    object.__setattr__(me, "_properties", ps)
    object.__setattr__(me, "_methods", ms)
    return me


def _check(target: str) -> Optional[Dict[str, Any]]:
    mod = importlib.import_module(f"aas_core_codegen.{target}.lib._generate_types")
    naming = importlib.import_module(f"aas_core_codegen.{target}.naming")
    f = getattr(mod, "_verify_intra_structure_collisions")
    cases = [
        ("class", _cls(["foo_bar", "Foo_bar"], [])),
        ("class", _cls(["foo_bar", "other"], ["foo_bar"])),
        ("class", _cls(["a", "b"], ["c"])),
        ("class", _cls(["global_asset_id", "global_asset_ID"], [], inherited=1)),
        ("class", _cls(["value", "other"], ["do_it", "Do_it"], inherited=1)),
        ("class", _cls(["value"], ["value"], inherited=1)),
        ("enum", _enum(["Foo_bar", "Foo_Bar"])),
        ("enum", _enum(["A", "B"])),
    ]
    for kind, ot in cases:
        try:
            res = f(ot)
        except BaseException as e:  # noqa
            return {"target": target, "observed": f"raised {type(e).__name__}: {str(e)[:120]}"}
        if kind == "class":
            pn = getattr(naming, "property_name", None) or getattr(naming, "getter_name")
            names = [pn(p.name) for p in ot.properties] + [naming.method_name(m.name) for m in ot.methods]
        else:
            if not hasattr(naming, "enum_literal_name") or target == "golang":
                continue
            names = [naming.enum_literal_name(l.name) for l in ot.literals]
        collide = len(set(names)) != len(names)
        if collide != (res is not None):
            return {"target": target, "kind": kind, "generated_names": [str(n) for n in names],
                    "observed": f"names collide: {collide}; collision error returned: {res is not None}"}
    return None


def replay_intra(obligation: str = "", model: Optional[Dict[str, str]] = None, unit: str = "", **_: Any) -> Dict[str, Any]:
    target = unit.split(".")[0] if unit.split(".")[0] in TARGETS else None
    for t in ([target] if target else TARGETS):
        bad = _check(t)
        if bad is not None:
            return {"confirmed": True, "input": bad, "observed": bad["observed"]}
    return {"confirmed": False}


def known_literal_collision(**_: Any) -> Dict[str, Any]:
    known = []
    for t in ("csharp", "java"):
        bad = _check(t)
        if bad is not None and bad.get("kind") == "enum":
            known.append(f"{t}: {bad['observed']} for literals Foo_bar / Foo_Bar -> {bad['generated_names']}")
    return {"cases": 2, "distinct": 2, "failures": [], "known": known, "samples": known}
