"""Replay for the C18 contract of ``revm.check_ranges_sorted_and_non_overlapping``: the verifier's counter-model of a
quantified obligation carries only the list length, so the failing input is searched natively -- every list of at most
three ranges over the characters 'a'..'e' is put to the real function and judged by the wording of the contract."""
import itertools
from typing import Any, Dict, Optional

from aas_core_codegen.intermediate import revm


def _in_order(ranges: Any) -> bool:
    return all(ord(a.last) < ord(b.first) and ord(a.first) < ord(b.last) for a, b in zip(ranges, ranges[1:]))


def replay_check_ranges(obligation: str = "", model: Optional[Dict[str, str]] = None, desc: str = "",
                        **_: Any) -> Dict[str, Any]:
    chars = "abcde"
    singles = [revm.Range(revm.Character(chars[i]), revm.Character(chars[j]))
               for i in range(len(chars)) for j in range(i, len(chars))]
    for n in range(0, 4):
        for ranges in itertools.product(singles, repeat=n):
            try:
                got = revm.check_ranges_sorted_and_non_overlapping(list(ranges))
            except Exception as e:  # the contract also says: never raises
                return {"confirmed": True, "input": [str(r) for r in ranges], "observed": f"{type(e).__name__}: {e}"}
            if (got is None) != _in_order(ranges) or (got is not None and len(got) == 0):
                return {"confirmed": True, "input": [str(r) for r in ranges],
                        "observed": f"returned {got!r}; the ranges are {'in' if _in_order(ranges) else 'out of'} order"}
    return {"confirmed": False}
