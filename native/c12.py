"""Native replays for C12 / C11: the real ``jsonschema.main._translate_constraints`` judged by the ``jsonschema``
validator on the values an SDK would write (a byte array is written as base64 text)."""
import base64
import itertools
from typing import Any, Dict, Optional

import jsonschema

from aas_core_codegen import infer_for_schema, intermediate
from aas_core_codegen.jsonschema import main as jm


def _bytes_annotation() -> Any:
    return intermediate.PrimitiveTypeAnnotation(a_type=intermediate.PrimitiveType.BYTEARRAY, parsed=None)  # type: ignore


def _str_annotation() -> Any:
    return intermediate.PrimitiveTypeAnnotation(a_type=intermediate.PrimitiveType.STR, parsed=None)  # type: ignore


def replay_translate_constraints(obligation: str = "", model: Optional[Dict[str, str]] = None, **_: Any) -> Dict[str, Any]:
    bounds = [None, 0, 1, 2, 3, 4, 5, 7]
    for lo, hi in itertools.product(bounds, bounds):
        if lo is None and hi is None:
            continue
        if lo is not None and hi is not None and lo > hi:
            continue
        try:
            lc = infer_for_schema.LenConstraint(min_value=lo, max_value=hi)
        except BaseException:  # noqa
            continue
        cons = infer_for_schema.Constraints(len_constraint=lc)
        for kind, ann in (("bytearray", _bytes_annotation()), ("str", _str_annotation())):
            all_of = jm._translate_constraints(ann, cons, lambda p: p)
            schema: Dict[str, Any] = {"type": "string"}
            if all_of is not None:
                schema = {"allOf": [{"type": "string"}] + [dict(s) for s in all_of.subschemas]}
            for n in range(0, 10):
                valid = (lo is None or n >= lo) and (hi is None or n <= hi)
                text = base64.b64encode(b"\x01" * n).decode("ascii") if kind == "bytearray" else "a" * n
                try:
                    jsonschema.validate(text, schema)
                    accepted = True
                except jsonschema.ValidationError:
                    accepted = False
                if valid and not accepted:
                    return {"confirmed": True, "judge": "jsonschema.validate",
                            "input": {"type": kind, "len_constraint": [lo, hi], "value_length": n, "json_text": text},
                            "emitted": [dict(s) for s in all_of.subschemas] if all_of is not None else None,
                            "observed": "a value satisfying the inferred length constraint is rejected by the emitted "
                                        "sub-schema (C11)"}
                if kind == "str" and not valid and accepted:
                    return {"confirmed": True, "judge": "jsonschema.validate",
                            "input": {"type": kind, "len_constraint": [lo, hi], "value_length": n},
                            "emitted": [dict(s) for s in all_of.subschemas] if all_of is not None else None,
                            "observed": "a string breaking the inferred length constraint is accepted (C12)"}
    return {"confirmed": False}
