"""Native replays for C19: call the real literal function on the solver's text and let the target
language itself (where its toolchain is installed: CPython, g++, node, javac/java) or otherwise the
specification decoder read the literal back."""
import json
import os
import shutil
import subprocess
import tempfile
from typing import Any, Callable, Dict, List, Optional

from specs import literals as L


def _text(model: Optional[Dict[str, str]]) -> str:
    model = model or {}
    cps = []
    k = 0
    while f"text.{k}" in model:
        cps.append(int(model[f"text.{k}"]))
        k += 1
    return "".join(chr(c) for c in cps)


def _candidates(model: Optional[Dict[str, str]]) -> List[str]:
    t = _text(model)
    extra = ["\x00", "\x01f", "\x0f", "a\x00", "\u0085", " x", " ", "\x7f", "\x80", "é", "\U0001F600",
             "${x}", "`", "\r\n", "'\"", "\\x41", "{}", "\\", "\x1b1"]
    return ([t] if t else []) + extra


def _judge_python(lit: str) -> Optional[List[int]]:
    try:
        v = eval(lit)  # noqa: S307 - the literal was produced by the function under test
    except BaseException:  # noqa
        return None
    return [ord(c) for c in v] if isinstance(v, str) else None


def _judge_node(lit: str) -> Optional[List[int]]:
    if shutil.which("node") is None:
        return None
    with tempfile.NamedTemporaryFile("w", suffix=".js", delete=False, encoding="utf-8") as f:
        f.write("const v = " + lit + ";\nconsole.log(JSON.stringify(Array.from(v).map(c => c.codePointAt(0))));\n")
        fn = f.name
    try:
        p = subprocess.run(["node", fn], capture_output=True, text=True, timeout=30)
        if p.returncode != 0:
            return None
        return json.loads(p.stdout.strip())
    except Exception:
        return None
    finally:
        os.unlink(fn)


def _judge_gxx(lit: str, wide: bool) -> Optional[List[int]]:
    if shutil.which("g++") is None:
        return None
    d = tempfile.mkdtemp()
    try:
        src = os.path.join(d, "t.cpp")
        with open(src, "w", encoding="utf-8") as f:
            if wide:
                f.write('#include <cstdio>\n#include <string>\nint main(){ std::wstring s = ' + lit +
                        '; for (wchar_t c : s) std::printf("%u ", (unsigned)c); return 0; }\n')
            else:
                f.write('#include <cstdio>\n#include <string>\nint main(){ std::string s(' + lit + ', sizeof(' + lit +
                        ')-1); for (unsigned char c : s) std::printf("%u ", (unsigned)c); return 0; }\n')
        exe = os.path.join(d, "t")
        p = subprocess.run(["g++", "-std=c++17", "-o", exe, src], capture_output=True, text=True, timeout=120)
        if p.returncode != 0:
            return None
        q = subprocess.run([exe], capture_output=True, text=True, timeout=30)
        return [int(x) for x in q.stdout.split()]
    except Exception:
        return None
    finally:
        shutil.rmtree(d, ignore_errors=True)


def _run(func: Callable[[str], str], spec: Callable[[str], Optional[List[int]]],
         judge: Optional[Callable[[str], Optional[List[int]]]], model: Optional[Dict[str, str]],
         ok_input: Callable[[str], bool] = lambda t: True) -> Dict[str, Any]:
    for t in _candidates(model):
        if not ok_input(t):
            continue
        try:
            lit = str(func(t))
        except BaseException as e:  # noqa
            continue  # reporting an error instead of a wrong literal is allowed
        want = [ord(c) for c in t]
        got_spec = spec(lit)
        if got_spec != want:
            rec = {"confirmed": True, "input": {"text_code_points": want}, "literal": lit,
                   "observed": f"the language specification reads the literal as {got_spec}", "judge": "specification decoder"}
            if judge is not None:
                got = judge(lit)
                rec["toolchain_reads"] = got
                rec["judge"] = "installed toolchain + specification decoder"
                if got == want:
                    rec["confirmed"] = False
                    rec["note"] = "the installed toolchain accepts the literal with the right value; spec decoder disagrees"
            if rec["confirmed"]:
                return rec
    return {"confirmed": False}


def replay_python(obligation: str = "", model: Optional[Dict[str, str]] = None, **_: Any) -> Dict[str, Any]:
    from aas_core_codegen.python import common as C
    q = (model or {}).get("quoting")
    quoting = None if q is None else list(C.StringQuoting)[int(q)]
    return _run(lambda t: C.string_literal(t, quoting=quoting), L.python_str, _judge_python, model)


def replay_cpp_wide(obligation: str = "", model: Optional[Dict[str, str]] = None, **_: Any) -> Dict[str, Any]:
    from aas_core_codegen.cpp import common as C
    return _run(C.wstring_literal, L.cpp_wide, lambda lit: _judge_gxx(lit, True), model)


def replay_cpp_narrow(obligation: str = "", model: Optional[Dict[str, str]] = None, **_: Any) -> Dict[str, Any]:
    from aas_core_codegen.cpp import common as C
    return _run(C.string_literal, L.cpp_narrow, lambda lit: _judge_gxx(lit, False), model,
                ok_input=lambda t: all(ord(c) <= 127 for c in t))


def replay_cpp_wchar(obligation: str = "", model: Optional[Dict[str, str]] = None, **_: Any) -> Dict[str, Any]:
    from aas_core_codegen.cpp import common as C
    return _run(C.wchar_literal, L.cpp_wchar, None, model, ok_input=lambda t: len(t) == 1)


def replay_csharp(obligation: str = "", model: Optional[Dict[str, str]] = None, **_: Any) -> Dict[str, Any]:
    from aas_core_codegen.csharp import common as C
    return _run(C.string_literal, lambda lit: L.double_quoted(lit, "csharp"), None, model)


def replay_java(obligation: str = "", model: Optional[Dict[str, str]] = None, **_: Any) -> Dict[str, Any]:
    from aas_core_codegen.java import common as C
    return _run(C.string_literal, lambda lit: L.double_quoted(lit, "java"), None, model)


def replay_go(obligation: str = "", model: Optional[Dict[str, str]] = None, **_: Any) -> Dict[str, Any]:
    from aas_core_codegen.golang import common as C
    return _run(C.string_literal, lambda lit: L.double_quoted(lit, "go"), None, model)


def replay_ts(obligation: str = "", model: Optional[Dict[str, str]] = None, **_: Any) -> Dict[str, Any]:
    from aas_core_codegen.typescript import common as C
    return _run(lambda t: C.string_literal(t), lambda lit: L.double_quoted(lit, "ts"), _judge_node, model)


def replay_ts_template(obligation: str = "", model: Optional[Dict[str, str]] = None, **_: Any) -> Dict[str, Any]:
    from aas_core_codegen.typescript import common as C
    return _run(lambda t: C.string_literal(t, in_backticks=True), L.ts_template, _judge_node, model)
