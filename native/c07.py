"""C07: bounded stand-in -- every small invariant expression that the real type inference accepts evaluates, with
Python semantics, to a boolean on every type-conforming instance (no TypeError / AttributeError; IndexError is
excluded by the property).

One class with properties of every type shape carries all candidate invariants at once; the real Python generator
(the front end does not run type inference, the generators do) is run on it and its error report tells which
invariants were rejected (by the line of the invariant).  The accepted ones are evaluated as the Python lambdas they
are, on instances built from small value sets (None only where Optional).  Labelled bounded.
"""
import enum
import io
import itertools
import pathlib
import re
import tempfile
import types
from typing import Any, Dict, List, Optional, Tuple

from aas_core_codegen import main as cg_main

PROPS = [("s", "str"), ("n", "int"), ("b", "bool"), ("os", "Optional[str]"), ("on", "Optional[int]"),
         ("ls", "List[str]"), ("ols", "Optional[List[str]]"), ("e", "Color"), ("oe", "Optional[Color]"),
         ("items", "List[Item]")]
OPTIONALS = ["os", "on", "ols", "oe"]


class Color(enum.Enum):
    Red = "RED"
    Green = "GREEN"


def _item(value: Optional[int]) -> Any:
    return types.SimpleNamespace(value=value)


# index expressions over the loop variable ``i``; several of them differ only in where the brackets are
INDEX_EXPRESSIONS = ["i", "i - 1", "len(self.items) - i", "len(self.items) - (i + 1)", "len(self.items) - i + 1",
                     "len(self.items) - (i - 1)", "len(self.items) - i - 1", "(len(self.items) - i) - 1", "i - (1 - 1)",
                     "i - 1 - 1"]

VALUES = {"items": [[_item(1), _item(1), _item(None)], [_item(None), _item(2), _item(3), _item(None), _item(0)]],
          "s": ["", "ab"], "n": [0, 3], "b": [True, False], "os": [None, "", "x"], "on": [None, 0, 2],
          "ls": [[], ["a", ""]], "ols": [None, [], ["a"]], "e": [Color.Red], "oe": [None, Color.Green]}


def _show(v: Any) -> str:
    if isinstance(v, list) and v and isinstance(v[0], types.SimpleNamespace):
        return "[" + ", ".join(f"Item({x.value!r})" for x in v) + "]"
    return repr(v)


def candidates() -> List[str]:
    atoms = [f"self.{p}" for p, _ in PROPS] + ["1", '"x"', "True", "Color.Red"]
    operands = atoms + [f"len(self.{p})" for p, _ in PROPS]
    out: List[str] = []
    for a, b in itertools.product(operands, repeat=2):
        for op in ("==", "<", ">="):
            out.append(f"{a} {op} {b}")
    for a in atoms:
        out.append(f"{a} is None")
        out.append(f"{a} is not None")
        out.append(f"not {a}")
        out.append(a)
    bodies = {
        "os": ["len(self.os) > 0", 'self.os == "x"', "len(self.os) >= self.n", "self.os == self.s"],
        "on": ["self.on > 1", "self.on == self.n", "self.on >= len(self.s)"],
        "ols": ["len(self.ols) >= 1", "all(len(item) > 0 for item in self.ols)", "len(self.ols) == self.n"],
        "oe": ["self.oe == Color.Red", "self.oe == self.e"],
    }
    for g in OPTIONALS:
        for x in OPTIONALS:
            for body in bodies[x]:
                out.append(f"not (self.{g} is not None) or {body}")
                out.append(f"self.{g} is None or {body}")
                out.append(f"(self.{g} is not None) and {body}")
                out.append(f"self.{g} is not None or {body}")
                out.append(f"(self.{g} is None) and {body}")
                out.append(f"not (self.{g} is not None) or (self.b and {body})")
                out.append(f"not (self.{g} is not None and self.b) or {body}")
                out.append(f"not (self.{g} is not None or self.b) or {body}")
    out += ["all(len(item) > 0 for item in self.ls)", "all(item == self.s for item in self.ls)",
            "all(item > 0 for item in self.ls)", "all(len(item) > 0 for item in self.ols)",
            "all(item is not None for item in self.ls)", "self.s and self.n", "self.os or self.s", "self.b or self.n",
            "len(self.ls) > 0 and self.ls[0] == self.s", "self.n + 1 > 0", "self.s + self.s == self.s",
            "self.n - self.on > 0", "not (self.on is not None) or self.n - self.on > 0"]
    # narrowing one expression must not narrow another one: (self.items[E1].value is None) or (self.items[E2].value > 0)
    for e1, e2 in itertools.product(INDEX_EXPRESSIONS, repeat=2):
        out.append(f"all((self.items[{e1}].value is None) or (self.items[{e2}].value > 0) "
                   f"for i in range(2, len(self.items)))")
        out.append(f"all(not (self.items[{e1}].value is not None) or (self.items[{e2}].value > 0) "
                   f"for i in range(2, len(self.items)))")
    seen = set()
    uniq = []
    for e in out:
        if e not in seen:
            seen.add(e)
            uniq.append(e)
    return uniq


def build_model(exprs: List[str]) -> Tuple[str, Dict[int, int]]:
    """The meta-model and, per line number of an invariant, the index of its expression."""
    lines = ["class Color(Enum):", '    """Represent a color."""', "", '    Red = "RED"', '    Green = "GREEN"', "", "",
             "class Item(DBC):", '    """Represent an item."""', "", "    value: Optional[int]", '    """Value"""', "",
             "    def __init__(self, value: Optional[int] = None) -> None:", "        self.value = value", "", ""]
    line_of: Dict[int, int] = {}
    for k, e in enumerate(exprs):
        lines.append(f'@invariant(lambda self: {e}, "Invariant {k}")')
        line_of[len(lines)] = k
    lines.append("class Subject(DBC):")
    lines.append('    """Represent the subject."""')
    lines.append("")
    for p, t in PROPS:
        lines.append(f"    {p}: {t}")
        lines.append(f'    """Property {p}"""')
        lines.append("")
    required = [(p, t) for p, t in PROPS if not t.startswith("Optional")]
    optional = [(p, t) for p, t in PROPS if t.startswith("Optional")]
    # the constructor has to list the arguments in the order of the properties; optional ones default to None
    args = []
    for p, t in PROPS:
        args.append(f"{p}: {t}" + (" = None" if t.startswith("Optional") else ""))
    lines.append("    def __init__(self, " + ", ".join(args) + ") -> None:")
    for p, _ in PROPS:
        lines.append(f"        self.{p} = {p}")
    lines += ["", "", '__version__ = "dummy"', '__xml_namespace__ = "https://dummy.com"', ""]
    return "\n".join(lines), line_of


def reorder_props() -> None:
    """Optional properties last, so that the constructor is a valid Python signature."""
    PROPS.sort(key=lambda pt: pt[1].startswith("Optional"))


def bounded(seed: int = 0, **_: Any) -> Dict[str, Any]:
    reorder_props()
    exprs = candidates()
    text, line_of = build_model(exprs)
    failures: List[Dict[str, Any]] = []
    with tempfile.TemporaryDirectory() as d:
        root = pathlib.Path(d)
        (root / "snippets").mkdir()
        (root / "snippets" / "qualified_module_name.txt").write_text("dummy", encoding="utf-8")
        model_path = root / "meta_model.py"
        model_path.write_text(text, encoding="utf-8")
        (root / "out").mkdir()
        stdout, stderr = io.StringIO(), io.StringIO()
        try:
            rc = cg_main.execute(cg_main.Parameters(model_path=model_path, target=cg_main.Target.PYTHON,
                                                    snippets_dir=root / "snippets", output_dir=root / "out",
                                                    cache_model=False), stdout=stdout, stderr=stderr)
        except BaseException as e:  # noqa
            return {"cases": 1, "distinct": 0, "exhaustive": False,
                    "failures": [{"observed": f"the generator raised {type(e).__name__}: {str(e)[:300]}"}]}
    report = stderr.getvalue()
    if "Failed to construct the symbol table" in report or "Failed to parse" in report.split("\n")[0]:
        return {"cases": 1, "distinct": 0, "exhaustive": False,
                "failures": [{"observed": f"the front end rejects the model: {report[:600]}"}]}
    rejected = set()
    for m in re.finditer(r"At line (\d+) and column \d+", report):
        k = line_of.get(int(m.group(1)))
        if k is not None:
            rejected.add(k)
    if rc == 0:
        rejected = set()
    accepted = [k for k in range(len(exprs)) if k not in rejected]
    if not accepted or not rejected:
        failures.append({"observed": f"vacuous: {len(accepted)} accepted, {len(rejected)} rejected invariants "
                                     f"(exit code {rc}); report: {report[:300]}"})
    names = [p for p, _ in PROPS]
    instances = [types.SimpleNamespace(**dict(zip(names, vals)))
                 for vals in itertools.product(*[VALUES[p] for p in names])]
    cases = 0
    for k in accepted:
        try:
            f = eval("lambda self: " + exprs[k], {"Color": Color, "len": len, "all": all, "range": range})  # noqa: S307
        except SyntaxError:
            continue
        for inst in instances:
            cases += 1
            try:
                r = f(inst)
            except IndexError:
                continue
            except (TypeError, AttributeError) as e:
                failures.append({"invariant": exprs[k], "instance": {n: _show(getattr(inst, n)) for n in names},
                                 "observed": f"accepted by the type inference, but evaluating it raises "
                                             f"{type(e).__name__}: {e}"})
                break
            if not isinstance(r, bool):
                failures.append({"invariant": exprs[k], "instance": {n: repr(getattr(inst, n)) for n in names},
                                 "observed": f"accepted by the type inference, but it evaluates to {r!r}, not a boolean"})
                break
    # one representative per kind of failure (operator and the kinds of its operands)
    by_kind: Dict[str, Dict[str, Any]] = {}
    for f in failures:
        kind = re.sub(r"'[^']*'", "T", f["observed"].split("raises ")[-1] if "raises" in f["observed"] else "not a boolean")
        kind = re.sub(r"instances of \S+ and \S+", "instances of incompatible types", kind)
        if "NoneType" in f["observed"] and "has no len()" not in f["observed"]:
            # (len(x) of an Optional x is the recorded finding "arguments of calls are not checked")
            # what the None-tracking of the inference exists to exclude: kept apart from operand-type sloppiness
            kind = "None reached an operation: " + kind
        f["kind"] = kind
        by_kind.setdefault(kind, f)
    kinds = {k: sum(1 for f in failures if f.get("kind") == k) for k in by_kind}
    failures = list(by_kind.values())
    return {"cases": cases, "distinct": len(accepted), "failures": failures[:10], "exhaustive": True, "kinds": kinds,
            "n_failing": len(failures),
            "samples": [{"candidates": len(exprs), "accepted": len(accepted), "rejected": len(rejected),
                         "instances": len(instances), "accepted_example": exprs[accepted[0]] if accepted else None}]}
