"""C05: bounded stand-in -- every small DAG-shaped class hierarchy through the real front end.

The passes that resolve inheritance (``_hierarchy._UnverifiedOntology``, the ``_second_pass_*`` functions of
``intermediate/_translate.py``) work on lists of lists, id-sets and mutable class objects built from a parsed
meta-model; contracts over them are out of reach of the verifier in /verif/pyvc (DESIGN.md).  This module
generates *every* hierarchy within the stated bound as meta-model text, runs the real ``parse`` and
``intermediate.translate`` on it and compares the result with an oracle computed from the generated shape alone.

Bound: N classes (N <= 3 quick, N <= 4 thorough), every class inherits from any ordered list of earlier
classes that CPython itself accepts as a base list (MRO exists), every abstract/concrete assignment, two naming
schemes (alphabetical order equal / opposite to the declaration order), with_model_type settings
{none, roots, a single class}; plus chains of constrained primitives of depth <= 3.
"""
import itertools
from typing import Any, Dict, List, Optional, Sequence, Set, Tuple

from aas_core_codegen import intermediate, parse
from aas_core_codegen.intermediate import construction

Shape = Tuple[Tuple[int, ...], ...]  # parents (declared order) per class, indices of earlier classes


def python_accepts(shape: Shape) -> bool:
    """The base lists are consistent with Python (a method resolution order exists)."""
    classes: List[type] = []
    try:
        for k, parents in enumerate(shape):
            classes.append(type(f"K{k}", tuple(classes[p] for p in parents), {}))
    except TypeError:
        return False
    return True


def shapes(n: int) -> List[Shape]:
    per_class: List[List[Tuple[int, ...]]] = []
    for k in range(n):
        options: List[Tuple[int, ...]] = []
        for r in range(0, k + 1):
            options.extend(itertools.permutations(range(k), r))
        per_class.append(options)
    return [s for s in itertools.product(*per_class) if python_accepts(s)]


def closure(shape: Shape) -> List[Set[int]]:
    anc: List[Set[int]] = []
    for parents in shape:
        s: Set[int] = set()
        for p in parents:
            s |= anc[p] | {p}
        anc.append(s)
    return anc


def expected_members(shape: Shape) -> List[List[int]]:
    """Index of the owning class of each member: inherited (parents in declared order, de-duplicated) then own."""
    out: List[List[int]] = []
    for k, parents in enumerate(shape):
        mem: List[int] = []
        for p in parents:
            for m in out[p]:
                if m not in mem:
                    mem.append(m)
        mem.append(k)
        out.append(mem)
    return out


def render(shape: Shape, names: Sequence[str], abstract: Sequence[bool], wmt: Sequence[Any],
           methods: bool = True) -> str:
    members = expected_members(shape)
    blocks = []
    for k, parents in enumerate(shape):
        lines = []
        if abstract[k]:
            lines.append("@abstract")
        if wmt[k] == "bare":
            lines.append("@serialization()")  # a setting object without a value: inherited like no decorator
        elif wmt[k] is not None:
            lines.append(f"@serialization(with_model_type={wmt[k]})")
        lines.append(f'@invariant(lambda self: self.p_{names[k].lower()} > 0, "{names[k]} positive")')
        bases = "".join(f"{names[p]}, " for p in parents)
        lines.append(f"class {names[k]}({bases}DBC):")
        lines.append(f"    p_{names[k].lower()}: int")
        lines.append("")
        if methods:
            lines.append("    @implementation_specific")
            lines.append(f"    def m_{names[k].lower()}(self) -> None:")
            lines.append("        pass")
            lines.append("")
        args = "".join(f", p_{names[m].lower()}: int" for m in members[k])
        lines.append(f"    def __init__(self{args}) -> None:")
        for p in parents:
            pargs = "".join(f", p_{names[m].lower()}" for m in members[p])
            lines.append(f"        {names[p]}.__init__(self{pargs})")
        lines.append(f"        self.p_{names[k].lower()} = p_{names[k].lower()}")
        blocks.append("\n".join(lines))
    return "\n\n\n".join(blocks) + '\n\n\n__version__ = "dummy"\n__xml_namespace__ = "https://dummy.com"\n'


def translate(text: str) -> Tuple[Optional[intermediate.SymbolTable], str]:
    atok, exc = parse.source_to_atok(source=text)
    if exc is not None:
        return None, f"source_to_atok: {exc}"
    assert atok is not None
    pst, err = parse.atok_to_symbol_table(atok=atok)
    if err is not None:
        return None, f"parse: {err}"
    assert pst is not None
    st, err2 = intermediate.translate(parsed_symbol_table=pst, atok=atok)
    if err2 is not None:
        return None, f"translate: {err2}"
    return st, ""


def judge(st: intermediate.SymbolTable, shape: Shape, names: Sequence[str], abstract: Sequence[bool],
          wmt: Sequence[Any], methods: bool = True) -> Optional[Tuple[str, str]]:
    """(clause, observation) of the first clause of C05 that the symbol table breaks."""
    anc = closure(shape)
    members = expected_members(shape)
    n = len(shape)
    cls_of = {}
    for k in range(n):
        c = st.find_our_type(names[k])  # type: ignore
        if not isinstance(c, intermediate.Class):
            return "class-kept", f"{names[k]} is {type(c).__name__}"
        cls_of[k] = c
    idx_of = {id(c): k for k, c in cls_of.items()}
    for k in range(n):
        c = cls_of[k]
        if (not abstract[k]) != isinstance(c, intermediate.ConcreteClass):
            return "abstractness", f"{names[k]} is {type(c).__name__}"
        got = [a.name for a in c.ancestors]
        if len(got) != len(set(got)) or set(got) != {names[a] for a in anc[k]}:
            return "ancestors-are-the-closure", f"{names[k]}.ancestors = {got}"
        if c.ancestor_id_set != frozenset(id(cls_of[a]) for a in anc[k]):
            return "ancestors-are-the-closure", f"{names[k]}.ancestor_id_set differs from the closure"
        if [i.name for i in c.inheritances] != [names[p] for p in shape[k]]:
            return "ancestors-are-the-closure", f"{names[k]}.inheritances = {[i.name for i in c.inheritances]}"
        desc = {d for d in range(n) if k in anc[d]}
        got = [d.name for d in c.descendants]
        if len(got) != len(set(got)) or set(got) != {names[d] for d in desc}:
            return "descendants-are-the-inverse", f"{names[k]}.descendants = {got}"
        if c.descendant_id_set != frozenset(id(cls_of[d]) for d in desc):
            return "descendants-are-the-inverse", f"{names[k]}.descendant_id_set differs"
        got = [d.name for d in c.concrete_descendants]
        if len(got) != len(set(got)) or set(got) != {names[d] for d in desc if not abstract[d]}:
            return "descendants-are-the-inverse", f"{names[k]}.concrete_descendants = {got}"
        # members: inherited first (de-duplicated), own last
        want_props = [f"p_{names[m].lower()}" for m in members[k]]
        got = [p.name for p in c.properties]
        if got != want_props:
            return "properties-inherited-then-own", f"{names[k]}.properties = {got}, expected {want_props}"
        for p, m in zip(c.properties, members[k]):
            if p.specified_for is not cls_of[m]:
                return "properties-inherited-then-own", f"{names[k]}.{p.name}.specified_for = {p.specified_for.name}"
        want = [f"m_{names[m].lower()}" for m in members[k]] if methods else []
        got = [m_.name for m_ in c.methods]
        if got != want:
            return "methods-inherited-then-own", f"{names[k]}.methods = {got}, expected {want}"
        want = [f"{names[m]} positive" for m in members[k]]
        got = [str(i.description) for i in c.invariants]
        if got != want:
            return "invariants-inherited-then-own", f"{names[k]}.invariants = {got}, expected {want}"
        stmts = c.constructor.inlined_statements
        if not all(isinstance(s, construction.AssignArgument) for s in stmts):
            return "constructor-in-lined", f"{names[k]}: a super-constructor call remains"
        got = sorted(s.name for s in stmts)  # type: ignore
        if got != sorted(want_props):
            return "constructor-assigns-each-property-once", f"{names[k]} constructor assigns {got}"
        want_if = abstract[k] or len(desc) > 0
        if (c.interface is not None) != want_if:
            return "interface-iff-abstract-or-has-descendants", f"{names[k]}.interface is {c.interface}"
        if c.interface is not None:
            impl = [i.name for i in c.interface.implementers]
            want_impl = {names[d] for d in (desc | {k}) if not abstract[d]}
            if len(impl) != len(set(impl)) or set(impl) != want_impl:
                return "interface-iff-abstract-or-has-descendants", f"{names[k]}.interface.implementers = {impl}"
        if wmt[k] is False and any(wmt[a] is True for a in anc[k]):
            return "model-type-propagated", f"{names[k]} sets with_model_type=False below an ancestor with True: accepted"
        want_wmt = any(wmt[a] is True for a in anc[k] | {k})
        if c.serialization.with_model_type is not want_wmt:
            return "model-type-propagated", f"{names[k]}.with_model_type = {c.serialization.with_model_type}"
    order = [idx_of[id(t)] for t in st.our_types_topologically_sorted if id(t) in idx_of]
    seen: Set[int] = set()
    for k in order:
        if not anc[k] <= seen:
            return "type-order-topological", f"order {[names[i] for i in order]}"
        seen.add(k)
    if sorted(order) != list(range(n)):
        return "type-order-topological", f"order {[names[i] for i in order]} is not a permutation of the classes"
    return None


def wmt_settings(shape: Shape) -> List[List[Any]]:
    n = len(shape)
    out: List[List[Any]] = [[None] * n, [True if not shape[k] else None for k in range(n)]]
    for k in range(n):
        one: List[Any] = [None] * n
        one[k] = True
        if one not in out:
            out.append(one)
    for k in range(n):
        if shape[k]:
            bare = list(out[1])
            bare[k] = "bare"  # type: ignore
            out.append(bare)
    if n > 1 and shape[n - 1]:
        contradicting = list(out[1])
        contradicting[n - 1] = False
        out.append(contradicting)
    return out


def primitive_chains(depth: int) -> List[Dict[str, Any]]:
    failures = []
    for d in range(1, depth + 1):
        for names in (["P", "Q", "R"][:d], ["Z", "Y", "X"][:d]):
            blocks = []
            for k in range(d):
                base = "str" if k == 0 else names[k - 1]
                blocks.append(f'@invariant(lambda self: len(self) > {k}, "{names[k]} long")\n'
                              f"class {names[k]}({base}, DBC):\n    pass")
            # every declaration order: the front end sorts the types itself (a child may be written before its parent)
            for order in itertools.permutations(range(d)):
                text = ("\n\n\n".join(blocks[i] for i in order)
                        + '\n\n\n__version__ = "dummy"\n__xml_namespace__ = "https://dummy.com"\n')
                st, why = translate(text)
                if st is None:
                    failures.append({"meta_model": text, "clause": "accepted", "observed": why})
                    continue
                for k in range(d):
                    c = st.must_find_constrained_primitive(names[k])  # type: ignore
                    got = [a.name for a in c.ancestors]
                    desc = [x.name for x in c.descendants]
                    # the property fixes the *sets* (closure and its inverse), not the order of these lists
                    if (sorted(got) != sorted(names[:k]) or len(set(got)) != len(got)
                            or sorted(desc) != sorted(names[k + 1:d]) or len(set(desc)) != len(desc)):
                        failures.append({"meta_model": text, "clause": "ancestors-are-the-closure",
                                         "observed": f"{names[k]}: ancestors {got}, descendants "
                                                     f"{[x.name for x in c.descendants]}"})
                    if c.constrainee is not intermediate.PrimitiveType.STR:
                        failures.append({"meta_model": text, "clause": "constrainee", "observed": str(c.constrainee)})
                    got = [str(i.description) for i in c.invariants]
                    if got != [f"{x} long" for x in names[:k + 1]]:
                        failures.append({"meta_model": text, "clause": "invariants-inherited-then-own",
                                         "observed": f"{names[k]}: {got}"})
    return failures


def variants(shape: Shape, full: bool) -> List[Tuple[Tuple[bool, ...], int, List[Any], bool]]:
    n = len(shape)
    if full:
        abstracts = list(itertools.product([False, True], repeat=n))
        namings = [0, 1]
        wmts = wmt_settings(shape)
    else:
        # reduced: leaves concrete and the rest abstract / everything concrete; declaration-order names
        leaves = [not any(k in parents for parents in shape) for k in range(n)]
        abstracts = [tuple(not leaf for leaf in leaves), tuple([False] * n)]
        namings = [0]
        wmts = wmt_settings(shape)[:2]
    return [(a, nm, w, m) for a in abstracts for nm in namings for w in wmts for m in (True, False)]


def run_shape(task: Tuple[Shape, bool]) -> Dict[str, Any]:
    shape, full = task
    n = len(shape)
    out: Dict[str, Any] = {"cases": 0, "accepted": 0, "failures": [], "rejected": {}}
    for abstract, naming, wmt, methods in variants(shape, full):
        names = ["A", "B", "C", "D", "E"][:n] if naming == 0 else ["Z", "Y", "X", "W", "V"][:n]
        out["cases"] += 1
        text = render(shape, names, abstract, wmt, methods)
        try:
            st, why = translate(text)
        except BaseException as e:  # noqa
            out["failures"].append({"meta_model": text, "clause": "no-crash",
                                    "observed": f"raised {type(e).__name__}: {str(e)[:300]}"})
            continue
        if st is None:
            key = why.split(":")[0]
            out["rejected"][key] = out["rejected"].get(key, 0) + 1
            continue
        out["accepted"] += 1
        bad = judge(st, shape, names, abstract, wmt, methods)
        if bad is not None:
            out["failures"].append({"meta_model": text, "clause": bad[0], "observed": bad[1],
                                    "shape": [list(p) for p in shape]})
    return out


def bounded(seed: int = 0, full_upto: int = 3, reduced_upto: int = 4, jobs: int = 16, **_: Any) -> Dict[str, Any]:
    """Every shape with <= full_upto classes in every variant; shapes with up to reduced_upto classes in the
    reduced variants (see ``variants``)."""
    import multiprocessing as mp
    tasks: List[Tuple[Shape, bool]] = []
    for n in range(1, max(full_upto, reduced_upto) + 1):
        for shape in shapes(n):
            tasks.append((shape, n <= full_upto))
    with mp.get_context("fork").Pool(jobs) as pool:
        results = pool.map(run_shape, tasks, chunksize=4)
    cases = sum(r["cases"] for r in results)
    accepted = sum(r["accepted"] for r in results)
    rejected: Dict[str, int] = {}
    by_clause: Dict[str, int] = {}
    failures: List[Dict[str, Any]] = []
    for r in results:
        for k, v in r["rejected"].items():
            rejected[k] = rejected.get(k, 0) + v
        for f in r["failures"]:
            by_clause[f["clause"]] = by_clause.get(f["clause"], 0) + 1
            if by_clause[f["clause"]] <= 1:
                failures.append(f)
    failures.extend(primitive_chains(3))
    if accepted == 0:
        failures.append({"clause": "vacuous", "observed": f"no generated meta-model was accepted: {rejected}"})
    diamonds = sum(1 for shape, _ in tasks if any(
        len(ps) >= 2 and any(closure(shape)[a] & closure(shape)[b] or a in closure(shape)[b] or b in closure(shape)[a]
                             for a in ps for b in ps if a < b) for ps in shape))
    diamond = render(((), (0,), (0,), (1, 2)), "ABCD", [True, True, True, False], [True, None, None, None], False)
    return {"cases": cases, "distinct": accepted, "failures": failures, "exhaustive": True,
            "by_clause": by_clause, "rejected": rejected,
            "samples": [{"meta_model": diamond},
                        {"shapes": len(tasks), "shapes_with_a_shared_ancestor": diamonds, "accepted": accepted,
                         "rejected": rejected}]}
