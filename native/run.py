"""Run ``native.<module>:<function>(**args)`` on the real repository code (under /venv/bin/python).

Usage: run.py <module:function> <args.json>; prints one JSON line with the result."""
import importlib
import json
import sys


def main() -> int:
    entry, argfile = sys.argv[1], sys.argv[2]
    with open(argfile) as f:
        args = json.load(f)
    modname, _, fname = entry.partition(":")
    mod = importlib.import_module(modname)
    res = getattr(mod, fname)(**args)
    sys.stdout.write("\n" + json.dumps(res, default=str) + "\n")
    return 0


if __name__ == "__main__":
    sys.exit(main())
