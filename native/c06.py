"""C06 / C01 (examples-bounded): single-rule mutations of a valid meta-model are rejected with an error.

A base meta-model that uses every construct the rules of C06 talk about is accepted by the real front end
(``run.load_model``); each mutant breaks exactly one documented rule by a textual replacement and must be
(a) rejected -- ``load_model`` returns an error report -- and (b) never make the front end raise.
This is a list of examples (one or more per rule), not an enumeration of all meta-models: labelled bounded.
"""
import os
import pathlib
import tempfile
from typing import Any, Dict, List, Tuple

from aas_core_codegen import run

BASE = '''\
class Color(Enum):
    """Represent a color."""

    Red = "RED"
    Green = "GREEN"


@verification
def matches_id(text: str) -> bool:
    """Check that :paramref:`text` is an identifier."""
    pattern = f"^[a-zA-Z][a-zA-Z0-9_]*$"
    return match(pattern, text) is not None


@invariant(lambda self: matches_id(self), "Must be an identifier")
class Id_string(str, DBC):
    """Represent an identifier."""


@abstract
@invariant(lambda self: len(self.name) >= 1, "Name non-empty")
class Named(DBC):
    """Represent something with a :attr:`name`."""

    name: str
    """Name of the thing"""

    def __init__(self, name: str) -> None:
        self.name = name


@invariant(lambda self: not (self.tags is not None) or len(self.tags) >= 1, "Tags non-empty")
@invariant(lambda self: self.color is not None or self.tags is not None, "Color or tags")
class Item(Named):
    """Represent an item, see also :class:`Named` and :attr:`Color.Red`."""

    ident: Id_string
    """Identifier"""

    color: Optional[Color]
    """Color, if any"""

    tags: Optional[List[str]]
    """Tags"""

    def __init__(
        self,
        name: str,
        ident: Id_string,
        color: Optional[Color] = None,
        tags: Optional[List[str]] = None,
    ) -> None:
        Named.__init__(self, name)
        self.ident = ident
        self.color = color
        self.tags = tags


Default_name: str = constant_str(value="unnamed", description="Default name")

Warm_colors: Set[Color] = constant_set(values=[Color.Red], description="Warm colors")


__version__ = "dummy"
__xml_namespace__ = "https://dummy.com"
'''

# (rule, name, old text, new text)
MUTANTS: List[Tuple[str, str, str, str]] = [
    ("inheritance-from-existing-classes", "unknown parent", "class Item(Named):", "class Item(Unknown_parent):"),
    ("acyclic-inheritance", "self inheritance", "class Named(DBC):", "class Named(Named, DBC):"),
    ("acyclic-inheritance", "cycle of two", "class Named(DBC):", "class Named(Item, DBC):"),
    ("unique-type-names", "class named like the enumeration", "class Id_string(str, DBC):", "class Color(str, DBC):"),
    ("unique-type-names", "two classes of one name", "class Item(Named):", "class Named(Named):"),
    ("reserved-type-names", "type named like a keyword", "class Color(Enum):", "class Class(Enum):"),
    ("reserved-type-names", "reserved prefix I_", "class Color(Enum):", "class I_color(Enum):"),
    ("reserved-member-names", "property named like a keyword", "    ident: Id_string\n", "    ident: Id_string\n    \"\"\"Identifier\"\"\"\n\n    while_: str\n"),
    ("unique-member-names", "method declared twice", "    def __init__(self, name: str) -> None:\n        self.name = name\n",
     "    def __init__(self, name: str) -> None:\n        self.name = name\n\n    @implementation_specific\n    def f(self) -> None:\n        pass\n\n"
     "    @implementation_specific\n    def f(self) -> None:\n        pass\n"),
    ("unique-member-names", "literal named with non-ASCII letters", '    Green = "GREEN"', '    Gr\u00fcn = "GREEN"'),
    ("unique-member-names", "property named with non-ASCII letters", "    ident: Id_string\n", "    id\u00e9nt: Id_string\n"),
    ("unique-type-names", "class named with non-ASCII letters", "class Color(Enum):", "class Col\u00f6r(Enum):"),
    ("unique-member-names", "property declared twice", "    color: Optional[Color]\n", "    ident: Id_string\n    \"\"\"again\"\"\"\n\n    color: Optional[Color]\n"),
    ("unique-enumeration-literals", "literal name twice", '    Green = "GREEN"', '    Red = "GREEN"'),
    ("unique-enumeration-literals", "literal value twice", '    Green = "GREEN"', '    Green = "RED"'),
    ("unique-constant-names", "constant named like a type", "Default_name: str = constant_str", "Color: str = constant_str"),
    ("unique-constant-names", "two constants of one name", "Warm_colors: Set[Color] = constant_set", "Default_name: Set[Color] = constant_set"),
    ("unique-function-names", "verification function twice",
     "@invariant(lambda self: matches_id(self), \"Must be an identifier\")",
     "@verification\ndef matches_id(text: str) -> bool:\n    \"\"\"Again.\"\"\"\n    return text == \"a\"\n\n\n"
     "@invariant(lambda self: matches_id(self), \"Must be an identifier\")"),
    ("no-redeclared-inherited-members", "property of the parent again", "    ident: Id_string\n", "    name: str\n    \"\"\"again\"\"\"\n\n    ident: Id_string\n"),
    ("constructor-matches-properties", "argument missing", "        ident: Id_string,\n        color", "        color"),
    ("constructor-matches-properties", "argument of another type", "        ident: Id_string,\n", "        ident: str,\n"),
    ("constructor-matches-properties", "arguments in another order",
     "        color: Optional[Color] = None,\n        tags: Optional[List[str]] = None,",
     "        tags: Optional[List[str]] = None,\n        color: Optional[Color] = None,"),
    ("constructor-matches-properties", "property never assigned", "        self.ident = ident\n", ""),
    ("constructor-matches-properties", "extra argument", "        ident: Id_string,\n", "        ident: Id_string,\n        extra: str,\n"),
    ("optional-arguments-default-to-none", "optional without default", "        color: Optional[Color] = None,", "        color: Optional[Color],"),
    # the rule is about ``None``, not about falsy values
    ("optional-arguments-default-to-none", "optional defaults to 0", "        color: Optional[Color] = None,", "        color: Optional[Color] = 0,"),
    ("optional-arguments-default-to-none", "optional defaults to the empty string", "        color: Optional[Color] = None,", '        color: Optional[Color] = "",'),
    ("optional-arguments-default-to-none", "optional defaults to False", "        color: Optional[Color] = None,", "        color: Optional[Color] = False,"),
    ("optional-arguments-default-to-none", "optional defaults to 0.0", "        color: Optional[Color] = None,", "        color: Optional[Color] = 0.0,"),
    ("optional-arguments-default-to-none", "optional defaults to 1", "        color: Optional[Color] = None,", "        color: Optional[Color] = 1,"),
    ("optional-arguments-default-to-none", "optional defaults to a text", "        color: Optional[Color] = None,", '        color: Optional[Color] = "abc",'),
    # an invariant may not use a construct whose meaning the transpilers would change: the condition of a generator
    ("supported-invariant-forms", "generator expression with a condition",
     '@invariant(lambda self: not (self.tags is not None) or len(self.tags) >= 1, "Tags non-empty")',
     '@invariant(lambda self: not (self.tags is not None) or all(len(tag) > 0 for tag in self.tags if tag != "-"), '
     '"Tags filled")\n'
     '@invariant(lambda self: not (self.tags is not None) or len(self.tags) >= 1, "Tags non-empty")'),
    ("supported-type-shapes", "nested optional", "    color: Optional[Color]\n", "    color: Optional[Optional[Color]]\n"),
    ("supported-type-shapes", "list of optionals", "    tags: Optional[List[str]]\n", "    tags: Optional[List[Optional[str]]]\n"),
    ("supported-type-shapes", "unknown type", "    ident: Id_string\n", "    ident: Unknown_type\n"),
    ("supported-type-shapes", "dictionary", "    tags: Optional[List[str]]\n", "    tags: Optional[Dict[str, str]]\n"),
    ("unique-invariant-descriptions", "same description twice", '"Color or tags")', '"Tags non-empty")'),
    ("resolvable-documentation-references", "unknown class", ":class:`Named`", ":class:`Unknown_class`"),
    ("resolvable-documentation-references", "unknown attribute", ":attr:`name`", ":attr:`unknown_attribute`"),
    ("resolvable-documentation-references", "unknown literal", ":attr:`Color.Red`", ":attr:`Color.Blue`"),
    ("pattern-anchored", "no start anchor", 'f"^[a-zA-Z][a-zA-Z0-9_]*$"', 'f"[a-zA-Z][a-zA-Z0-9_]*$"'),
    ("pattern-anchored", "no end anchor", 'f"^[a-zA-Z][a-zA-Z0-9_]*$"', 'f"^[a-zA-Z][a-zA-Z0-9_]*"'),
    ("pattern-anchored", "empty pattern", 'f"^[a-zA-Z][a-zA-Z0-9_]*$"', 'f""'),
    ("pattern-anchored", "only an empty alternative first", 'f"^[a-zA-Z][a-zA-Z0-9_]*$"', 'f"|^a$"'),
    ("pattern-anchored", "invalid quantifier", 'f"^[a-zA-Z][a-zA-Z0-9_]*$"', 'f"^a{\\u00b2}$"'),
    ("constant-set-of-literals", "literal listed twice", "values=[Color.Red]", "values=[Color.Red, Color.Red]"),
    ("constant-set-of-literals", "unknown literal", "values=[Color.Red]", "values=[Color.Blue]"),
    ("functions-are-not-methods", "self in a function", "def matches_id(text: str) -> bool:", "def matches_id(self, text: str) -> bool:"),
]


def _load(text: str, d: str) -> Tuple[str, str]:
    p = pathlib.Path(d) / "meta_model.py"
    p.write_text(text, encoding="utf-8")
    try:
        res, err = run.load_model(p)
    except BaseException as e:  # noqa
        return "raised", f"{type(e).__name__}: {str(e)[:300]}"
    if err is not None:
        return "rejected", err[:400]
    return "accepted", ""


# a second base for the rules that need several parents
BASE_MI = '''\
@abstract
@invariant(lambda self: len(self.ident) >= 1, "Ident non-empty")
class Identifiable(DBC):
    """Represent something identifiable."""

    ident: str
    """Identifier"""

    def __init__(self, ident: str) -> None:
        self.ident = ident


@abstract
@invariant(lambda self: len(self.name) >= 1, "Name non-empty")
class Named(Identifiable):
    """Represent something named."""

    name: str
    """Name"""

    def __init__(self, ident: str, name: str) -> None:
        Identifiable.__init__(self, ident)
        self.name = name


@abstract
@invariant(lambda self: len(self.label) >= 1, "Label non-empty")
class Labeled(Identifiable):
    """Represent something labeled."""

    label: str
    """Label"""

    def __init__(self, ident: str, label: str) -> None:
        Identifiable.__init__(self, ident)
        self.label = label


@invariant(lambda self: len(self.size) >= 1, "Size non-empty")
class Item(Named, Labeled):
    """Represent an item."""

    size: str
    """Size"""

    def __init__(self, ident: str, name: str, label: str, size: str) -> None:
        Named.__init__(self, ident, name)
        Labeled.__init__(self, ident, label)
        self.size = size


__version__ = "dummy"
__xml_namespace__ = "https://dummy.com"
'''

MUTANTS_MI: List[Tuple[str, str, str, str]] = [
    ("unique-invariant-descriptions", "two parents with the same description", '"Label non-empty")', '"Name non-empty")'),
    ("unique-invariant-descriptions", "own description equals an inherited one", '"Size non-empty")', '"Ident non-empty")'),
    ("unique-invariant-descriptions", "parent's description equals the grand parent's", '"Name non-empty")', '"Ident non-empty")'),
    ("no-redeclared-inherited-members", "property of one parent again in the other", "    label: str\n", "    name: str\n"),
    ("no-redeclared-inherited-members", "property of the grand parent again", "    size: str\n", "    ident: str\n"),
    ("constructor-matches-properties", "arguments in the order of the other parent",
     "ident: str, name: str, label: str, size: str", "ident: str, label: str, name: str, size: str"),
    ("acyclic-inheritance", "cycle through two parents", "class Identifiable(DBC):", "class Identifiable(Item, DBC):"),
    ("inheritance-from-existing-classes", "one of two parents unknown", "class Item(Named, Labeled):", "class Item(Named, Unknown):"),
]


def bounded(seed: int = 0, **_: Any) -> Dict[str, Any]:
    failures: List[Dict[str, Any]] = []
    samples: List[Dict[str, Any]] = []
    cases = 0
    rules = set()
    with tempfile.TemporaryDirectory() as d:
        for base_name, base, mutants in (("base", BASE, MUTANTS), ("base with two parents", BASE_MI, MUTANTS_MI)):
            cases += 1
            verdict, detail = _load(base, d)
            if verdict != "accepted":
                failures.append({"mutant": f"<{base_name}>", "observed": f"the {base_name} model is {verdict}: {detail}"})
            for rule, name, old, new in mutants:
                cases += 1
                rules.add(rule)
                if base.count(old) != 1:
                    failures.append({"mutant": name, "observed": "checker error: the replaced text is not unique in the base"})
                    continue
                text = base.replace(old, new)
                verdict, detail = _load(text, d)
                if verdict == "raised":
                    failures.append({"rule": rule, "mutant": name, "property": "C01",
                                     "observed": f"the front end raised {detail}", "meta_model": text})
                elif verdict == "accepted":
                    failures.append({"rule": rule, "mutant": name, "property": "C06",
                                     "observed": "the meta-model breaking the rule is accepted", "meta_model": text})
                elif len(samples) < 3:
                    samples.append({"rule": rule, "mutant": name, "error": detail[:200]})
    return {"cases": cases, "distinct": len(rules), "failures": failures[:6], "exhaustive": False, "samples": samples}


# ---------------------------------------------------------------------------------------------------------------
# C04 (examples): the location reported for a single-rule mutant lies in the top-level statement that was mutated

def _top_level_span(text: str, offset: int) -> Tuple[int, int]:
    """First and last line (1-based) of the top-level statement containing the character offset."""
    import ast
    line = text.count("\n", 0, offset) + 1
    try:
        tree = ast.parse(text)
    except SyntaxError:
        return line, line
    for st in tree.body:
        first = min([st.lineno] + [d.lineno for d in getattr(st, "decorator_list", [])])
        last = getattr(st, "end_lineno", st.lineno)
        if first <= line <= last:
            return first, last
    return line, line


def locations(seed: int = 0, **_: Any) -> Dict[str, Any]:
    import re
    failures: List[Dict[str, Any]] = []
    samples: List[Dict[str, Any]] = []
    cases = 0
    with tempfile.TemporaryDirectory() as d:
        for base, mutants in ((BASE, MUTANTS), (BASE_MI, MUTANTS_MI)):
            for rule, name, old, new in mutants:
                if base.count(old) != 1:
                    continue
                text = base.replace(old, new)
                verdict, detail = _load(text, d)
                if verdict != "rejected":
                    continue
                p = pathlib.Path(d) / "meta_model.py"
                p.write_text(text, encoding="utf-8")
                _, report = run.load_model(p)
                assert report is not None
                lines = [int(m.group(1)) for m in re.finditer(r"At line (\d+) and column (\d+)", report)]
                lines += [int(m.group(1)) for m in re.finditer(r"invalid syntax at line (\d+)", report)]
                first, last = _top_level_span(text, base.index(old))
                cases += 1
                # the wrappers of the report point at line 1; the innermost entries carry the location
                inner = [ln for ln in lines if ln != 1] or lines
                if not inner:
                    failures.append({"property": "C04", "mutant": name, "observed": "the report carries no location",
                                     "report": report[:400]})
                elif not any(first <= ln <= last for ln in inner) and name not in ELSEWHERE:
                    failures.append({"property": "C04", "mutant": name, "mutated_statement_lines": [first, last],
                                     "observed": f"the reported lines {sorted(set(inner))} are all outside the mutated "
                                                 f"top-level statement (lines {first}-{last})", "report": report[:600]})
                elif len(samples) < 3:
                    samples.append({"mutant": name, "lines": sorted(set(inner)), "statement": [first, last]})
    return {"cases": cases, "distinct": cases, "failures": failures[:6], "exhaustive": False, "samples": samples}


# mutants whose error is, by its nature, reported at another construct than the mutated one
ELSEWHERE: Dict[str, str] = {
    "cycle of two": "a cycle has no single offending class: the report names a class of the cycle (the other one)",
    "cycle through two parents": "same",
}


# ---------------------------------------------------------------------------------------------------------------
# C03 (examples): independent errors found in one phase are all reported, none is silently dropped

MULTI: List[Tuple[str, List[Tuple[str, str]], List[str]]] = [
    ("three unsupported elements in one docstring",
     [('"""Represent an item, see also :class:`Named` and :attr:`Color.Red`."""',
       '"""\n    Represent an item.\n\n        A block quote.\n\n    Some **strong** text.\n\n    1. first\n    2. second\n    """')],
     ["docutils.nodes.block_quote", "docutils.nodes.strong", "docutils.nodes.enumerated_list"]),
    ("two unknown types", [("    ident: Id_string\n", "    ident: Unknown_one\n"),
                           ("    color: Optional[Color]\n", "    color: Optional[Unknown_two]\n")],
     ["Unknown_one", "Unknown_two"]),
    ("two dangling parents", [("class Item(Named):", "class Item(Missing_one):"),
                              ("class Named(DBC):", "class Named(Missing_two, DBC):")],
     ["Missing_one", "Missing_two"]),
    ("two reserved names", [("class Color(Enum):", "class Class(Enum):"),
                            ("Default_name: str = constant_str", "While: str = constant_str")],
     ["'Class'", "'While'"]),
    # a reserved type name and a reserved member name in the *same* class: two independent errors
    ("reserved name of a class and of its property", [("class Named(DBC):", "class Object(DBC):"),
                                                       ("class Item(Named):", "class Item(Object):"),
                                                       ("    name: str\n", "    type_name: str\n"),
                                                       ("    def __init__(self, name: str) -> None:\n        self.name = name",
                                                        "    def __init__(self, type_name: str) -> None:\n        self.type_name = type_name")],
     ["'Object'", "'type_name'"]),
]


def multi_errors(seed: int = 0, **_: Any) -> Dict[str, Any]:
    failures: List[Dict[str, Any]] = []
    cases = 0
    with tempfile.TemporaryDirectory() as d:
        for name, reps, phrases in MULTI:
            text = BASE
            for old, new in reps:
                if text.count(old) != 1:
                    failures.append({"property": "C03", "case": name, "observed": "checker error: replaced text not unique"})
                    break
                text = text.replace(old, new)
            cases += 1
            p = pathlib.Path(d) / "meta_model.py"
            p.write_text(text, encoding="utf-8")
            try:
                _, report = run.load_model(p)
            except BaseException as e:  # noqa
                failures.append({"property": "C01", "case": name, "observed": f"the front end raised {type(e).__name__}"})
                continue
            if report is None:
                failures.append({"property": "C06", "case": name, "observed": "accepted"})
                continue
            missing = [ph for ph in phrases if ph not in report]
            if missing:
                failures.append({"property": "C03", "case": name, "observed": f"the report does not mention {missing}: an "
                                 f"independent error was dropped", "report": report[:900]})
            head = report.split("\n")[0]
            if not head.endswith(":") or "\n* " not in report:
                failures.append({"property": "C03", "case": name,
                                 "observed": "the report is not a headline ending in ':' followed by '* ' entries",
                                 "report": report[:300]})
    return {"cases": cases, "distinct": cases, "failures": failures[:6], "exhaustive": False,
            "samples": [{"cases": [m[0] for m in MULTI]}]}
