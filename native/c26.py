"""C26: bounded stand-in -- every small structured flow, linearized by the real code, against the structured flow.

Reference semantics (structured): commands run in order; ``IfTrue``/``IfFalse`` evaluate their condition once;
``For`` runs init, then (condition, body, iteration)*; ``While`` runs (condition, body)*; ``Yield`` yields.
Machine semantics (what cpp/yielding.py renders: ``while(true) switch(state)``): a subroutine runs its statements
in order; ``If`` evaluates the condition and sets the state to on_true / on_false (falls through when that side is
None); ``Jump`` sets the state; ``Yield`` sets the state to the next subroutine and returns to the caller, the next
call resumes there; running off the end of a subroutine continues with the next one; off the last one: finished.

Both are driven by the same sequence of condition outcomes; the observable trace is the sequence of
("cmd", code) / ("cond", text, outcome) / ("yield",) events.  When the outcomes run out both stop.
"""
import itertools
from typing import Any, Dict, Iterator, List, Optional, Sequence, Tuple

from aas_core_codegen.common import Stripped
from aas_core_codegen.yielding import flow as F
from aas_core_codegen.yielding import linear as L


class _OutOfOutcomes(Exception):
    pass


class _Oracle:
    def __init__(self, outcomes: Sequence[bool]) -> None:
        self.outcomes = list(outcomes)
        self.k = 0

    def ask(self) -> bool:
        if self.k >= len(self.outcomes):
            raise _OutOfOutcomes()
        self.k += 1
        return self.outcomes[self.k - 1]


def run_structured(flow: Sequence[Any], outcomes: Sequence[bool]) -> List[Tuple[Any, ...]]:
    trace: List[Tuple[Any, ...]] = []
    o = _Oracle(outcomes)

    def cond(text: str) -> bool:
        v = o.ask()
        trace.append(("cond", str(text), v))
        return v

    def seq(nodes: Sequence[Any]) -> None:
        for n in nodes:
            if isinstance(n, F.Command):
                trace.append(("cmd", str(n.code)))
            elif isinstance(n, F.Yield):
                trace.append(("yield",))
            elif isinstance(n, (F.IfTrue, F.IfFalse)):
                v = cond(n.condition)
                if v == isinstance(n, F.IfTrue):
                    seq(n.body)
                elif n.or_else is not None:
                    seq(n.or_else)
            elif isinstance(n, F.For):
                if n.init is not None:
                    trace.append(("cmd", str(n.init)))
                while cond(n.condition):
                    seq(n.body)
                    trace.append(("cmd", str(n.iteration)))
            elif isinstance(n, F.While):
                while cond(n.condition):
                    seq(n.body)
            else:
                raise AssertionError(n)

    try:
        seq(flow)
        trace.append(("end",))
    except _OutOfOutcomes:
        pass
    return trace


def run_machine(subs: Sequence[Sequence[Any]], outcomes: Sequence[bool], limit: int = 10000) -> List[Tuple[Any, ...]]:
    trace: List[Tuple[Any, ...]] = []
    o = _Oracle(outcomes)
    if not subs:
        return [("end",)]
    index = {sub[0].label: i for i, sub in enumerate(subs)}
    state = subs[0][0].label
    steps = 0
    try:
        while True:  # one iteration = one dispatch of ``switch (state)``
            if state not in index:
                trace.append(("invalid-state", state))
                return trace
            i = index[state]
            jumped = False
            while i < len(subs) and not jumped:
                for st in subs[i]:
                    steps += 1
                    if steps > limit:
                        trace.append(("no-progress",))
                        return trace
                    if isinstance(st, L.Command):
                        trace.append(("cmd", str(st.code)))
                    elif isinstance(st, L.If):
                        v = o.ask()
                        trace.append(("cond", str(st.condition), v))
                        tgt = st.on_true if v else st.on_false
                        if tgt is not None:
                            state, jumped = tgt, True
                            break
                    elif isinstance(st, L.Jump):
                        state, jumped = st.target, True
                        break
                    elif isinstance(st, L.Yield):
                        trace.append(("yield",))
                        # resumes at the next subroutine; the statement after a yield starts one (checked below)
                        if i + 1 < len(subs):
                            state, jumped = subs[i + 1][0].label, True
                        else:
                            trace.append(("end",))
                            return trace
                        break
                    elif isinstance(st, L.Noop):
                        pass
                    else:
                        raise AssertionError(st)
                else:
                    i += 1  # fell off the end of the subroutine: the next case block
            if not jumped:
                trace.append(("end",))
                return trace
    except _OutOfOutcomes:
        return trace


def well_formed(subs: Sequence[Sequence[Any]]) -> Optional[str]:
    labels = []
    for k, sub in enumerate(subs):
        if len(sub) == 0:
            return f"subroutine {k} is empty"
        if sub[0].label != k:
            return f"subroutine {k} starts with label {sub[0].label}: labels are not consecutive from 0"
        if any(st.label is not None for st in list(sub)[1:]):
            return f"subroutine {k} has a label inside"
        for j, st in enumerate(sub):
            if isinstance(st, L.Yield) and j != len(sub) - 1:
                return f"subroutine {k}: a statement follows a yield without starting a subroutine"
        labels.append(k)
    for sub in subs:
        for st in sub:
            tg = [st.target] if isinstance(st, L.Jump) else ([st.on_true, st.on_false] if isinstance(st, L.If) else [])
            for t in tg:
                if t is not None and t not in labels:
                    return f"jump target {t} does not exist (labels 0..{len(labels) - 1})"
            if isinstance(st, L.If) and st.on_true is None and st.on_false is None:
                return "an If without any target"
    return None


def flows(size: int, depth: int, counter: List[int]) -> Iterator[List[Any]]:
    """All sequences of nodes with exactly ``size`` nodes in total (nested ones included)."""
    if size == 0:
        yield []
        return
    for first_size in range(1, size + 1):
        for first in nodes(first_size, depth, counter):
            for rest in flows(size - first_size, depth, counter):
                yield [first] + rest


def _fresh(counter: List[int], prefix: str) -> str:
    counter[0] += 1
    return f"{prefix}{counter[0]}"


def nodes(size: int, depth: int, counter: List[int]) -> Iterator[Any]:
    if size == 1:
        yield F.Command(Stripped(_fresh(counter, "cmd")))
        yield F.Yield()
        if depth > 0:
            # loops may have an empty body
            yield F.While(_fresh(counter, "w"), [])
            yield F.For(_fresh(counter, "f"), _fresh(counter, "it"), [])
            yield F.For(_fresh(counter, "f"), _fresh(counter, "it"), [], init=_fresh(counter, "init"))
        return
    if depth == 0:
        return
    inner = size - 1
    for body in flows(inner, depth - 1, counter):
        yield F.While(_fresh(counter, "w"), body)
        yield F.For(_fresh(counter, "f"), _fresh(counter, "it"), body)
        yield F.For(_fresh(counter, "f"), _fresh(counter, "it"), body, init=_fresh(counter, "init"))
        yield F.IfTrue(_fresh(counter, "c"), body)
        yield F.IfFalse(_fresh(counter, "c"), body)
    for body_size in range(1, inner):
        for body in flows(body_size, depth - 1, counter):
            for or_else in flows(inner - body_size, depth - 1, counter):
                yield F.IfTrue(_fresh(counter, "c"), body, or_else)
                yield F.IfFalse(_fresh(counter, "c"), body, or_else)
    # an explicitly empty else-branch
    for body in flows(inner, depth - 1, counter):
        yield F.IfTrue(_fresh(counter, "c"), body, [])
        yield F.IfFalse(_fresh(counter, "c"), body, [])


def describe(flow: Sequence[Any], ind: str = "") -> str:
    out = []
    for n in flow:
        if isinstance(n, F.Command):
            out.append(f"{ind}{n.code}")
        elif isinstance(n, F.Yield):
            out.append(f"{ind}yield")
        elif isinstance(n, (F.IfTrue, F.IfFalse)):
            out.append(f"{ind}{type(n).__name__}({n.condition}):")
            out.append(describe(n.body, ind + "  "))
            if n.or_else is not None:
                out.append(f"{ind}else:")
                out.append(describe(n.or_else, ind + "  ") if n.or_else else f"{ind}  <empty>")
        elif isinstance(n, F.For):
            out.append(f"{ind}For(init={n.init}; {n.condition}; {n.iteration}):")
            out.append(describe(n.body, ind + "  ") if n.body else f"{ind}  <empty>")
        elif isinstance(n, F.While):
            out.append(f"{ind}While({n.condition}):")
            out.append(describe(n.body, ind + "  ") if n.body else f"{ind}  <empty>")
    return "\n".join(out)


def check_flow(flow: Sequence[Any], n_outcomes: int) -> Optional[Dict[str, Any]]:
    try:
        subs = L.linearize_to_subroutines(flow)
    except BaseException as e:  # noqa
        return {"flow": describe(flow), "observed": f"linearize_to_subroutines raised {type(e).__name__}: {str(e)[:200]}"}
    why = well_formed(subs)
    if why is not None:
        return {"flow": describe(flow), "observed": why, "linear": L.dump([s for sub in subs for s in sub])}
    for outcomes in itertools.product([True, False], repeat=n_outcomes):
        a = run_structured(flow, outcomes)
        b = run_machine(subs, outcomes)
        if a != b:
            return {"flow": describe(flow), "outcomes": list(outcomes), "structured": a, "machine": b,
                    "observed": "the state machine and the structured flow differ",
                    "linear": L.dump([s for sub in subs for s in sub])}
    return None


def bounded(seed: int = 0, max_size: int = 4, depth: int = 3, n_outcomes: int = 5, **_: Any) -> Dict[str, Any]:
    cases = 0
    failures: List[Dict[str, Any]] = []
    for size in range(0, max_size + 1):
        counter = [0]
        for flow in flows(size, depth, counter):
            cases += 1
            bad = check_flow(flow, n_outcomes)
            if bad is not None and len(failures) < 3:
                failures.append(bad)
    sample = [F.For("i < n", "i++", [F.IfTrue("p(i)", [F.Yield()], [F.Command(Stripped("skip"))])], init="i = 0"),
              F.Command(Stripped("done"))]
    return {"cases": cases, "distinct": cases, "failures": failures, "exhaustive": True,
            "samples": [{"flow": describe(sample), "outcome_sequences": 2 ** n_outcomes}]}
