// Declarations standing in for https://github.com/TartanLlama/expected (third-party, not generated): enough for
// ``g++ -fsyntax-only`` of the generated sources that use ``common::expected``.
#pragma once
#include <type_traits>
#include <utility>
namespace tl {
template <class E> class unexpected {
 public:
  explicit unexpected(const E& e);
  explicit unexpected(E&& e);
  const E& value() const&;
  E& value() &;
  E&& value() &&;
};
template <class E> unexpected<typename std::decay<E>::type> make_unexpected(E&& e);
template <class T, class E> class expected {
 public:
  expected();
  template <class U = T, typename std::enable_if<std::is_convertible<U&&, T>::value>::type* = nullptr>
  expected(U&& v);  // NOLINT
  template <class G> expected(const unexpected<G>& u);  // NOLINT
  template <class G> expected(unexpected<G>&& u);  // NOLINT
  bool has_value() const noexcept;
  explicit operator bool() const noexcept;
  T& value() &;
  const T& value() const&;
  T&& value() &&;
  T& operator*() &;
  const T& operator*() const&;
  T&& operator*() &&;
  T* operator->();
  const T* operator->() const;
  E& error() &;
  const E& error() const&;
  E&& error() &&;
};
}  // namespace tl
