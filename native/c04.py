"""Native replay for C04: positions table of LinenoColumner against Python's own ast locations."""
import ast
from typing import Any, Dict, Optional

import asttokens

from aas_core_codegen.common import LinenoColumner, Error


def _expected(text: str, i: int) -> Any:
    line = 1 + text.count("\n", 0, i)
    last = text.rfind("\n", 0, i)
    return (line, i - last)


def replay_positions(obligation: str = "", model: Optional[Dict[str, str]] = None, desc: str = "", **_: Any) -> Dict[str, Any]:
    texts = ["x = 1", "x = 1\ny = 2", "x = 1\n\n  \nclass A:\n    b = 3\n", "a=1\nb=2\nc=3",
             # the module of a file that begins with empty lines starts on a line break
             "\nx = 1", "\n\n\nclass A:\n    b = 3\n", "\n"]
    # characters that str.splitlines() treats as line breaks but Python's tokenizer does not
    for ch in ("\x0b", "\x0c", "\x1c", "\x1d", "\x1e", "\x85", "\u2028", "\u2029"):
        texts.append(f'x = "a{ch}b"\ny = 2\nclass A:\n    z = 3')
        texts.append(f"x = 1  # c{ch}d\ny = 2")
    for text in texts:
        atok = asttokens.ASTTokens(text, parse=True)
        lc = LinenoColumner(atok=atok)
        full = atok.get_text(atok.tree)
        if len(lc.positions) != len(full):
            return {"confirmed": True, "input": text, "observed": f"{len(lc.positions)} positions for {len(full)} characters"}
        for i, ch in enumerate(full):
            if tuple(lc.positions[i]) != _expected(full, i):
                return {"confirmed": True, "input": text,
                        "observed": f"offset {i} ({ch!r}): positions={lc.positions[i]} expected (line, column)={_expected(full, i)}"}
        if full:
            msg = lc.error_message(Error(atok.tree, "m"))
            if msg != "At line 1 and column 1: m":
                return {"confirmed": True, "input": text, "observed": f"{msg!r} for an error located at the module"}
        for node in ast.walk(atok.tree):
            if isinstance(node, ast.stmt):
                msg = lc.error_message(Error(node, "m"))
                want = f"At line {node.lineno} and column {node.col_offset + 1}: m"
                if msg != want:
                    return {"confirmed": True, "input": text, "observed": f"{msg!r} but the statement is at {want!r}"}
    return {"confirmed": False}
