"""Native replay for C25: read_from_directory on real directory trees (also the bounded stand-in)."""
import itertools
import os
import pathlib
import tempfile
from typing import Any, Dict, List, Optional, Tuple

from aas_core_codegen import specific_implementations as SI

# (relative path, content bytes or None for a directory)
ENTRIES: List[Tuple[str, Optional[bytes]]] = [
    ("a.txt", b"  hello \n"),
    ("Types/Foo/bar.cs", b"\tx\n\n"),
    (".gitignore", b"ignored"),
    (".git/config", b"ignored too"),
    ("sub/.hidden/deep/file.txt", b"ignored as well"),
    ("sub/.dotfile", b"ignored"),
    ("empty_dir", None),
    ("bad key.txt", b"x"),
    ("sub/bad-key", b"x"),
    ("latin1.txt", b"caf\xe9"),
    ("trailing\n", b"x"),
    ("unicode_content.txt", "grüß \U0001F600".encode("utf-8")),
    ("Types/Gr\u00f6\u00dfe.txt", b"x"),
    ("sub/vers\u0663.py", b"x"),
    ("\u00dcnicode.txt", b"x"),
    ("1st.txt", b"x"),
    ("Types/2nd/x.py", b"x"),
]

_FIRST = set("abcdefghijklmnopqrstuvwxyzABCDEFGHIJKLMNOPQRSTUVWXYZ_")
_REST = _FIRST | set("0123456789.")


def _valid_key(rel: str) -> bool:
    """A snippet key, written independently of the repository's regular expression: '/'-separated segments, each
    starting with an ASCII letter or '_' and continuing with ASCII letters, digits, '_' or '.'."""
    segments = rel.split("/")
    return all(len(seg) > 0 and seg[0] in _FIRST and all(ch in _REST for ch in seg[1:]) for seg in segments)


def _hidden(rel: str) -> bool:
    return any(part.startswith(".") for part in pathlib.PurePosixPath(rel).parts)


def _expected(entries: List[Tuple[str, Optional[bytes]]]) -> Tuple[Optional[Dict[str, str]], List[str]]:
    mapping: Dict[str, str] = {}
    bad: List[str] = []
    for rel, content in entries:
        if content is None or _hidden(rel):
            continue
        if not _valid_key(rel):
            bad.append(rel)
            continue
        try:
            mapping[rel] = content.decode("utf-8").strip()
        except UnicodeDecodeError:
            bad.append(rel)
    return (None, bad) if bad else (mapping, [])


def _run(entries: List[Tuple[str, Optional[bytes]]]) -> Optional[str]:
    with tempfile.TemporaryDirectory() as d:
        root = pathlib.Path(d)
        for rel, content in entries:
            p = root / rel
            if content is None:
                p.mkdir(parents=True, exist_ok=True)
            else:
                p.parent.mkdir(parents=True, exist_ok=True)
                p.write_bytes(content)
        try:
            mapping, errors = SI.read_from_directory(root)
        except BaseException as e:  # noqa
            return f"raised {type(e).__name__}: {str(e)[:150]}"
        want_map, want_bad = _expected(entries)
        if want_map is not None:
            if errors is not None:
                return f"unexpected errors {errors}"
            if dict(mapping) != want_map:
                return f"mapping {dict(mapping)!r} differs from expected {want_map!r}"
        else:
            if errors is None:
                return f"no error although {want_bad} cannot be loaded"
            if len(errors) != len(want_bad):
                return f"{len(errors)} errors for the {len(want_bad)} bad files {want_bad}"
            for rel in want_bad:
                name = rel.rsplit("/", 1)[-1]
                if not any((name in e) or (repr(name)[1:-1] in e) for e in errors):
                    return f"no error names the file {rel!r}: {errors}"
            for e in errors:
                if len(e) == 0 or e.startswith("\n") or e.startswith("*") or e.endswith("\n"):
                    return f"error entry cannot be put into a report: {e!r}"
    return None


def replay_read(obligation: str = "", model: Optional[Dict[str, str]] = None, desc: str = "", seed: int = 0,
                **_: Any) -> Dict[str, Any]:
    for size in (1, 2):
        for combo in itertools.combinations(ENTRIES, size):
            why = _run(list(combo))
            if why is not None:
                return {"confirmed": True, "input": {"tree": [c[0] for c in combo]}, "observed": why}
    why = _run(ENTRIES)
    if why is not None:
        return {"confirmed": True, "input": {"tree": [c[0] for c in ENTRIES]}, "observed": why}
    return {"confirmed": False, "searched": "all trees of 1 or 2 entries out of 12 representative ones, and all 12"}


def bounded(seed: int = 0, max_size: int = 2, **_: Any) -> Dict[str, Any]:
    cases = 0
    failures: List[Any] = []
    for size in range(0, max_size + 1):
        for combo in itertools.combinations(ENTRIES, size):
            cases += 1
            why = _run(list(combo))
            if why is not None and len(failures) < 3:
                failures.append({"tree": [c[0] for c in combo], "observed": why})
    return {"cases": cases, "distinct": cases, "failures": failures, "exhaustive": True,
            "samples": [{"tree": [c[0] for c in ENTRIES[:4]]}]}
