"""C21 (examples-bounded, schema targets): colliding names in the generated JSON schema and XSD.

The six SDK targets have collision verifiers (under contract, contracts/naming.py, and exercised by native/c21x.py).
The two schema targets have none.  This unit runs them on meta-models whose distinct names fall together under the
targets' naming (``foo_bar`` / ``foo_Bar`` -> ``fooBar``; ``Some_node`` / ``Some_NODE`` -> ``SomeNode`` /
``someNode_t``) and judges the *output* (no use of the generators' own naming functions):

* JSON schema: no object of ``schema.json`` has the same key twice (read with a pair hook), no ``required`` list names
  a property twice; the schema is a valid draft 2019-09 schema;
* XSD: no two top-level types (simple or complex: one symbol space), groups or elements share a ``name``; no content
  model (``xs:sequence`` / ``xs:all`` / ``xs:choice``) has two child elements with one name.

A target that reports an error instead of generating is fine.
"""
import io
import json
import pathlib
import tempfile
import xml.etree.ElementTree as ET
from typing import Any, Dict, List, Tuple

from aas_core_codegen import main as cg_main
from aas_core_codegen import run
from native import c02

TAIL = '''

__version__ = "dummy"
__xml_namespace__ = "https://dummy.com"
'''


def _cls(name: str, props: List[str], parent: str = "DBC", inherited: List[str] = ()) -> str:  # type: ignore
    lines = [f"class {name}({parent}):", f'    """Represent {name}."""', ""]
    for p in props:
        lines += [f"    {p}: int", f'    """Number {p}"""', ""]
    every = list(inherited) + list(props)
    if every:
        lines.append("    def __init__(self, " + ", ".join(f"{p}: int" for p in every) + ") -> None:")
        if inherited:
            lines.append(f"        {parent}.__init__(self, " + ", ".join(inherited) + ")")
        for p in props:
            lines.append(f"        self.{p} = {p}")
    return "\n".join(lines) + "\n\n\n"


ENUM = 'class {name}(Enum):\n    """Represent {name}."""\n\n    A = "a"\n\n\n'
CONSTRAINED = ('@invariant(lambda self: len(self) >= 1, "Non-empty")\nclass {name}(str, DBC):\n'
               '    """Represent {name}."""\n\n\n')

def _user(first: str, second: str) -> str:
    return (_cls("User", ["first", "second"]).replace("first: int", f"first: {first}")
            .replace("second: int", f"second: {second}"))


# (description, meta-model body, the two types that the properties ``first`` and ``second`` of ``User`` refer to / None)
CASES: List[Tuple[str, str]] = [
    ("two properties of one class", _cls("Something", ["foo_bar", "foo_Bar"])),
    ("inherited property and own property",
     "@serialization(with_model_type=True)\n" + _cls("Parent", ["foo_bar"])
     + _cls("Child", ["foo_Bar"], parent="Parent", inherited=["foo_bar"])),
    ("two classes", _cls("Some_node", ["x"]) + _cls("Some_NODE", ["y"]) + _user("Some_node", "Some_NODE")),
    ("two classes with the same content", _cls("Some_node", ["x"]) + _cls("Some_NODE", ["x"])
     + _user("Some_node", "Some_NODE")),
    ("two empty siblings with the same content",
     "@abstract\n@serialization(with_model_type=True)\n" + _cls("Element", ["x"])
     + _cls("Data_element", [], parent="Element", inherited=["x"])
     + _cls("Data_Element", [], parent="Element", inherited=["x"]) + _user("Data_element", "Data_Element")),
    ("class and enumeration", _cls("Some_node", ["x"]) + ENUM.format(name="Some_NODE") + _user("Some_node", "Some_NODE")),
    ("class and constrained primitive", _cls("Some_node", ["x"]) + CONSTRAINED.format(name="Some_NODE")
     + _user("Some_node", "Some_NODE")),
    ("two enumerations with the same literals", ENUM.format(name="Some_kind") + ENUM.format(name="Some_KIND")
     + _user("Some_kind", "Some_KIND")),
    ("two enumerations with different literals", ENUM.format(name="Some_kind")
     + ENUM.format(name="Some_KIND").replace('A = "a"', 'B = "b"') + _user("Some_kind", "Some_KIND")),
    ("no collision (control)", _cls("Some_node", ["foo_bar", "foo_baz"]) + _cls("Other_node", ["foo_bar"])
     + _user("Some_node", "Other_node")),
]

XS = "{http://www.w3.org/2001/XMLSchema}"


def _json_problems(path: pathlib.Path) -> List[str]:
    problems: List[str] = []

    def hook(pairs: List[Tuple[str, Any]]) -> Dict[str, Any]:
        keys = [k for k, _ in pairs]
        for k in sorted(set(keys)):
            if keys.count(k) > 1:
                problems.append(f"an object of schema.json has the key {k!r} {keys.count(k)} times")
        return dict(pairs)

    schema = json.loads(path.read_text(encoding="utf-8"), object_pairs_hook=hook)

    def walk(x: Any) -> None:
        if isinstance(x, dict):
            req = x.get("required")
            if isinstance(req, list):
                for k in sorted(set(map(str, req))):
                    if [str(r) for r in req].count(k) > 1:
                        problems.append(f"a 'required' list names {k!r} twice")
            for key in ("enum", "oneOf", "anyOf", "allOf"):
                lst = x.get(key)
                if isinstance(lst, list):
                    dumped = [json.dumps(v, sort_keys=True) for v in lst]
                    for v in sorted(set(dumped)):
                        if dumped.count(v) > 1:
                            problems.append(f"a {key!r} list of schema.json has the entry {v[:60]} {dumped.count(v)} times")
            for v in x.values():
                walk(v)
        elif isinstance(x, list):
            for v in x:
                walk(v)
    walk(schema)
    # two different types of the meta-model may not end up as one definition: the properties ``first`` and ``second`` of
    # the class User refer to different types (unless one is inlined)
    for name, definition in (schema.get("definitions") or {}).items():
        dumped = json.dumps(definition, sort_keys=True)
        if '"first"' in dumped and '"second"' in dumped:
            def find(d: Any, key: str) -> Any:
                if isinstance(d, dict):
                    if key in d and isinstance(d[key], dict):
                        return d[key]
                    for v in d.values():
                        r = find(v, key)
                        if r is not None:
                            return r
                elif isinstance(d, list):
                    for v in d:
                        r = find(v, key)
                        if r is not None:
                            return r
                return None
            a, b = find(definition, "first"), find(definition, "second")
            if a is not None and b is not None and "$ref" in json.dumps(a) and json.dumps(a, sort_keys=True) == json.dumps(b, sort_keys=True):
                problems.append(f"the properties first and second of {name} refer to two different types of the "
                                f"meta-model, yet to one definition of schema.json: {json.dumps(a)[:80]}")
    try:
        import jsonschema
        jsonschema.Draft201909Validator.check_schema(schema)
    except ImportError:
        pass
    except Exception as e:  # noqa
        problems.append(f"schema.json is not a valid draft 2019-09 schema: {str(e)[:120]}")
    return problems


def _xsd_problems(path: pathlib.Path) -> List[str]:
    problems: List[str] = []
    tree = ET.parse(str(path))
    top = tree.getroot()
    spaces: Dict[str, List[str]] = {"type": [], "group": [], "element": [], "attributeGroup": []}
    for ch in top:
        tag = ch.tag.replace(XS, "")
        name = ch.get("name")
        if name is None:
            continue
        if tag in ("simpleType", "complexType"):
            spaces["type"].append(name)
        elif tag in spaces:
            spaces[tag].append(name)
    for space, names in spaces.items():
        for n in sorted(set(names)):
            if names.count(n) > 1:
                problems.append(f"schema.xsd declares the top-level {space} {n!r} {names.count(n)} times")
    firsts = [e for e in top.iter(XS + "element") if e.get("name") == "first"]
    seconds = [e for e in top.iter(XS + "element") if e.get("name") == "second"]
    if firsts and seconds:
        def shape(e: Any) -> str:
            return ET.tostring(e, encoding="unicode").replace('name="first"', "").replace('name="second"', "")
        if (firsts[0].get("type") is not None or len(firsts[0])) and shape(firsts[0]) == shape(seconds[0]):
            problems.append(f"the elements first and second refer to two different types of the meta-model, yet to one "
                            f"definition of schema.xsd: {shape(firsts[0])[:120]}")
    for model in top.iter():
        if model.tag in (XS + "sequence", XS + "all", XS + "choice"):
            names = [e.get("name") for e in model if e.tag == XS + "element" and e.get("name") is not None]
            for n in sorted(set(names)):
                if names.count(n) > 1:
                    problems.append(f"a content model of schema.xsd has the element {n!r} {names.count(n)} times")
    return problems


def bounded(seed: int = 0, **_: Any) -> Dict[str, Any]:
    failures: List[Dict[str, Any]] = []
    cases = 0
    accepted = 0
    generated = 0
    outcomes: List[str] = []
    with tempfile.TemporaryDirectory() as d:
        root = pathlib.Path(d)
        (root / "snippets").mkdir()
        for fn, content in c02.SNIPPETS.items():
            (root / "snippets" / fn).write_text(content, encoding="utf-8")
        for k, (name, body) in enumerate(CASES):
            model = root / f"meta_model_{k}.py"
            model.write_text(body + TAIL, encoding="utf-8")
            try:
                _, why = run.load_model(model)
            except BaseException as e:  # noqa
                failures.append({"case": name, "target": "<front end>", "observed": f"raised {type(e).__name__}"})
                continue
            if why is not None:
                if "control" in name:
                    failures.append({"case": name, "target": "<front end>",
                                     "observed": f"checker error: the control model is rejected: {why[:200]}"})
                continue
            accepted += 1
            for t in ("jsonschema", "xsd"):
                cases += 1
                out = root / f"out_{k}_{t}"
                out.mkdir()
                so, se = io.StringIO(), io.StringIO()
                try:
                    rc = cg_main.execute(cg_main.Parameters(model_path=model, target=cg_main.Target(t),
                                                            snippets_dir=root / "snippets", output_dir=out,
                                                            cache_model=False), stdout=so, stderr=se)
                except BaseException as e:  # noqa
                    failures.append({"case": name, "target": t, "kind": "raised",
                                     "observed": f"the generator raised {type(e).__name__}: {str(e)[:160]}"})
                    continue
                outcomes.append(f"{name} / {t}: " + ("generated" if rc == 0 else "error reported: " + se.getvalue().split("\n")[1][:100] if se.getvalue().count("\n") > 1 else "error"))
                if rc != 0:
                    if "control" in name:
                        failures.append({"case": name, "target": t, "kind": "spurious",
                                         "observed": f"the control model is not generated: {se.getvalue()[:200]}"})
                    continue  # an error instead of colliding names: what the property asks for
                generated += 1
                problems = _json_problems(out / "schema.json") if t == "jsonschema" else _xsd_problems(out / "schema.xsd")
                for p in problems[:3]:
                    failures.append({"case": name, "target": t, "kind": "collision", "observed": p,
                                     "meta_model": body + TAIL})
    if generated == 0 or accepted < 2:
        failures.append({"observed": f"vacuous: {accepted} models accepted by the front end, {generated} schemas generated"})
    return {"cases": cases, "distinct": accepted, "failures": failures, "exhaustive": False,
            "samples": [{"cases": [c[0] for c in CASES], "schemas_generated": generated, "outcomes": outcomes}]}
