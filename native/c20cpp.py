"""C20 (bounded, C++ target): the generated C++ sources that need no third-party library pass ``g++ -fsyntax-only``.

For the meta-models of ``native/c20java.py`` the C++ target is run; when it succeeds, every file under ``src/`` except
``jsonization.cpp`` and ``xmlization.cpp`` (nlohmann/json, expat) is checked with ``g++ -std=c++17 -fsyntax-only``
against the generated headers.  ``tl/expected.hpp`` (third-party, not generated) is replaced by declarations
(``native/stubs/tl/expected.hpp``); with C++17 ``std::optional`` is used.  g++ checks more than syntax here (types,
overloads): a rejected file is reported with g++'s first error.  The generated tests (Catch2) are not checked.
"""
import io
import pathlib
import shutil
import subprocess
import tempfile
from typing import Any, Dict, List

from aas_core_codegen import main as cg_main

from native import c02, c20java

HERE = pathlib.Path(__file__).resolve().parent
NEED_LIBRARIES = {"jsonization.cpp", "xmlization.cpp"}


def _check(args: Any) -> Any:
    what, path, include = args
    cp = subprocess.run(["g++", "-std=c++17", "-fsyntax-only", "-I", include, "-I", str(HERE / "stubs"), path],
                        capture_output=True, text=True, timeout=900)
    if cp.returncode == 0:
        return None
    errors = [ln for ln in cp.stderr.splitlines() if "error" in ln]
    # g++ has no parse-only mode: errors of the lexer and the parser count for the property ("parses"), errors of the
    # semantic analysis (redefinition, no matching function, ...) are recorded in the evidence only
    syntactic = [ln for ln in errors if any(m in ln for m in (
        "expected ", "stray ", "missing terminating", "unterminated", "does not name a type", "was not declared",
        "extra ", "invalid suffix", "exponent has no digits", "too large", "not valid in", "before "))]
    first = (syntactic or errors or [cp.stderr[:200]])[0]
    return {"model": what, "kind": "syntax" if syntactic else "semantic", "file": pathlib.Path(path).name,
            "observed": "g++ -fsyntax-only rejects the generated file: " + first[-260:]}


def bounded(seed: int = 0, jobs: int = 16, **_: Any) -> Dict[str, Any]:
    import multiprocessing as mp
    if shutil.which("g++") is None:
        return {"cases": 0, "distinct": 0, "failures": [], "exhaustive": False,
                "error": "g++ is not installed: generated C++ cannot be checked"}
    failures: List[Dict[str, Any]] = []
    skipped: List[str] = []
    tasks: List[Any] = []
    generated = 0
    with tempfile.TemporaryDirectory() as d:
        root = pathlib.Path(d)
        (root / "snippets").mkdir()
        for name, content in c02.SNIPPETS.items():
            (root / "snippets" / name).write_text(content, encoding="utf-8")
        for k, (what, text) in enumerate(c20java._models(ascii_only=True)):
            model = root / f"model_{k}.py"
            model.write_text(text, encoding="utf-8")
            out = root / f"out_{k}"
            out.mkdir()
            stdout, stderr = io.StringIO(), io.StringIO()
            try:
                rc = cg_main.execute(cg_main.Parameters(model_path=model, target=cg_main.Target.CPP,
                                                        snippets_dir=root / "snippets", output_dir=out,
                                                        cache_model=False), stdout=stdout, stderr=stderr)
            except BaseException as e:  # noqa
                skipped.append(f"{what}: the generator raised {type(e).__name__} (C02, not C20)")
                continue
            if rc != 0:
                skipped.append(f"{what}: the generator reported errors: {stderr.getvalue()[:160]}")
                continue
            generated += 1
            for p in sorted((out / "src").glob("*.cpp")):
                if p.name not in NEED_LIBRARIES:
                    tasks.append((what, str(p), str(out / "include")))
        with mp.get_context("fork").Pool(jobs) as pool:
            res = pool.map(_check, tasks, chunksize=1)
    semantic = [f"{r['model']}: {r['file']}: {r['observed'][-200:]}" for r in res if r is not None and r["kind"] == "semantic"]
    failures = [r for r in res if r is not None and r["kind"] == "syntax"]
    if generated == 0:
        failures.append({"observed": "the C++ target did not succeed on any of the models", "skipped": skipped})
    return {"cases": len(tasks), "distinct": generated, "failures": failures[:6], "exhaustive": False,
            "samples": [{"models": generated, "cpp_files_checked": len(tasks), "not_generated": skipped[:4],
                         "semantic_errors_beyond_the_property": semantic[:4]}]}
