"""C21 (examples-bounded): constants, verification functions and accessor names in the six SDK targets.

The collision verifiers under contract compare type names and, inside a type, properties, methods and literals.  This
unit exercises what lies outside them: two constants / two verification functions whose names differ only in the letter
case of a part, and a property whose accessor name equals the name of a method (``foo`` / ``get_foo``).  As in
native/c21x.py the generated names are taken from the target's own naming functions (the functions that the generators
call for these entities, see NAMES below): if both names become one identifier the run has to fail with an error (and
must not raise); if they do not, nothing has to be reported.
"""
import importlib
import io
import pathlib
import re
import tempfile
from typing import Any, Callable, Dict, List, Optional, Tuple

from aas_core_codegen import main as cg_main
from aas_core_codegen import run
from aas_core_codegen.common import Identifier
from native import c02

TAIL = '''

__version__ = "dummy"
__xml_namespace__ = "https://dummy.com"
'''

CLS = '''\
class Something(DBC):
    """Represent something."""

    amount: int
    """Number"""

    def __init__(self, amount: int) -> None:
        self.amount = amount


'''

TARGETS = ["cpp", "csharp", "golang", "java", "python", "typescript"]

# which naming function a target's generator applies to a constant / a verification function
CONSTANT_FN = {"cpp": "constant_name", "csharp": "property_name", "golang": "constant_name", "java": "property_name",
               "python": "constant_name", "typescript": "constant_name"}
FUNCTION_FN = {"cpp": "function_name", "csharp": "method_name", "golang": "function_name", "java": "method_name",
               "python": "function_name", "typescript": "function_name"}


def _constants(a: str, b: str) -> str:
    return (CLS + f'{a}: str = constant_str(value="a", description="first")\n'
            f'{b}: str = constant_str(value="b", description="second")\n')


def _functions(a: str, b: str) -> str:
    def fn(name: str) -> str:
        return (f'@verification\n@implementation_specific\ndef {name}(text: str) -> bool:\n'
                f'    """Check {name}."""\n\n\n')
    return fn(a) + fn(b) + CLS


def _getter(prop: str, method: str) -> str:
    return (f'class Something(DBC):\n    """Represent something."""\n\n    {prop}: int\n    """Number"""\n\n'
            f'    @implementation_specific\n    def {method}(self) -> int:\n        """Give the amount."""\n\n'
            f'    def __init__(self, {prop}: int) -> None:\n        self.{prop} = {prop}\n\n\n')


def _names(target: str, kind: str, a: str, b: str) -> Tuple[List[str], List[str]]:
    naming = importlib.import_module(f"aas_core_codegen.{target}.naming")
    if kind == "constants":
        f = getattr(naming, CONSTANT_FN[target])
        return [str(f(Identifier(a)))], [str(f(Identifier(b)))]
    if kind == "functions":
        f = getattr(naming, FUNCTION_FN[target])
        return [str(f(Identifier(a)))], [str(f(Identifier(b)))]
    # accessors of the property ``a`` against the method ``b``
    accessors = []
    for fn in ("getter_name", "mutable_getter_name", "setter_name", "property_name"):
        g: Optional[Callable[[Identifier], Identifier]] = getattr(naming, fn, None)
        if g is not None:
            accessors.append(str(g(Identifier(a))))
    return accessors, [str(naming.method_name(Identifier(b)))]


CASES: List[Tuple[str, str, str, str, str]] = [
    ("two constants differing in letter case", "constants", "Some_URL", "Some_url", _constants("Some_URL", "Some_url")),
    ("two constants differing in an underscore", "constants", "Some_thing", "Something_1",
     _constants("Some_thing", "Something_1")),
    ("two verification functions differing in letter case", "functions", "is_URL", "is_url", _functions("is_URL", "is_url")),
    ("property and a method named like its getter", "accessors", "foo", "get_foo", _getter("foo", "get_foo")),
    ("property and a method named like its setter", "accessors", "foo", "set_foo", _getter("foo", "set_foo")),
]


def bounded(seed: int = 0, **_: Any) -> Dict[str, Any]:
    failures: List[Dict[str, Any]] = []
    cases = 0
    accepted = 0
    collisions_exercised = 0
    inconclusive: List[str] = []
    with tempfile.TemporaryDirectory() as d:
        root = pathlib.Path(d)
        (root / "snippets").mkdir()
        for fn, content in c02.SNIPPETS.items():
            (root / "snippets" / fn).write_text(content, encoding="utf-8")
        # implementation-specific functions / methods need a snippet in most targets: a missing one is reported as an
        # error of its own, which would hide the absence of a collision error -- so a run only counts as "reported" when
        # stderr mentions one of the two names together with a word for a clash
        for k, (what, kind, a, b, body) in enumerate(CASES):
            model = root / f"meta_model_{k}.py"
            model.write_text(body + TAIL, encoding="utf-8")
            try:
                _, why = run.load_model(model)
            except BaseException as e:  # noqa
                failures.append({"case": what, "target": "<front end>", "observed": f"raised {type(e).__name__}"})
                continue
            if why is not None:
                continue
            accepted += 1
            for t in TARGETS:
                first, second = _names(t, kind, a, b)
                collide = bool(set(first) & set(second))
                cases += 1
                out = root / f"out_{k}_{t}"
                out.mkdir()
                # implementation-specific functions and methods need snippets, each target its own: they are created on
                # demand from the keys that the target reports as missing (the content is irrelevant for a name clash)
                raised = None
                for _round in range(6):
                    so, se = io.StringIO(), io.StringIO()
                    try:
                        rc = cg_main.execute(cg_main.Parameters(model_path=model, target=cg_main.Target(t),
                                                                snippets_dir=root / "snippets", output_dir=out,
                                                                cache_model=False), stdout=so, stderr=se)
                    except BaseException as e:  # noqa
                        raised = e
                        break
                    missing = [m for line in se.getvalue().splitlines() if "missing" in line
                               for m in re.findall(r"[A-Za-z_]\w*(?:/[A-Za-z_]\w*)*\.[a-z]+", line)
                               if not m.endswith(".py") or "/" in m]
                    missing = [m for m in missing if not (root / "snippets" / m).exists() and m != model.name]
                    if rc == 0 or not missing:
                        break
                    for m in missing:
                        (root / "snippets" / m).parent.mkdir(parents=True, exist_ok=True)
                        (root / "snippets" / m).write_text("dummy", encoding="utf-8")
                if raised is not None:
                    failures.append({"case": what, "target": t, "kind": "raised",
                                     "observed": f"the generator raised {type(raised).__name__}: {str(raised)[:160]}"})
                    continue
                if not collide:
                    continue
                collisions_exercised += 1
                err = se.getvalue().lower()
                reported = rc != 0 and any(w in err for w in ("collid", "collision", "conflict", "duplicate", "already"))
                if not reported and rc != 0:
                    inconclusive.append(f"{what} / {t}: {se.getvalue()[:120]}")
                    continue
                if not reported:
                    failures.append({"case": what, "target": t, "kind": "accepted" if rc == 0 else "other-error-only",
                                     "generated_names": sorted(set(first) & set(second)),
                                     "observed": f"{a!r} and {b!r} both become {sorted(set(first) & set(second))[0]!r} in "
                                                 f"the {t} code, yet no collision is reported"
                                                 + ("" if rc == 0 else f" (the run fails for another reason: "
                                                                       f"{se.getvalue()[:160]})")})
    if accepted == 0 or collisions_exercised == 0:
        failures.append({"observed": f"vacuous: {accepted} models accepted, {collisions_exercised} collisions exercised"})
    return {"cases": cases, "distinct": accepted, "failures": failures, "exhaustive": False,
            "samples": [{"cases": [c[0] for c in CASES], "collisions_exercised": collisions_exercised,
                         "inconclusive_because_of_another_error": inconclusive}]}
