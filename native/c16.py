"""Native replays for C16 / C01 / C02: the real regex parser, renderer and the front-end pattern check."""
import re
from typing import Any, Dict, List, Optional

from aas_core_codegen.parse import retree

NEAR_MISSES = [
    "^*", "{", "a{", "a{}", "a{3,2}", "a{,}", "[a-", "[--a]", "[a--b]", "[", "[]", "[^", "[^\\U0001F600]",
    "[^\\U00010000]", "[\\uffff-\\U00010010]", "(", ")", "(?", "a|", "|", "\\", "\\x1", "\\u12", "\\U0001", "$*",
    "^^", "a**", "a+?", "a{2}{3}", "[z-a]", "[\\d]", "\\w", "(a|b", "a)", "}", "a}", "[a-z", "[-]", "[-a-]",
    "^a^b$", "a{ 1 , 2 }", "a{1,}", "\t", "a\nb",
]


def _pattern_of(model: Optional[Dict[str, str]]) -> Optional[str]:
    v = (model or {}).get("pattern", "")
    if isinstance(v, str) and v.startswith("seq:"):
        body = v[4:]
        try:
            return "".join(chr(int(x)) for x in body.split(",") if x != "")
        except ValueError:
            return None
    return None


def replay_parse(obligation: str = "", model: Optional[Dict[str, str]] = None, **_: Any) -> Dict[str, Any]:
    cands: List[str] = []
    p = _pattern_of(model)
    if p is not None:
        cands.append(p)
        # the counter-model of a unit on an inner function (cursor in the middle of a pattern): embed it
        cands += ["a{" + p + "}", "a{1," + p + "}", "[" + p + "]", "(" + p + ")", "a" + p]
    cands += NEAR_MISSES
    cands += ["a{\u00b2}", "a{1,\u00b3}", "a{\u0663}"]
    for pat in cands:
        try:
            regex, error = retree.parse([pat])
        except BaseException as e:  # noqa
            return {"confirmed": True, "input": {"pattern": pat},
                    "observed": f"retree.parse raised {type(e).__name__}: {str(e)[:160]}"}
        if (regex is None) == (error is None):
            return {"confirmed": True, "input": {"pattern": pat}, "observed": "neither / both of tree and error"}
        if error is not None:
            try:
                retree.render_pointer(error.cursor)
            except BaseException as e:  # noqa
                return {"confirmed": True, "input": {"pattern": pat},
                        "observed": f"render_pointer raised {type(e).__name__}: {str(e)[:160]}"}
    return {"confirmed": False, "searched": f"{len(cands)} patterns"}
