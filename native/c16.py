"""Native replays for C16 / C01 / C02: the real regex parser, renderer and the front-end pattern check."""
import re
from typing import Any, Dict, List, Optional

from aas_core_codegen.parse import retree

NEAR_MISSES = [
    "^*", "{", "a{", "a{}", "a{3,2}", "a{,}", "[a-", "[--a]", "[a--b]", "[", "[]", "[^", "[^\\U0001F600]",
    "[^\\U00010000]", "[\\uffff-\\U00010010]", "(", ")", "(?", "a|", "|", "\\", "\\x1", "\\u12", "\\U0001", "$*",
    "^^", "a**", "a+?", "a{2}{3}", "[z-a]", "[\\d]", "\\w", "(a|b", "a)", "}", "a}", "[a-z", "[-]", "[-a-]",
    "^a^b$", "a{ 1 , 2 }", "a{1,}", "\t", "a\nb",
]


def _pattern_of(model: Optional[Dict[str, str]]) -> Optional[str]:
    v = (model or {}).get("pattern", "")
    if isinstance(v, str) and v.startswith("seq:"):
        body = v[4:]
        try:
            return "".join(chr(int(x)) for x in body.split(",") if x != "")
        except ValueError:
            return None
    return None


def replay_parse(obligation: str = "", model: Optional[Dict[str, str]] = None, **_: Any) -> Dict[str, Any]:
    cands: List[str] = []
    p = _pattern_of(model)
    if p is not None:
        cands.append(p)
        # the counter-model of a unit on an inner function (cursor in the middle of a pattern): embed it
        cands += ["a{" + p + "}", "a{1," + p + "}", "[" + p + "]", "(" + p + ")", "a" + p]
    cands += NEAR_MISSES
    cands += ["a{\u00b2}", "a{1,\u00b3}", "a{\u0663}"]
    for pat in cands:
        try:
            regex, error = retree.parse([pat])
        except BaseException as e:  # noqa
            return {"confirmed": True, "input": {"pattern": pat},
                    "observed": f"retree.parse raised {type(e).__name__}: {str(e)[:160]}"}
        if (regex is None) == (error is None):
            return {"confirmed": True, "input": {"pattern": pat}, "observed": "neither / both of tree and error"}
        if error is not None:
            try:
                retree.render_pointer(error.cursor)
            except BaseException as e:  # noqa
                return {"confirmed": True, "input": {"pattern": pat},
                        "observed": f"render_pointer raised {type(e).__name__}: {str(e)[:160]}"}
    return {"confirmed": False, "searched": f"{len(cands)} patterns"}


# ---------------------------------------------------------------------------------------------------------------
# bounded stand-in for the "faithful" half of C16: render(parse(p)) is a valid Python regex with the language of p,
# and parsing the rendering gives the same tree

F_ATOMS = ["a", "b", ".", "[ab]", "[^a]", "[a-c]", "[\\^-a]", "[a\\-c]", "[\\]a]", "[-a]", "[a-]", "\\x62", "\\u0062",
           "\\U00000062", "\\.", "\\\\", "\\}", "\\{", "}", "]", "(a|b)", "(ab)", "(|a)", "(a)", " ", "\\t", "\\n", "\\$",
           "\\^", "\\|", "\\(", "\\[", "\\*", "\\+", "\\?", "\\-", "-", ",", "\"", "'", "/"]
F_QUANTS = ["", "*", "+", "?", "{2}", "{1,2}", "{2,}", "{,2}", "{0}", "{ 1 , 2 }", "{3 4}", "{1,2,3}", "*?", "+?", "??",
            "{1,2}?"]
F_ALPHABET = "abc^-]}{ .\\"


def _faithful(pat: str, max_len: int) -> Optional[Dict[str, Any]]:
    import itertools
    import re
    try:
        regex, error = retree.parse([pat])
    except BaseException as e:  # noqa
        return {"pattern": pat, "clause": "never-raises", "observed": f"parse raised {type(e).__name__}: {str(e)[:120]}"}
    if error is not None:
        return None
    try:
        orig = re.compile(pat)
    except re.error as e:
        return {"pattern": pat, "clause": "accepted-patterns-are-python-regexes",
                "observed": f"accepted by the parser but re.compile rejects the pattern itself: {e}"}
    try:
        rendered = retree.render(regex)
    except BaseException as e:  # noqa
        return {"pattern": pat, "clause": "never-raises", "observed": f"render raised {type(e).__name__}: {str(e)[:120]}"}
    if not all(isinstance(x, str) for x in rendered) or len(rendered) > 1:
        return {"pattern": pat, "clause": "rendering-is-one-string", "observed": repr(rendered)}
    text = "".join(rendered)  # the empty pattern renders to no piece at all
    try:
        again = re.compile(text)
    except re.error as e:
        return {"pattern": pat, "rendered": text, "clause": "rendering-is-a-valid-python-regex", "observed": str(e)}
    for n in range(0, max_len + 1):
        for chars in itertools.product(F_ALPHABET, repeat=n):
            s = "".join(chars)
            if (orig.fullmatch(s) is None) != (again.fullmatch(s) is None):
                return {"pattern": pat, "rendered": text, "text": s, "clause": "same-language",
                        "observed": f"original matches: {orig.fullmatch(s) is not None}, rendering matches: "
                                    f"{again.fullmatch(s) is not None}"}
    try:
        regex2, error2 = retree.parse([text])
    except BaseException as e:  # noqa
        return {"pattern": pat, "rendered": text, "clause": "never-raises", "observed": f"re-parse raised {type(e).__name__}"}
    if error2 is not None:
        return {"pattern": pat, "rendered": text, "clause": "rendering-parses-again", "observed": error2.message}
    if retree.dump(regex2) != retree.dump(regex):
        return {"pattern": pat, "rendered": text, "clause": "re-parsing-gives-the-same-tree",
                "observed": "the trees differ", "tree": retree.dump(regex)[:300], "tree_again": retree.dump(regex2)[:300]}
    return None


def _faithful_task(args: Any) -> Optional[Dict[str, Any]]:
    return _faithful(*args)


def faithful(seed: int = 0, max_terms: int = 2, max_len: int = 2, jobs: int = 16, **_: Any) -> Dict[str, Any]:
    import itertools
    import multiprocessing as mp
    terms = [a + q for a in F_ATOMS for q in F_QUANTS]
    pats: List[str] = []
    for k in range(0, max_terms + 1):
        for combo in itertools.product(terms, repeat=k) if k <= 1 else itertools.product(terms, F_ATOMS):
            pats.append("".join(combo))
    pats += ["^" + p + "$" for p in pats[: len(terms) + 1]] + NEAR_MISSES
    with mp.get_context("fork").Pool(jobs) as pool:
        res = pool.map(_faithful_task, [(p, max_len) for p in pats], chunksize=64)
    import re as _re
    by_clause: Dict[str, Dict[str, Any]] = {}
    for r in res:
        if r is not None:
            # one representative per clause and kind of pattern; blanks inside a counted quantifier are one kind
            kind = "blank-in-quantifier" if _re.search(r"\{[^}]*[ \t][^}]*\}", r["pattern"]) else r["pattern"][:1]
            r["kind"] = kind
            by_clause.setdefault(r["clause"] + "|" + kind, r)
    failures = sorted(by_clause.values(), key=lambda r: r["kind"] == "blank-in-quantifier")
    return {"cases": len(pats), "distinct": len(pats), "failures": failures[:8], "exhaustive": True,
            "n_failing": sum(1 for r in res if r is not None),
            "samples": [{"pattern": "[a-c]{1,2}", "strings": f"all over {F_ALPHABET!r} up to length {max_len}"}]}
