"""Read modules of the repository under verification as text, on every run.

Nothing is imported or executed: the verified text is the source text of /repo
(``VERIF_REPO``), parsed with :mod:`ast`.  The loader resolves names across modules
(``from x import y as z``), finds functions, methods and classes, and harvests the
repository's own icontract decorators so that they become static obligations.
"""
import ast
import hashlib
import os
import pathlib
from typing import Dict, List, Optional, Tuple, Any

REPO = pathlib.Path(os.environ.get("VERIF_REPO", "/repo"))
VERIF = pathlib.Path(__file__).resolve().parent.parent


class Binding:
    """What a name at module level is bound to."""

    def __init__(self, kind: str, **kw: Any) -> None:
        self.kind = kind  # import | from | func | class | assign
        self.__dict__.update(kw)


class FuncInfo:
    def __init__(self, module: "Module", node: ast.FunctionDef, cls: Optional["ClassInfo"]):
        self.module = module
        self.node = node
        self.cls = cls
        self.name = node.name
        self.qualname = f"{module.name}:{cls.name + '.' if cls else ''}{node.name}"
        self.is_static = False
        self.is_classmethod = False
        self.is_property = False
        self.is_overload = False
        self.is_abstract = False
        self.requires: List[Tuple[ast.Lambda, str]] = []
        self.ensures: List[Tuple[ast.Lambda, str]] = []
        self.snapshots: List[ast.Call] = []
        for dec in node.decorator_list:
            dname = _dec_name(dec)
            if dname in ("staticmethod",):
                self.is_static = True
            elif dname == "classmethod":
                self.is_classmethod = True
            elif dname in ("property", "functools.cached_property", "cached_property"):
                self.is_property = True
            elif dname in ("overload", "typing.overload"):
                self.is_overload = True
            elif dname in ("abc.abstractmethod", "abstractmethod"):
                self.is_abstract = True
            elif dname in ("require", "icontract.require") and isinstance(dec, ast.Call):
                lam, desc = _contract_lambda(dec)
                if lam is not None:
                    self.requires.append((lam, desc))
            elif dname in ("ensure", "icontract.ensure") and isinstance(dec, ast.Call):
                lam, desc = _contract_lambda(dec)
                if lam is not None:
                    self.ensures.append((lam, desc))
        # decorators are applied bottom-up; icontract checks the *last listed* first.
        # Order is irrelevant for us: all are obligations.

    @property
    def params(self) -> List[ast.arg]:
        a = self.node.args
        return list(a.posonlyargs) + list(a.args)

    def source_segment(self) -> str:
        return ast.get_source_segment(self.module.source, self.node) or ""

    def sha(self) -> str:
        s = getattr(self, "_sha", None)
        if s is None:
            s = hashlib.sha256(self.source_segment().encode()).hexdigest()[:16]
            self._sha = s
        return s

    def __repr__(self) -> str:
        return f"<Func {self.qualname}>"


def _dec_name(dec: ast.expr) -> str:
    if isinstance(dec, ast.Call):
        dec = dec.func
    parts = []
    while isinstance(dec, ast.Attribute):
        parts.append(dec.attr)
        dec = dec.value
    if isinstance(dec, ast.Name):
        parts.append(dec.id)
    return ".".join(reversed(parts))


def _contract_lambda(dec: ast.Call) -> Tuple[Optional[ast.Lambda], str]:
    lam = None
    desc = ""
    if dec.args and isinstance(dec.args[0], ast.Lambda):
        lam = dec.args[0]
    for kw in dec.keywords:
        if kw.arg == "condition" and isinstance(kw.value, ast.Lambda):
            lam = kw.value
        if kw.arg == "description" and isinstance(kw.value, ast.Constant):
            desc = str(kw.value.value)
    if len(dec.args) > 1 and isinstance(dec.args[1], ast.Constant):
        desc = str(dec.args[1].value)
    return lam, desc


class ClassInfo:
    def __init__(self, module: "Module", node: ast.ClassDef):
        self.module = module
        self.node = node
        self.name = node.name
        self.qualname = f"{module.name}:{node.name}"
        self.methods: Dict[str, FuncInfo] = {}
        self.class_attrs: Dict[str, ast.expr] = {}
        self.annotations: Dict[str, ast.expr] = {}
        self.nested: Dict[str, "ClassInfo"] = {}
        self.invariants: List[Tuple[ast.Lambda, str]] = []
        for dec in node.decorator_list:
            if _dec_name(dec) in ("invariant", "icontract.invariant") and isinstance(dec, ast.Call):
                lam, desc = _contract_lambda(dec)
                if lam is not None:
                    self.invariants.append((lam, desc))
        for st in node.body:
            if isinstance(st, ast.FunctionDef):
                fi = FuncInfo(module, st, self)
                if fi.is_overload:
                    continue
                self.methods[st.name] = fi
            elif isinstance(st, ast.Assign):
                for t in st.targets:
                    if isinstance(t, ast.Name):
                        self.class_attrs[t.id] = st.value
            elif isinstance(st, ast.AnnAssign) and isinstance(st.target, ast.Name):
                self.annotations[st.target.id] = st.annotation
                if st.value is not None:
                    self.class_attrs[st.target.id] = st.value
            elif isinstance(st, ast.ClassDef):
                self.nested[st.name] = ClassInfo(module, st)
        self._bases: Optional[List[Any]] = None
        self._mro: Optional[List["ClassInfo"]] = None

    # bases: list of ClassInfo or str (external / builtin name)
    def bases(self) -> List[Any]:
        if self._bases is None:
            res = []
            for b in self.node.bases:
                r = self.module.resolve_expr_to_class(b)
                res.append(r)
            self._bases = res
        return self._bases

    def mro(self) -> List["ClassInfo"]:
        if self._mro is None:
            out: List[ClassInfo] = [self]
            for b in self.bases():
                if isinstance(b, ClassInfo):
                    for c in b.mro():
                        if c not in out:
                            out.append(c)
            self._mro = out
        return self._mro

    def external_bases(self) -> List[str]:
        out = []
        for c in self.mro():
            for b in c.bases():
                if isinstance(b, str):
                    out.append(b)
        return out

    def is_subclass_of(self, other: "ClassInfo") -> bool:
        return other in self.mro()

    def is_enum(self) -> bool:
        return any(b in ("enum.Enum", "Enum") for b in self.external_bases())

    def is_str_subclass(self) -> bool:
        return "str" in self.external_bases()

    def is_exception(self) -> bool:
        return any(b.endswith("Error") or b.endswith("Exception") for b in self.external_bases())

    def enum_members(self) -> List[Tuple[str, ast.expr]]:
        out = []
        for st in self.node.body:
            if isinstance(st, ast.Assign) and len(st.targets) == 1 and isinstance(st.targets[0], ast.Name):
                out.append((st.targets[0].id, st.value))
        return out

    def find_method(self, name: str) -> Optional[FuncInfo]:
        for c in self.mro():
            if name in c.methods:
                return c.methods[name]
        return None

    def find_class_attr(self, name: str) -> Optional[Tuple["ClassInfo", ast.expr]]:
        for c in self.mro():
            if name in c.class_attrs:
                return c, c.class_attrs[name]
        return None

    def field_annotation(self, name: str) -> Optional[Tuple["ClassInfo", ast.expr]]:
        """Annotation of an instance attribute: class-level annotation, or the
        annotation of the ``__init__`` parameter assigned to ``self.<name>``."""
        for c in self.mro():
            if name in c.annotations:
                return c, c.annotations[name]
            init = c.methods.get("__init__")
            if init is not None:
                for st in ast.walk(init.node):
                    tgt = None
                    val = None
                    if isinstance(st, ast.Assign) and len(st.targets) == 1:
                        tgt, val = st.targets[0], st.value
                    elif isinstance(st, ast.AnnAssign):
                        tgt, val = st.target, st.value
                        if (isinstance(tgt, ast.Attribute) and isinstance(tgt.value, ast.Name)
                                and tgt.value.id == "self" and tgt.attr == name):
                            return c, st.annotation
                    if (isinstance(tgt, ast.Attribute) and isinstance(tgt.value, ast.Name)
                            and tgt.value.id == "self" and tgt.attr == name):
                        if isinstance(val, ast.Name):
                            for p in init.params:
                                if p.arg == val.id and p.annotation is not None:
                                    return c, p.annotation
                            # a local of __init__ declared with a type comment / annotation
                            for st2 in ast.walk(init.node):
                                if (isinstance(st2, ast.Assign) and st2.type_comment and len(st2.targets) == 1
                                        and isinstance(st2.targets[0], ast.Name) and st2.targets[0].id == val.id):
                                    return c, ast.parse(st2.type_comment, mode="eval").body
                                if (isinstance(st2, ast.AnnAssign) and isinstance(st2.target, ast.Name)
                                        and st2.target.id == val.id):
                                    return c, st2.annotation
                        # type comment?
                        return c, None  # type: ignore
        return None

    def __repr__(self) -> str:
        return f"<Class {self.qualname}>"


class Module:
    def __init__(self, loader: "Loader", name: str, path: pathlib.Path):
        self.loader = loader
        self.name = name
        self.path = path
        self.source = path.read_text(encoding="utf-8")
        self.tree = ast.parse(self.source, filename=str(path), type_comments=True)
        self.is_package = path.name == "__init__.py"
        self.bindings: Dict[str, Binding] = {}
        self.classes: Dict[str, ClassInfo] = {}
        self.funcs: Dict[str, FuncInfo] = {}
        self._scan(self.tree.body)

    def _scan(self, body: List[ast.stmt]) -> None:
        for st in body:
            if isinstance(st, ast.Import):
                for al in st.names:
                    if al.asname:
                        self.bindings[al.asname] = Binding("import", module=al.name)
                    else:
                        top = al.name.split(".")[0]
                        self.bindings[top] = Binding("import", module=top)
            elif isinstance(st, ast.ImportFrom):
                mod = st.module or ""
                if st.level:
                    base = self.name.split(".")
                    if not self.is_package:
                        base = base[:-1]
                    base = base[: len(base) - (st.level - 1)]
                    mod = ".".join(base + ([mod] if mod else []))
                for al in st.names:
                    self.bindings[al.asname or al.name] = Binding("from", module=mod, name=al.name)
            elif isinstance(st, ast.FunctionDef):
                fi = FuncInfo(self, st, None)
                if not fi.is_overload:
                    self.funcs[st.name] = fi
                    self.bindings[st.name] = Binding("func", func=fi)
            elif isinstance(st, ast.ClassDef):
                ci = ClassInfo(self, st)
                self.classes[st.name] = ci
                self.bindings[st.name] = Binding("class", cls=ci)
            elif isinstance(st, ast.Assign):
                for t in st.targets:
                    if isinstance(t, ast.Name):
                        self.bindings[t.id] = Binding("assign", value=st.value, node=st)
            elif isinstance(st, ast.AnnAssign) and isinstance(st.target, ast.Name):
                if st.value is not None:
                    self.bindings[st.target.id] = Binding("assign", value=st.value, node=st)
            elif isinstance(st, ast.If):
                # e.g. ``if sys.version_info >= (3, 10):`` -- take both arms
                self._scan(st.orelse)
                self._scan(st.body)
            elif isinstance(st, ast.Try):
                self._scan(st.body)

    MUTATORS = {"append", "extend", "insert", "add", "update", "setdefault", "pop", "popitem", "clear", "remove",
                "discard", "sort", "reverse", "appendleft"}

    def mutated_globals(self) -> Dict[str, int]:
        """Module-level names whose value some function of this module changes (``global`` rebinding, item
        assignment / deletion, mutator method calls): name -> line of the first such site.  Their value at a call is
        not the initial one."""
        cached = getattr(self, "_mutated_globals", None)
        if cached is not None:
            return cached
        out: Dict[str, int] = {}
        assigned = {n for n, b in self.bindings.items() if b.kind == "assign"}
        for fn in ast.walk(self.tree):
            if not isinstance(fn, (ast.FunctionDef, ast.AsyncFunctionDef, ast.Lambda)):
                continue
            body = fn.body if isinstance(fn.body, list) else [fn.body]
            nodes = [n for b in body for n in ast.walk(b)]
            declared = {nm for n in nodes if isinstance(n, ast.Global) for nm in n.names}
            local = {n.id for n in nodes if isinstance(n, ast.Name) and isinstance(n.ctx, ast.Store)} - declared
            local |= {a.arg for a in fn.args.args + fn.args.kwonlyargs + fn.args.posonlyargs}
            for n in nodes:
                name = None
                if isinstance(n, ast.Name) and isinstance(n.ctx, ast.Store) and n.id in declared:
                    name = n.id
                elif isinstance(n, ast.Subscript) and isinstance(n.ctx, (ast.Store, ast.Del)) \
                        and isinstance(n.value, ast.Name):
                    name = n.value.id
                elif isinstance(n, ast.Call) and isinstance(n.func, ast.Attribute) and n.func.attr in self.MUTATORS \
                        and isinstance(n.func.value, ast.Name):
                    name = n.func.value.id
                if name is not None and name in assigned and name not in local:
                    out.setdefault(name, getattr(n, "lineno", 0))
        self._mutated_globals = out  # type: ignore
        return out

    def lookup(self, name: str, _depth: int = 0) -> Optional[Tuple[str, Any]]:
        """Resolve a module-level name.

        Returns one of ``('module', Module|str)``, ``('func', FuncInfo)``,
        ``('class', ClassInfo)``, ``('assign', (Module, expr))``, ``('external', dotted)``.
        """
        b = self.bindings.get(name)
        if b is None:
            return None
        if b.kind == "func":
            return ("func", b.func)
        if b.kind == "class":
            return ("class", b.cls)
        if b.kind == "assign":
            if name in self.mutated_globals():
                return ("mutable-global", (self, b.node, self.mutated_globals()[name]))
            return ("assign", (self, b.value))
        if b.kind == "import":
            m = self.loader.module(b.module)
            if m is not None:
                return ("module", m)
            return ("external", b.module)
        if b.kind == "from":
            m = self.loader.module(b.module)
            if m is None:
                return ("external", f"{b.module}.{b.name}")
            if _depth > 20:
                return None
            r = m.lookup(b.name, _depth + 1)
            if r is not None:
                return r
            sub = self.loader.module(f"{b.module}.{b.name}")
            if sub is not None:
                return ("module", sub)
            return None
        return None

    def resolve_expr_to_class(self, e: ast.expr) -> Any:
        """Resolve a base-class / annotation expression to ClassInfo or a dotted str."""
        if isinstance(e, ast.Name):
            r = self.lookup(e.id)
            if r is None:
                return e.id
            if r[0] == "class":
                return r[1]
            if r[0] == "external":
                return r[1]
            return e.id
        if isinstance(e, ast.Attribute):
            base = self.resolve_expr_to_module(e.value)
            if isinstance(base, Module):
                r = base.lookup(e.attr)
                if r is not None and r[0] == "class":
                    return r[1]
                if r is not None and r[0] == "external":
                    return r[1]
                return f"{base.name}.{e.attr}"
            if isinstance(base, str):
                return f"{base}.{e.attr}"
            # nested class?  e.g. Outer.Inner
            bc = self.resolve_expr_to_class(e.value)
            if isinstance(bc, ClassInfo) and e.attr in bc.nested:
                return bc.nested[e.attr]
            return _dec_name(e)
        if isinstance(e, ast.Subscript):
            return self.resolve_expr_to_class(e.value)
        return ast.dump(e)

    def resolve_expr_to_module(self, e: ast.expr) -> Any:
        if isinstance(e, ast.Name):
            r = self.lookup(e.id)
            if r is None:
                return None
            if r[0] == "module":
                return r[1]
            if r[0] == "external":
                return r[1]
            return None
        if isinstance(e, ast.Attribute):
            base = self.resolve_expr_to_module(e.value)
            if isinstance(base, Module):
                r = base.lookup(e.attr)
                if r is not None and r[0] == "module":
                    return r[1]
                sub = self.loader.module(f"{base.name}.{e.attr}")
                return sub
            if isinstance(base, str):
                return f"{base}.{e.attr}"
        return None


class Loader:
    def __init__(self, repo: pathlib.Path = REPO, extra_roots: Optional[List[pathlib.Path]] = None):
        self.repo = repo
        self.roots = [repo] + (extra_roots or [VERIF])
        self.cache: Dict[str, Optional[Module]] = {}
        self._all_classes: Optional[List[ClassInfo]] = None

    def module(self, name: str) -> Optional[Module]:
        if name in self.cache:
            return self.cache[name]
        top = name.split(".")[0]
        if top not in ("aas_core_codegen", "specs", "contracts"):
            self.cache[name] = None
            return None
        m = None
        for root in self.roots:
            base = root.joinpath(*name.split("."))
            p1 = base.with_suffix(".py")
            p2 = base / "__init__.py"
            if p1.is_file():
                m = Module(self, name, p1)
                break
            if p2.is_file():
                m = Module(self, name, p2)
                break
        self.cache[name] = m
        return m

    def func(self, qual: str) -> FuncInfo:
        """``pkg.mod:func`` or ``pkg.mod:Class.method``"""
        modname, _, rest = qual.partition(":")
        m = self.module(modname)
        if m is None:
            raise KeyError(f"module not found: {modname}")
        parts = rest.split(".")
        if len(parts) == 1:
            if parts[0] not in m.funcs:
                raise KeyError(f"function not found: {qual}")
            return m.funcs[parts[0]]
        ci = m.classes.get(parts[0])
        if ci is None:
            raise KeyError(f"class not found: {qual}")
        for p in parts[1:-1]:
            ci = ci.nested[p]
        if parts[-1] not in ci.methods:
            raise KeyError(f"method not found: {qual}")
        return ci.methods[parts[-1]]

    def cls(self, qual: str) -> ClassInfo:
        modname, _, rest = qual.partition(":")
        m = self.module(modname)
        if m is None:
            raise KeyError(modname)
        r = m.lookup(rest.split(".")[0])
        if r is None or r[0] != "class":
            raise KeyError(qual)
        ci = r[1]
        for p in rest.split(".")[1:]:
            ci = ci.nested[p]
        return ci

    def subclasses_in(self, module: Module, base: ClassInfo) -> List[ClassInfo]:
        return [c for c in module.classes.values() if c.is_subclass_of(base)]

    def all_subclasses(self, base: ClassInfo) -> List[ClassInfo]:
        """All classes, in already-loaded modules plus the base's own module, deriving
        from ``base`` (including itself), in a deterministic order."""
        out = []
        self.module(base.module.name)
        for name in sorted(k for k, v in self.cache.items() if v is not None):
            m = self.cache[name]
            assert m is not None
            for cname in m.classes:
                c = m.classes[cname]
                if c.is_subclass_of(base):
                    out.append(c)
                for n in c.nested.values():
                    if n.is_subclass_of(base):
                        out.append(n)
        return out
