"""Statement execution, loops with invariants (mixin of Interp)."""
import ast
from typing import Any, Dict, List, Optional, Set, Tuple

import z3

from .contract import Loop
from .exprs import BreakEx, ContinueEx, Frame, RaiseEx, ReturnEx
from .loader import ClassInfo, FuncInfo
from .path import PathEnd
from .values import (SEQ, NONE, V, VBool, VBuiltin, VClassRef, VDict, VEnum, VExc, VExt, VFloat, VFuncRef,
                     VInt, VLambda, VList, VNoneT, VOpaque, VOpt, VPrimUnion, VSet, VStr, VStream, VTuple,
                     ConcObj, SymObj, Unsupported, seq_of_py)

EXC_BASES = {
    "BaseException": None, "Exception": "BaseException", "ValueError": "Exception",
    "UnicodeError": "ValueError", "UnicodeDecodeError": "UnicodeError", "UnicodeEncodeError": "UnicodeError",
    "AssertionError": "Exception", "LookupError": "Exception", "KeyError": "LookupError",
    "IndexError": "LookupError", "TypeError": "Exception", "RuntimeError": "Exception",
    "NotImplementedError": "RuntimeError", "OSError": "Exception", "IOError": "OSError",
    "FileNotFoundError": "OSError", "SyntaxError": "Exception", "StopIteration": "Exception",
    "ViolationError": "AssertionError", "icontract.ViolationError": "AssertionError",
    "AttributeError": "Exception", "RecursionError": "RuntimeError", "ZeroDivisionError": "Exception",
    "pickle.UnpicklingError": "Exception", "EOFError": "Exception",
}


def exc_matches(name: str, handler: str) -> bool:
    n: Optional[str] = name.split(".")[-1] if name not in EXC_BASES else name
    h = handler.split(".")[-1] if handler not in EXC_BASES else handler
    seen = 0
    while n is not None and seen < 20:
        if n == h:
            return True
        n = EXC_BASES.get(n)
        seen += 1
    return False


class Stmts:
    def ex_block(self, stmts: List[ast.stmt], fr: Frame) -> None:
        for st in stmts:
            self.ex(st, fr)

    def ex(self, st: ast.stmt, fr: Frame) -> None:
        m = getattr(self, "ex_" + type(st).__name__, None)
        if m is None:
            raise Unsupported(f"statement {type(st).__name__} at line {st.lineno}")
        m(st, fr)

    def ex_Pass(self, st: ast.Pass, fr: Frame) -> None:
        pass

    def ex_Expr(self, st: ast.Expr, fr: Frame) -> None:
        if isinstance(st.value, ast.Constant):
            return  # docstring
        self.ev(st.value, fr)

    def ex_Import(self, st: ast.Import, fr: Frame) -> None:
        from .values import VModuleRef
        for al in st.names:
            m = self.engine.loader.module(al.name)
            if al.asname:
                fr.env[al.asname] = VModuleRef(m if m is not None else al.name)
            else:
                top = al.name.split(".")[0]
                mt = self.engine.loader.module(top)
                fr.env[top] = VModuleRef(mt if mt is not None else top)

    def ex_ImportFrom(self, st: ast.ImportFrom, fr: Frame) -> None:
        from .values import VModuleRef
        mod = st.module or ""
        m = self.engine.loader.module(mod)
        for al in st.names:
            nm = al.asname or al.name
            if m is None:
                fr.env[nm] = self.external_value(f"{mod}.{al.name}")
                continue
            r = m.lookup(al.name)
            if r is not None:
                fr.env[nm] = self.binding_value(r, al.name)
                continue
            sub = self.engine.loader.module(f"{mod}.{al.name}")
            if sub is None:
                raise Unsupported(f"import {mod}.{al.name}")
            fr.env[nm] = VModuleRef(sub)

    def ex_Global(self, st: ast.Global, fr: Frame) -> None:
        raise Unsupported("global statement")

    def ex_Nonlocal(self, st: ast.Nonlocal, fr: Frame) -> None:
        raise Unsupported("nonlocal statement")

    def ex_FunctionDef(self, st: ast.FunctionDef, fr: Frame) -> None:
        fi = FuncInfo(fr.module, st, None)
        fi.qualname = self.func_label(fr) + ".<locals>." + st.name
        ref = VFuncRef(fi)
        ref.closure = fr  # type: ignore
        fr.env[st.name] = ref

    def ex_Assign(self, st: ast.Assign, fr: Frame) -> None:
        v = self.ev(st.value, fr)
        if st.type_comment and len(st.targets) == 1 and isinstance(st.targets[0], ast.Name):
            fr.var_types.setdefault(st.targets[0].id, st.type_comment)
        for t in st.targets:
            self.assign_target(t, v, fr, st)

    def ex_AnnAssign(self, st: ast.AnnAssign, fr: Frame) -> None:
        if isinstance(st.target, ast.Name):
            fr.var_types.setdefault(st.target.id, st.annotation)
        if st.value is not None:
            self.assign_target(st.target, self.ev(st.value, fr), fr, st)

    def ex_AugAssign(self, st: ast.AugAssign, fr: Frame) -> None:
        load = ast.copy_location(type(st.target)(**{**{f: getattr(st.target, f) for f in st.target._fields},
                                                    "ctx": ast.Load()}), st.target)
        cur = self.ev(load, fr)
        val = self.ev(st.value, fr)
        if isinstance(cur, VList) and isinstance(st.op, ast.Add):
            self.list_extend(cur, val, fr, st)
            return
        self.assign_target(st.target, self.binop(st.op, cur, val, st, fr), fr, st)

    def assign_target(self, t: ast.expr, v: V, fr: Frame, node: Any) -> None:
        if isinstance(t, ast.Name):
            fr.env[t.id] = v
        elif isinstance(t, (ast.Tuple, ast.List)):
            items = self.unpack(v, len(t.elts), node, fr)
            for tt, vv in zip(t.elts, items):
                self.assign_target(tt, vv, fr, node)
        elif isinstance(t, ast.Attribute):
            self.setattr(self.ev(t.value, fr), t.attr, v, node, fr)
        elif isinstance(t, ast.Subscript):
            base = self.ev(t.value, fr)
            base = self.unwrap(base, node, fr)
            idx = self.ev(t.slice, fr)
            if isinstance(base, VDict):
                self.dict_set(base, idx, v, fr, node)
            elif isinstance(base, VList):
                i = self.as_int(idx, node, fr)
                ln = base.length()
                self.ob(z3.And(i >= -ln, i < ln), "index", node, fr, "list assignment index in range")
                ic = z3.simplify(i)
                if base.is_concrete() and z3.is_int_value(ic):
                    base.tail[ic.as_long()] = v
                else:
                    raise Unsupported("list item assignment at symbolic index")
            else:
                raise Unsupported("subscript assignment")
        elif isinstance(t, ast.Starred):
            raise Unsupported("starred assignment")
        else:
            raise Unsupported("assignment target")

    def unpack(self, v: V, n: int, node: Any, fr: Frame) -> List[V]:
        v = self.unwrap(v, node, fr, "unpacked value")
        if isinstance(v, VTuple):
            if len(v.items) != n:
                self.ob(z3.BoolVal(False), "unpack", node, fr, f"unpack {len(v.items)} values into {n}")
                raise PathEnd("unpack arity")
            return v.items
        if isinstance(v, VList):
            self.ob(v.length() == n, "unpack", node, fr, f"unpack into {n} targets")
            return [self.list_get(v, z3.IntVal(k), node, fr) for k in range(n)]
        raise Unsupported(f"unpack of {v!r}")

    def ex_Return(self, st: ast.Return, fr: Frame) -> None:
        raise ReturnEx(self.ev(st.value, fr) if st.value is not None else NONE)

    def ex_Break(self, st: ast.Break, fr: Frame) -> None:
        raise BreakEx()

    def ex_Continue(self, st: ast.Continue, fr: Frame) -> None:
        raise ContinueEx()

    def ex_Assert(self, st: ast.Assert, fr: Frame) -> None:
        c = self.truthy(self.ev(st.test, fr))
        if fr.in_spec:
            self.path.assume(c)
            return
        self.ob(c, "assert", st, fr, "assert " + ast.unparse(st.test)[:80])

    def ex_Raise(self, st: ast.Raise, fr: Frame) -> None:
        if st.exc is None:
            cur = getattr(fr, "current_exc", None)
            if cur is None:
                raise Unsupported("bare raise outside handler")
            raise RaiseEx(cur, st)
        v = self.ev(st.exc, fr)
        if isinstance(v, VClassRef):
            v = VExc(v.cls.name, [], v.cls)
        if isinstance(v, VBuiltin):
            v = VExc(v.name, [])
        if isinstance(v, ConcObj) and v.cls.is_exception():
            e = VExc(v.cls.name, [], v.cls)
            e.obj = v  # type: ignore
            v = e
        if not isinstance(v, VExc):
            raise Unsupported(f"raise of {v!r}")
        raise RaiseEx(v, st)

    def ex_If(self, st: ast.If, fr: Frame) -> None:
        c = self.truthy(self.ev(st.test, fr))
        taken = self.path.branch(c)
        if fr.depth == 0 and fr.func is not None and not fr.in_spec:
            self.path.notes.append(f"{st.lineno - fr.func.node.lineno}:{'T' if taken else 'F'}")
        if taken:
            self.ex_block(st.body, fr)
        else:
            self.ex_block(st.orelse, fr)

    def ex_With(self, st: ast.With, fr: Frame) -> None:
        managed: List[Any] = []
        for item in st.items:
            v = self.ev(item.context_expr, fr)
            if item.optional_vars is not None:
                self.assign_target(item.optional_vars, v, fr, st)
            managed.append(v)
        try:
            self.ex_block(st.body, fr)
        finally:
            # leaving the block (normally or not) closes the managed library objects: a ghost event
            for v in reversed(managed):
                if isinstance(v, VExt):
                    h = self.engine.ext_methods.get((v.kind.split(".")[-1], "__exit__"))
                    if h is not None:
                        h(self, v, [], {}, st, fr)

    def ex_Try(self, st: ast.Try, fr: Frame) -> None:
        def run_finally() -> None:
            if st.finalbody:
                self.ex_block(st.finalbody, fr)

        try:
            try:
                self.ex_block(st.body, fr)
            except RaiseEx as e:
                for h in st.handlers:
                    names = self.handler_names(h, fr)
                    if names is None or any(exc_matches(e.exc.cls_name, n) for n in names):
                        if h.name:
                            fr.env[h.name] = e.exc
                        fr.current_exc = e.exc  # type: ignore
                        self.ex_block(h.body, fr)
                        break
                else:
                    raise
            else:
                self.ex_block(st.orelse, fr)
        except (RaiseEx, ReturnEx, BreakEx, ContinueEx):
            run_finally()
            raise
        run_finally()

    def handler_names(self, h: ast.ExceptHandler, fr: Frame) -> Optional[List[str]]:
        if h.type is None:
            return None
        ts = h.type.elts if isinstance(h.type, ast.Tuple) else [h.type]
        out = []
        for t in ts:
            out.append(ast.unparse(t))
        return out

    def ex_Delete(self, st: ast.Delete, fr: Frame) -> None:
        raise Unsupported("del")

    # ---------------------------------------------------------------------- loops
    def loop_spec(self, fr: Frame, node: Any = None) -> Optional[Loop]:
        """The contract's spec of this loop; loops are numbered statically in source order
        (for / while / generator expressions of the function, 1-based)."""
        if fr.contract is None or fr.func is None:
            return None
        order = getattr(fr.func, "_loop_order", None)
        if order is None:
            nodes = [n for b in fr.func.node.body for n in ast.walk(b)
                     if isinstance(n, (ast.For, ast.While, ast.GeneratorExp))]
            nodes.sort(key=lambda n: (n.lineno, n.col_offset))
            order = {id(n): k + 1 for k, n in enumerate(nodes)}
            fr.func._loop_order = order  # type: ignore
        return fr.contract.loops.get(order.get(id(node), -1))

    def comp_spec(self, fr: Frame, node: Any) -> Optional[Loop]:
        """The contract's spec of this list comprehension (numbered like loops, among the list comprehensions)."""
        f: Optional[Frame] = fr
        while f is not None and f.func is None:
            f = f.parent
        if f is None or f.contract is None or not getattr(f.contract, "comps", None):
            return None
        order = getattr(f.func, "_comp_order", None)
        if order is None:
            nodes = [n for b in f.func.node.body for n in ast.walk(b) if isinstance(n, ast.ListComp)]
            nodes.sort(key=lambda n: (n.lineno, n.col_offset))
            order = {id(n): k + 1 for k, n in enumerate(nodes)}
            f.func._comp_order = order  # type: ignore
        return f.contract.comps.get(order.get(id(node), -1))

    def comp_as_loop(self, node: ast.ListComp, spec: Loop, fr: Frame) -> V:
        """``[e for x in xs if c]`` as ``out = []; for x in xs: if c: out.append(e)`` cut at the invariants of
        ``spec``; the list being built is visible to the invariants under the ghost name ``spec.acc``."""
        if len(node.generators) != 1:
            raise Unsupported("list comprehension with several generators under a loop contract")
        g = node.generators[0]
        it = self.ev(g.iter, fr)
        view = self.iter_view(it, node, fr)
        fr.env[spec.acc] = VList([])
        if spec.acc_type is not None:
            fr.var_types[spec.acc] = spec.acc_type
        cf = Frame(fr.module, None, {}, fr, fr.extra_modules)
        cf.depth = fr.depth

        def body() -> None:
            for c in g.ifs:
                if not self.path.branch(self.truthy(self.ev(c, cf))):
                    return
            out = fr.env[spec.acc]
            assert isinstance(out, VList)
            self.list_append(out, self.ev(node.elt, cf), node, fr)
        self.cut_for(spec, it, view, node, fr, bind=lambda elem: self.assign_target(g.target, elem, cf, node),
                     run_body=body, default_names=[spec.acc], run_orelse=lambda: None)
        return fr.env[spec.acc]

    def assigned_names(self, body: List[ast.stmt]) -> Tuple[List[str], List[str]]:
        """(rebound names, names mutated through methods/subscripts) in ``body``."""
        rebound: List[str] = []
        mutated: List[str] = []

        def tgt(t: ast.expr) -> None:
            if isinstance(t, ast.Name):
                if t.id not in rebound:
                    rebound.append(t.id)
            elif isinstance(t, (ast.Tuple, ast.List)):
                for e in t.elts:
                    tgt(e)
            elif isinstance(t, ast.Starred):
                tgt(t.value)
            elif isinstance(t, (ast.Subscript, ast.Attribute)):
                b = t.value
                while isinstance(b, (ast.Subscript, ast.Attribute)):
                    b = b.value
                if isinstance(b, ast.Name) and b.id not in mutated:
                    mutated.append(b.id)

        for st in body:
            for n in ast.walk(st):
                if isinstance(n, ast.Assign):
                    for t in n.targets:
                        tgt(t)
                elif isinstance(n, (ast.AugAssign, ast.AnnAssign)):
                    tgt(n.target)
                elif isinstance(n, (ast.For, ast.comprehension)):
                    if isinstance(n, ast.For):
                        tgt(n.target)
                elif isinstance(n, ast.With):
                    for it in n.items:
                        if it.optional_vars is not None:
                            tgt(it.optional_vars)
                elif isinstance(n, ast.NamedExpr):
                    tgt(n.target)
                elif isinstance(n, ast.Call) and isinstance(n.func, ast.Attribute):
                    if n.func.attr in ("append", "extend", "add", "update", "write", "insert", "pop",
                                       "remove", "clear", "setdefault", "discard", "sort", "reverse"):
                        b = n.func.value
                        while isinstance(b, (ast.Subscript, ast.Attribute)):
                            b = b.value
                        if isinstance(b, ast.Name) and b.id not in mutated:
                            mutated.append(b.id)
        return rebound, mutated

    def havoc_value(self, name: str, cur: Optional[V], fr: Frame) -> V:
        """A fresh value of the same type as ``cur`` (in place for mutable containers)."""
        ann = fr.var_types.get(name)
        hint = self.path.fresh_name(f"{name}'")
        if isinstance(cur, VList):
            ln = z3.Int(hint + ".len")
            self.path.add_fact(ln >= 0)
            elem_ann = cur.elem_ann
            if elem_ann is None and ann is not None:
                try:
                    a, m = self.parse_ann(ann, fr.module)
                    if isinstance(a, ast.Subscript):
                        elem_ann = (a.slice, fr.module)
                except SyntaxError:
                    pass
            sample = cur.tail[0] if cur.tail else None

            def get(idx: Any) -> V:
                if elem_ann is not None and elem_ann[0] is not None:
                    return self.mk_sym(elem_ann[0], elem_ann[1], hint + "[]", (idx,))
                if sample is not None:
                    return self.fresh_like(sample, hint + "[]", (idx,))
                return VOpaque(hint + "[]")

            cur.tail = []
            cur.base_len = ln
            cur.base_get = get
            cur.elem_ann = elem_ann
            cur.log = []
            for k in list(cur.folds):
                cur.folds[k] = self.fresh_like_term(cur.folds[k], hint + "." + k)
            return cur
        if isinstance(cur, VStream):
            cur.prefix = z3.Const(hint + ".written", SEQ)
            cur.log = []
            return cur
        if isinstance(cur, VDict):
            cur.items = []
            cur.havocked = True
            cur.log = []  # type: ignore
            d_ann = None
            if ann is not None:
                try:
                    a, m = self.parse_ann(ann, fr.module)
                    if isinstance(a, ast.Subscript) and isinstance(a.slice, ast.Tuple):
                        d_ann = a.slice.elts
                except SyntaxError:
                    pass
            if d_ann is not None:
                nd = self.mk_dict(d_ann[0], d_ann[1], fr.module, hint, ())
                cur.base_get = nd.base_get
                cur.key_ann = nd.key_ann  # type: ignore
            else:
                def get2(key: V) -> V:
                    raise Unsupported(f"read of havocked dict {name} without declared type")
                cur.base_get = get2
            return cur
        if isinstance(cur, VSet):
            raise Unsupported(f"havoc of set {name}")
        if ann is not None:
            try:
                return self.mk_sym(ann, fr.module, hint)
            except SyntaxError:
                pass
        if cur is None or isinstance(cur, VNoneT):
            raise Unsupported(f"cannot havoc {name}: no declared type")
        return self.fresh_like(cur, hint, ())

    def fresh_like_term(self, t: Any, name: str) -> Any:
        if isinstance(t, V):
            return self.fresh_like(t, name, ())
        return z3.Const(name, t.sort())

    def fresh_like(self, cur: V, name: str, args: Tuple[Any, ...]) -> V:
        if isinstance(cur, VInt):
            return VInt(self.leaf(z3.IntSort(), name, args))
        if isinstance(cur, VBool):
            return VBool(self.leaf(z3.BoolSort(), name, args))
        if isinstance(cur, VStr):
            return VStr([self.leaf(SEQ, name, args)], is_bytes=cur.is_bytes)
        if isinstance(cur, VOpt):
            return VOpt(self.leaf(z3.BoolSort(), name + "?none", args), self.fresh_like(cur.val, name, args))
        if isinstance(cur, VTuple):
            return VTuple([self.fresh_like(x, f"{name}.{i}", args) for i, x in enumerate(cur.items)])
        if isinstance(cur, VEnum):
            idx = self.leaf(z3.IntSort(), name, args)
            self.path.add_fact(z3.And(idx >= 0, idx < len(cur.cls.enum_members())))
            return VEnum(cur.cls, idx)
        if isinstance(cur, SymObj):
            o = SymObj(self.leaf(z3.IntSort(), name, args), cur.static)
            self.assume_tag(o)
            return o
        if isinstance(cur, ConcObj):
            o = SymObj(self.leaf(z3.IntSort(), name, args), (cur.cls,))
            self.assume_tag(o)
            return o
        if isinstance(cur, VExt):
            return VExt(cur.kind, self.leaf(z3.IntSort(), name, args))
        if isinstance(cur, VFloat):
            return VFloat()
        if isinstance(cur, VOpaque):
            return VOpaque(name)
        raise Unsupported(f"havoc of {cur!r}")

    def havoc_field(self, obj: V, field: str, fr: Frame) -> None:
        """Havoc one field of a concrete object (frame: every other field keeps its value)."""
        if not isinstance(obj, ConcObj):
            raise Unsupported(f"havoc of field {field} of {obj!r}")
        cur = obj.fields.get(field)
        fa = obj.cls.field_annotation(field)
        hint = self.path.fresh_name(f"{obj.cls.name}.{field}'")
        if fa is not None and fa[1] is not None:
            obj.fields[field] = self.mk_sym(fa[1], fa[0].module, hint)
        elif cur is not None and not isinstance(cur, VNoneT):
            obj.fields[field] = self.fresh_like(cur, hint, ())
        else:
            raise Unsupported(f"cannot havoc field {field}: no declared type")

    def do_havoc(self, names: List[str], fr: Frame) -> None:
        for n in names:
            if "." in n:
                base, _, field = n.rpartition(".")
                self.havoc_field(self.eval_spec(base, fr), field, fr)
                continue
            cur = fr.lookup(n)
            if cur is None and n not in fr.var_types:
                continue  # first bound inside the loop: dead at loop head
            if isinstance(cur, (VFuncRef, VClassRef, VBuiltin, VLambda)):
                continue
            nv = self.havoc_value(n, cur, fr)
            fr.env[n] = nv

    def eval_spec(self, expr: str, fr: Frame) -> V:
        node = self.parse_spec(expr)
        old = fr.in_spec
        fr.in_spec = True
        try:
            return self.ev(node, fr)
        except PathEnd as e:
            if "infeasible" in str(e):
                raise
            # a silently dropped path would make the clause vacuously true
            raise Unsupported(f"evaluation of spec clause {expr[:60]!r} aborted: {e}")
        finally:
            fr.in_spec = old

    def parse_spec(self, expr: str) -> ast.expr:
        c = self.engine.spec_cache.get(expr)
        if c is None:
            c = ast.parse(expr.strip(), mode="eval").body
            self.engine.spec_cache[expr] = c
        return c

    def assume_spec(self, expr: str, fr: Frame) -> None:
        self.assume_term(self.truthy(self.eval_spec(expr, fr)))

    def oblige_spec(self, name: str, expr: str, kind: str, node: Any, fr: Frame, twin: bool = False) -> None:
        from .path import Obligation
        goal = self.truthy(self.eval_spec(expr, fr))
        fname = self.func_label(fr)
        line = getattr(node, "lineno", 0)
        key = f"{fname}:{kind}:{name}@{self.rel(fr, line)}"
        o = Obligation(key, kind, fname, line, expr)
        o.twin = twin
        self.path.oblige(self.goal_term(goal), o, assume_after=not twin)

    def setup_folds(self, spec: Loop, seq_get: Any, fr: Frame) -> Dict[str, Any]:
        fns = {}
        for name, (sort, init, step) in spec.prefix_folds.items():
            zs = {"bool": z3.BoolSort(), "int": z3.IntSort(), "str": SEQ}[sort]
            f = z3.Function(self.path.fresh_name("fold_" + name), z3.IntSort(), zs)
            fns[name] = (f, sort, init, step)
            fr.env[name] = VBuiltin("fold:" + name)
            fr.env[name].fold = (f, sort)  # type: ignore
            iv = self.eval_spec(init, fr)
            self.path.add_fact(f(0) == self.leaf_term(iv))
        return fns

    def leaf_term(self, v: V) -> Any:
        if isinstance(v, (VInt, VBool, VStr)):
            return v.t
        raise Unsupported("fold value must be int/bool/str")

    def wrap_leaf(self, t: Any, sort: str) -> V:
        return {"bool": VBool, "int": VInt}.get(sort, lambda x: VStr([x]))(t)

    def step_folds(self, fns: Dict[str, Any], i: Any, elem: V, fr: Frame) -> None:
        for name, (f, sort, init, step) in fns.items():
            lam = self.parse_spec(step)
            assert isinstance(lam, ast.Lambda)
            child = Frame(fr.module, None, {}, fr, fr.extra_modules)
            child.in_spec = True
            child.env[lam.args.args[0].arg] = self.wrap_leaf(f(i), sort)
            child.env[lam.args.args[1].arg] = elem
            if len(lam.args.args) > 2:
                child.env[lam.args.args[2].arg] = VInt(i)
            nv = self.ev(lam.body, child)
            self.path.add_fact(f(i + 1) == self.leaf_term(nv))

    def ex_For(self, st: ast.For, fr: Frame) -> None:
        it = self.ev(st.iter, fr)
        spec = self.loop_spec(fr, st)
        view = self.iter_view(it, st, fr)
        if spec is None:
            if view[0] != "concrete":
                raise Unsupported(f"loop at line {st.lineno} over a symbolic sequence needs an invariant")
            broke = False
            for item in view[1]:
                self.assign_target(st.target, item, fr, st)
                try:
                    self.ex_block(st.body, fr)
                except ContinueEx:
                    continue
                except BreakEx:
                    broke = True
                    break
            if not broke:
                self.ex_block(st.orelse, fr)
            return
        # --- cut the loop at its invariant
        rebound, mutated = self.assigned_names(st.body)
        self.cut_for(spec, it, view, st, fr,
                     bind=lambda elem: self.assign_target(st.target, elem, fr, st),
                     run_body=lambda: self.ex_block(st.body, fr),
                     default_names=[n for n in rebound + mutated],
                     run_orelse=lambda: self.ex_block(st.orelse, fr))

    def cut_for(self, spec: Loop, it: V, view: Tuple[Any, ...], st: Any, fr: Frame, bind: Any, run_body: Any,
                default_names: List[str], run_orelse: Any) -> None:
        """Cut an iteration over ``view`` at the invariants of ``spec`` (for statements and list comprehensions)."""
        if view[0] == "concrete":
            items = view[1]
            n_term: Any = z3.IntVal(len(items))

            def get(idx: Any) -> V:
                for k in range(len(items)):
                    if self.path.branch(idx == k):
                        return items[k]
                raise PathEnd("index")
        else:
            n_term, get = view[1], view[2]
        idx = spec.index
        fr.env[idx] = VInt(0)
        names = (spec.modifies if spec.modifies is not None else list(default_names)) + spec.also_modifies
        fns = self.setup_folds(spec, get, fr)
        jps = self.setup_join_prefixes(spec, it, st, fr, names)
        self.setup_list_folds(spec, fr)
        seq_t = it.t if isinstance(it, VStr) else None
        for g in spec.use_gfolds:
            if seq_t is None:
                raise Unsupported("global folds are defined over strings")
            self.gfold_instantiate(g, seq_t, None, NONE, fr, True)
        for nm, ex in spec.invariants:
            self.oblige_spec(nm, ex, "loop-inv-entry", st, fr)
        arbitrary = (not spec.exit_only) and self.path.choose()
        self.do_havoc([n for n in names if n != idx], fr)
        i = z3.Int(self.path.fresh_name(idx))
        fr.env[idx] = VInt(i)
        self.path.add_fact(z3.And(i >= 0, i <= n_term))
        self.register_index(i)
        for nm, ex in spec.invariants:
            self.assume_spec(ex, fr)
        if arbitrary:
            self.path.assume(i < n_term)
            elem = get(i)
            bind(elem)
            for ex in spec.elem_facts:
                self.assume_spec(ex, fr)
            self.step_folds(fns, i, elem, fr)
            self.step_join_prefixes(jps, i, st, fr)
            for g in spec.use_gfolds:
                self.gfold_instantiate(g, seq_t, i, elem, fr, False)
            # pre(...) in body lemmas: the value at the start of the iteration
            pres: Dict[str, V] = {}
            for nm, ex in spec.body_ensures + spec.body_twins:
                for n in ast.walk(self.parse_spec(ex)):
                    if isinstance(n, ast.Call) and isinstance(n.func, ast.Name) and n.func.id == "pre":
                        pres[ast.dump(n.args[0])] = self.eval_spec(ast.unparse(n.args[0]), fr)
            fr.pres = pres  # type: ignore
            try:
                try:
                    run_body()
                except ContinueEx:
                    pass
            except BreakEx:
                return  # continues after the loop with the state at the break
            fr.env[idx] = VInt(i + 1)
            for nm, ex in spec.invariants:
                self.oblige_spec(nm, ex, "loop-inv-preserved", st, fr)
            for nm, ex in spec.body_ensures:
                self.oblige_spec(nm, ex, "loop-body", st, fr)
            for nm, ex in spec.body_twins:
                self.oblige_spec(nm, ex, "loop-body", st, fr, twin=True)
            raise PathEnd("loop iteration checked")
        if getattr(spec, "skip_exit", False):
            raise PathEnd("the exit path of this loop is covered by a sibling unit")
        self.path.assume(i == n_term)
        run_orelse()

    # ---- join prefixes: name(k) = sep.join(xs[:k]) for the iterated list xs
    def underlying_list(self, it: V) -> Optional[VList]:
        while isinstance(it, VBuiltin) and it.name == "enumerate-object":
            it = it.inner  # type: ignore
        return it if isinstance(it, VList) else None

    def setup_join_prefixes(self, spec: Loop, it: V, node: Any, fr: Frame, modified: List[str]) -> Dict[str, Any]:
        out: Dict[str, Any] = {}
        if not spec.join_prefixes:
            return out
        lst = self.underlying_list(it)
        if lst is None:
            raise Unsupported("join prefixes are defined over an iterated list")
        for nm in modified:
            if fr.lookup(nm) is lst:
                raise Unsupported("join prefix over a list that the loop modifies")
        for name, sep in spec.join_prefixes.items():
            f = z3.Function(self.path.fresh_name("joinp_" + name), z3.IntSort(), SEQ)
            b = VBuiltin("fold:" + name)
            b.fold = (f, "str")  # type: ignore
            fr.env[name] = b
            self.path.add_fact(f(0) == z3.Empty(SEQ))
            key = "join:" + sep
            if lst.is_concrete():
                for k, x in enumerate(lst.tail):
                    self.path.add_fact(f(k + 1) == self.join_step(f(k), sep, z3.IntVal(k), self.as_str(x, node, fr).t))
            else:
                # sep.join(xs) is the prefix at len(xs): one mathematical object
                whole = self.ensure_join_fold(lst, VStr([sep]), node, fr)
                self.path.add_fact(f(lst.length()) == whole)
            out[name] = (f, sep, lst)
        return out

    def join_step(self, acc: Any, sep: str, k: Any, el: Any) -> Any:
        if sep == "":
            return z3.Concat(acc, el)
        return z3.If(k == 0, el, z3.Concat(acc, seq_of_py(sep), el))

    def step_join_prefixes(self, jps: Dict[str, Any], i: Any, node: Any, fr: Frame) -> None:
        for name, (f, sep, lst) in jps.items():
            if lst.is_concrete():
                continue
            el = self.as_str(self.list_get(lst, i, node, fr), node, fr).t
            self.path.add_fact(f(i + 1) == self.join_step(f(i), sep, i, el))

    # ---- boolean folds over list variables, kept by append
    def setup_list_folds(self, spec: Loop, fr: Frame) -> None:
        for lname, folds in spec.list_folds.items():
            lst = fr.lookup(lname)
            if not isinstance(lst, VList):
                raise Unsupported(f"list fold over {lname}: not a list")
            for fname, step_src in folds.items():
                key = "fold:" + fname
                lam = self.parse_spec(step_src)
                assert isinstance(lam, ast.Lambda)

                def step(acc_t: Any, v: V, lam: ast.Lambda = lam) -> Any:
                    child = Frame(fr.module, None, {}, fr, fr.extra_modules)
                    child.in_spec = True
                    child.env[lam.args.args[0].arg] = VBool(acc_t)
                    child.env[lam.args.args[1].arg] = v
                    return self.truthy(self.ev(lam.body, child))
                if not hasattr(lst, "fold_steps"):
                    lst.fold_steps = {}  # type: ignore
                lst.fold_steps[key] = step  # type: ignore
                if key not in lst.folds:
                    if not lst.is_concrete():
                        raise Unsupported(f"list fold {fname} over a symbolic list {lname}")
                    acc: Any = z3.BoolVal(True)
                    for x in lst.tail:
                        acc = step(acc, x)
                    lst.folds[key] = acc
                b = VBuiltin("lfold:" + fname)
                b.fold = ("lfold", key)  # type: ignore
                b.step = step  # type: ignore
                fr.env[fname] = b

    def iter_view(self, it: V, node: Any, fr: Frame) -> Tuple[Any, ...]:
        it = self.unwrap(it, node, fr, "iterated value")
        if isinstance(it, VBuiltin) and it.name == "range-object":
            lo, hi, step = it.range  # type: ignore
            loc, hic = z3.simplify(lo), z3.simplify(hi)
            if z3.is_int_value(loc) and z3.is_int_value(hic) and step is not None:
                return ("concrete", [VInt(k) for k in range(loc.as_long(), hic.as_long(), step)])
            if step == 1:
                n = z3.If(hi > lo, hi - lo, 0)
                return ("symbolic", n, lambda idx: VInt(lo + idx))
            if step is not None and step > 1:
                n = z3.If(hi > lo, (hi - lo + (step - 1)) / step, 0)
                return ("symbolic", n, lambda idx: VInt(lo + idx * step))
            raise Unsupported("range with symbolic step")
        if isinstance(it, VBuiltin) and it.name == "iterator-object":
            if it.items is not None:  # type: ignore
                return ("concrete", list(it.items[it.pos:]))  # type: ignore
            src, pos = it.source, it.pos  # type: ignore
            n = src.length() - pos
            return ("symbolic", z3.If(n > 0, n, 0), lambda idx: self.list_get(src, idx + pos, node, fr))
        if isinstance(it, VBuiltin) and it.name == "enumerate-object":
            inner = self.iter_view(it.inner, node, fr)  # type: ignore
            start = it.start  # type: ignore
            if inner[0] == "concrete":
                return ("concrete", [VTuple([VInt(start + k), x]) for k, x in enumerate(inner[1])])
            return ("symbolic", inner[1], lambda idx: VTuple([VInt(idx + start), inner[2](idx)]))
        if isinstance(it, VBuiltin) and it.name == "zip-object":
            views = [self.iter_view(x, node, fr) for x in it.inners]  # type: ignore
            if all(v[0] == "concrete" for v in views):
                return ("concrete", [VTuple(list(xs)) for xs in zip(*[v[1] for v in views])])
            raise Unsupported("zip over symbolic sequences")
        if isinstance(it, VStr):
            if it.py is not None or it.units() is not None:
                return ("concrete", self.concrete_items(it))
            t = it.t

            def getc(idx: Any) -> V:
                el = t[idx]
                if it.is_bytes:
                    self.path.add_fact(z3.And(el >= 0, el <= 255))
                    return VInt(el)
                self.path.add_fact(z3.And(el >= 0, el <= 0x10FFFF))
                return VStr([z3.Unit(el)], is_char=True)
            return ("symbolic", z3.Length(t), getc)
        if isinstance(it, VList):
            if it.is_concrete():
                return ("concrete", list(it.tail))
            return ("symbolic", it.length(), lambda idx: self.list_get(it, idx, node, fr))
        if isinstance(it, VTuple):
            return ("concrete", list(it.items))
        if isinstance(it, VSet) and it.base_has is None:
            return ("concrete", list(it.items))
        if isinstance(it, VDict):
            if it.base_get is None and not it.havocked:
                return ("concrete", [k for k, _ in it.items])
            raise Unsupported("iteration over symbolic dict")
        if isinstance(it, VBuiltin) and it.name == "dict-items":
            d = it.inner  # type: ignore
            if d.base_get is None and not d.havocked:
                return ("concrete", [VTuple([k, v]) for k, v in d.items])
            key_ann = getattr(d, "key_ann", None)
            if key_ann is None or d.items:
                raise Unsupported("iteration over items of symbolic dict")
            # the items of a symbolic dict: an unknown number of (key, value) pairs, keys arbitrary values of the
            # declared key type that are present in the dict (nothing is assumed about their order or distinctness)
            n_items = z3.Int(self.path.fresh_name("$dict.items.len"))
            self.path.add_fact(n_items >= 0)
            tag = self.path.fresh_name("$dict.key")

            def get_item(idx: Any) -> V:
                key = self.mk_sym(key_ann[0], key_ann[1], tag, (idx,))
                val = d.base_get(key)
                if isinstance(val, VOpt):
                    self.path.add_fact(z3.Not(val.isnone))
                    val = val.val
                return VTuple([key, val])
            return ("symbolic", n_items, get_item)
        if isinstance(it, VBuiltin) and it.name == "dict-values":
            d = it.inner  # type: ignore
            if d.base_get is None and not d.havocked:
                return ("concrete", [v for _, v in d.items])
            raise Unsupported("iteration over values of symbolic dict")
        raise Unsupported(f"iteration over {it!r}")

    def ex_While(self, st: ast.While, fr: Frame) -> None:
        spec = self.loop_spec(fr, st)
        if spec is None:
            # bounded unrolling only if the guard is decided concretely each time
            for _ in range(256):
                c = z3.simplify(self.truthy(self.ev(st.test, fr)))
                if z3.is_false(c):
                    self.ex_block(st.orelse, fr)
                    return
                if not z3.is_true(c):
                    if not fr.in_spec:
                        raise Unsupported(f"while loop at line {st.lineno} needs an invariant")
                    # spec functions: unroll by forking (bounded by the 256 iterations of this loop)
                    if not self.path.branch(c):
                        self.ex_block(st.orelse, fr)
                        return
                try:
                    self.ex_block(st.body, fr)
                except ContinueEx:
                    continue
                except BreakEx:
                    return
            raise Unsupported("while loop did not terminate in 256 concrete iterations")
        for nm, ex in spec.invariants:
            self.oblige_spec(nm, ex, "loop-inv-entry", st, fr)
        rebound, mutated = self.assigned_names(st.body)
        names = (spec.modifies if spec.modifies is not None else rebound + mutated) + spec.also_modifies
        arbitrary = (not spec.exit_only) and self.path.choose()
        self.do_havoc(names, fr)
        for nm, ex in spec.invariants:
            self.assume_spec(ex, fr)
        c = self.truthy(self.ev(st.test, fr))
        if arbitrary:
            self.path.assume(c)
            for ex in spec.elem_facts:
                # case split of the iteration (the units of a split are exhaustive together)
                self.assume_spec(ex, fr)
            try:
                try:
                    self.ex_block(st.body, fr)
                except ContinueEx:
                    pass
            except BreakEx:
                return
            for nm, ex in spec.invariants:
                self.oblige_spec(nm, ex, "loop-inv-preserved", st, fr)
            for nm, ex in spec.body_ensures:
                self.oblige_spec(nm, ex, "loop-body", st, fr)
            raise PathEnd("loop iteration checked")
        if getattr(spec, "skip_exit", False):
            raise PathEnd("the exit path of this loop is covered by a sibling unit")
        self.path.assume(z3.Not(c))
        self.ex_block(st.orelse, fr)
