"""Axiomatised builtins and library functions (the trusted base of the encoding)."""
import ast
from typing import Any, Callable, Dict, List, Optional, Tuple

import z3

from .exprs import Frame, RaiseEx
from .loader import ClassInfo
from .path import PathEnd
from .values import (SEQ, NONE, V, VBool, VBuiltin, VClassRef, VDict, VEnum, VExc, VExt, VFloat, VFuncRef,
                     VInt, VLambda, VList, VModuleRef, VNoneT, VOpaque, VOpt, VPrimUnion, VSet, VStr,
                     VStream, VTuple, ConcObj, SymObj, Unsupported, seq_of_py, vconcat)

WS = (32, 9, 10, 13, 11, 12)  # characters str.strip() removes that matter here (+ \x1c-\x1f, \x85, …: see note)

TRUSTED: Dict[str, str] = {
    "len": "len(s) = Seq length; len(list) = base length + appended items",
    "ord/chr": "ord/chr are the identity between one-character strings and code points 0..0x10FFFF",
    "min/max": "min/max over ints as ite chains",
    "str.startswith/endswith/in": "z3 seq.prefixof / seq.suffixof / seq.contains",
    "str.join": "concatenation with separator for concrete lists; ghost fold for symbolic lists",
    "format-hex": "f'{n:x}', '02x', '04x', '08x', 'X' as digit sequences for 0 <= n < 16**8",
    "format-dec": "f'{n}' of a symbolic int is an uninterpreted non-empty string starting with a digit or '-'",
    "str.strip": "uninterpreted; result has no leading/trailing ' ', \\t, \\n, \\r, \\v, \\f (axiom instance per call)",
    "textwrap.indent": "uninterpreted; for a non-empty text whose first line is not blank the result starts with the prefix; result is at least as long as the text",
    "io.StringIO/TextIO": "write(s) appends s to a ghost trace; getvalue() is the concatenation",
    "isinstance": "closed world: the classes of the loaded repository modules are all classes",
}


_EDGE_CACHE: Dict[str, Any] = {}


_CHAR_TABLES: Optional[Tuple[List[Tuple[int, int]], List[Tuple[int, int]]]] = None


def _char_tables() -> Tuple[List[Tuple[int, int]], List[Tuple[int, int]]]:
    """Code-point ranges of str.isdecimal / str.isdigit (one-character strings)."""
    global _CHAR_TABLES
    if _CHAR_TABLES is None:
        out = []
        for pred in (str.isdecimal, str.isdigit):
            rngs: List[Tuple[int, int]] = []
            start = None
            for c in range(0x110000 + 1):
                ok = c < 0x110000 and pred(chr(c))
                if ok and start is None:
                    start = c
                elif not ok and start is not None:
                    rngs.append((start, c - 1))
                    start = None
            out.append(rngs)
        _CHAR_TABLES = (out[0], out[1])
    return _CHAR_TABLES


def _regex_edges(pat: str) -> Optional[Tuple[int, Optional[List[Tuple[int, int]]], Optional[List[Tuple[int, int]]]]]:
    """(minimal length, ranges of possible first characters, ranges of possible last characters) of the
    language of ``pat`` -- a sound over-approximation computed from sre_parse; None if not understood."""
    if pat in _EDGE_CACHE:
        return _EDGE_CACHE[pat]
    import sre_parse
    import sre_constants as sc

    def cls(arg: Any) -> Optional[List[Tuple[int, int]]]:
        out = []
        for o2, a2 in arg:
            if o2 == sc.LITERAL:
                out.append((a2, a2))
            elif o2 == sc.RANGE:
                out.append((a2[0], a2[1]))
            else:
                return None
        return out

    def item(op: Any, arg: Any, rev: bool) -> Optional[Tuple[int, Optional[List[Tuple[int, int]]]]]:
        """(min length, edge set) of one item; edge set None = unknown (anything)."""
        if op == sc.LITERAL:
            return 1, [(arg, arg)]
        if op == sc.IN:
            c = cls(arg)
            return 1, c
        if op == sc.MAX_REPEAT or op == sc.MIN_REPEAT:
            lo, hi, sub = arg
            r = seq(list(sub), rev)
            if r is None:
                return None
            return r[0] * lo, r[1]
        if op == sc.SUBPATTERN:
            return seq(list(arg[3]), rev)
        if op == sc.BRANCH:
            mins, sets = [], []
            for alt in arg[1]:
                r = seq(list(alt), rev)
                if r is None:
                    return None
                mins.append(r[0])
                sets.append(r[1])
            if any(s is None for s in sets) or any(m == 0 for m in mins):
                return min(mins), None
            return min(mins), [x for s in sets for x in s]  # type: ignore
        return None

    def seq(items: List[Any], rev: bool) -> Optional[Tuple[int, Optional[List[Tuple[int, int]]]]]:
        total = 0
        edge: Optional[List[Tuple[int, int]]] = []
        open_edge = True
        for op, arg in (reversed(items) if rev else items):
            r = item(op, arg, rev)
            if r is None:
                return None
            mn, st = r
            if open_edge:
                if st is None:
                    edge = None
                elif edge is not None:
                    edge = edge + st
                if mn > 0:
                    open_edge = False
            total += mn
        if open_edge:
            edge = None  # the whole sequence may be empty: the edge character comes from the context
        return total, edge

    try:
        items = list(sre_parse.parse(pat))
        a = seq(items, False)
        b = seq(items, True)
        res = None if a is None or b is None else (a[0], a[1], b[1])
    except Exception:
        res = None
    _EDGE_CACHE[pat] = res
    return res


def _is_ws(c: Any) -> Any:
    return z3.Or(*[c == w for w in WS])


class Builtins:
    BUILTIN_NAMES = {
        "len", "ord", "chr", "min", "max", "isinstance", "int", "str", "bool", "range", "enumerate", "zip",
        "all", "any", "sum", "sorted", "list", "tuple", "dict", "set", "frozenset", "repr", "id", "abs",
        "print", "next", "iter", "reversed", "type", "hasattr", "getattr", "bytes", "bytearray", "float",
        "AssertionError", "ValueError", "NotImplementedError", "KeyError", "IndexError", "TypeError",
        "Exception", "RuntimeError", "UnicodeDecodeError", "SyntaxError", "OSError", "StopIteration",
        "isinstance", "issubclass", "super", "object", "map", "filter", "hex", "callable", "divmod",
    }
    EXTERNAL_CALLABLES = {
        "typing.cast", "io.StringIO", "textwrap.indent", "textwrap.dedent", "re.compile", "re.fullmatch",
        "re.match", "re.escape", "itertools.chain", "typing.Optional", "collections.OrderedDict",
        "icontract.ViolationError", "pathlib.Path", "pathlib.PurePosixPath", "hashlib.sha256",
        "tempfile.gettempdir", "uuid.uuid4", "pickle.load", "pickle.dump", "typing.Final",
        "sortedcontainers.SortedSet", "typing.TypeVar", "typing.NewType", "html.escape", "xml.sax.saxutils.escape",
        "functools.lru_cache", "copy.copy", "copy.deepcopy", "itertools.count", "inspect.isclass",
    }

    # ------------------------------------------------------------------ dispatcher
    def call_builtin(self, f: VBuiltin, args: List[V], kwargs: Dict[str, V], node: Any, fr: Frame) -> V:
        name = f.name
        if name.startswith("method:"):
            return self.call_method(f.bound, name[7:], args, kwargs, node, fr)
        if name.startswith("fold:"):
            fn, sort = f.fold  # type: ignore
            return self.wrap_leaf(fn(self.as_int(args[0], node, fr)), sort)
        if name.startswith("lfold:"):
            _, key = f.fold  # type: ignore
            lst = args[0]
            if isinstance(lst, VOpt):
                lst = self.unwrap(lst, node, fr, "folded list")
            if not isinstance(lst, VList):
                raise Unsupported(f"{name} of a non-list")
            if key in lst.folds:
                return VBool(lst.folds[key])
            if lst.is_concrete():
                acc: Any = z3.BoolVal(True)
                for x in lst.tail:
                    acc = f.step(acc, x)  # type: ignore
                return VBool(acc)
            raise Unsupported(f"{name} of a symbolic list without that fold")
        if name.startswith("gfold:"):
            sort, init, step = self.engine.global_folds[name[6:]]
            seq = self.as_str(args[0], node, fr)
            return self.wrap_leaf(self.gfold_fn(name[6:], sort)(seq.t, self.as_int(args[1], node, fr)), sort)
        if name.startswith("helper:"):
            raise Unsupported(f"helper {name} used as a value")
        h = getattr(self, "bi_" + name.replace(".", "_"), None)
        if h is None:
            raise Unsupported(f"builtin {name}")
        return h(args, kwargs, node, fr)

    def gfold_fn(self, name: str, sort: str) -> Any:
        zs = {"bool": z3.BoolSort(), "int": z3.IntSort(), "str": SEQ}[sort]
        return z3.Function("gfold_" + name, SEQ, z3.IntSort(), zs)

    def gfold_instantiate(self, name: str, seq_t: Any, i: Any, elem: V, fr: Frame, at_zero: bool) -> None:
        """Definitional axioms of a global prefix fold over a string, instantiated at index ``i``."""
        sort, init, step = self.engine.global_folds[name]
        f = self.gfold_fn(name, sort)
        if at_zero:
            iv = self.eval_spec(init, fr)
            self.path.add_fact(f(seq_t, 0) == self.leaf_term(iv))
            return
        lam = self.parse_spec(step)
        child = Frame(fr.module, None, {}, fr, fr.extra_modules)
        child.in_spec = True
        child.env[lam.args.args[0].arg] = self.wrap_leaf(f(seq_t, i), sort)
        child.env[lam.args.args[1].arg] = elem
        self.path.add_fact(f(seq_t, i + 1) == self.leaf_term(self.ev(lam.body, child)))

    # ------------------------------------------------------------------- builtins
    def bi_len(self, args, kwargs, node, fr) -> V:
        v = self.unwrap(args[0], node, fr, "argument of len")
        if isinstance(v, VOpaque):
            return VInt(z3.Int(self.path.fresh_name("$opaque-len")))
        if isinstance(v, VStr):
            if v.py is not None:
                return VInt(len(v.py))
            if v.is_char:
                return VInt(1)
            us = v.units()
            if us is not None:
                return VInt(len(us))
            return VInt(z3.Length(v.t))
        if isinstance(v, VList):
            return VInt(v.length())
        if isinstance(v, VTuple):
            return VInt(len(v.items))
        if isinstance(v, VDict):
            if v.base_get is None and not v.havocked:
                return VInt(len(v.items))
            raise Unsupported("len of symbolic dict")
        if isinstance(v, VSet) and v.base_has is None:
            return VInt(len(v.items))
        if isinstance(v, VPrimUnion):
            return VInt(z3.Length(self.as_str(v, node, fr).t))
        raise Unsupported(f"len of {v!r}")

    def bi_ord(self, args, kwargs, node, fr) -> V:
        s = self.as_str(args[0], node, fr)
        cc = self.char_code(s)
        if cc is not None:
            return VInt(cc)
        self.ob(z3.Length(s.t) == 1, "type", node, fr, "ord() of a string of length 1")
        el = s.t[0]
        self.path.add_fact(z3.And(el >= 0, el <= 0x10FFFF))
        return VInt(el)

    def bi_chr(self, args, kwargs, node, fr) -> V:
        i = self.as_int(args[0], node, fr)
        self.ob(z3.And(i >= 0, i <= 0x10FFFF), "value", node, fr, "chr() argument in range(0x110000)")
        ic = z3.simplify(i)
        if z3.is_int_value(ic):
            return self.pystr(chr(ic.as_long()))
        return VStr([z3.Unit(i)], is_char=True)

    def _minmax(self, args, node, fr, is_min: bool) -> V:
        if len(args) == 1:
            items = self.concrete_items(args[0])
        else:
            items = args
        if not items:
            self.ob(z3.BoolVal(False), "value", node, fr, "min/max of an empty sequence")
            raise PathEnd("ValueError")
        acc = self.as_int(items[0], node, fr)
        for x in items[1:]:
            t = self.as_int(x, node, fr)
            acc = z3.If(t < acc, t, acc) if is_min else z3.If(t > acc, t, acc)
        return VInt(acc)

    def bi_min(self, args, kwargs, node, fr) -> V:
        return self._minmax(args, node, fr, True)

    def bi_max(self, args, kwargs, node, fr) -> V:
        return self._minmax(args, node, fr, False)

    def bi_abs(self, args, kwargs, node, fr) -> V:
        t = self.as_int(args[0], node, fr)
        return VInt(z3.If(t < 0, -t, t))

    def bi_id(self, args, kwargs, node, fr) -> V:
        v = args[0]
        if isinstance(v, SymObj):
            return VInt(v.ident)
        if isinstance(v, ConcObj):
            key = ("id", id(v))
            if key not in self.path.cache:
                n = self.path.counters.get("$alloc", 0) + 1
                self.path.counters["$alloc"] = n
                self.path.cache[key] = VInt(-n)  # symbolic idents are assumed non-negative
            return self.path.cache[key]
        if isinstance(v, VEnum):
            return VInt(-1000000 - v.idx)
        raise Unsupported("id()")

    def bi_isinstance(self, args, kwargs, node, fr) -> V:
        v, c = args
        classes = c.items if isinstance(c, VTuple) else [c]
        if isinstance(v, VOpt):
            inner = self.bi_isinstance([v.val, c], kwargs, node, fr)
            assert isinstance(inner, VBool)
            return VBool(z3.And(z3.Not(v.isnone), inner.t))
        res: List[Any] = []
        for k in classes:
            res.append(self.isinstance1(v, k))
        return VBool(z3.Or(*res) if len(res) > 1 else res[0])

    def isinstance1(self, v: V, k: V) -> Any:
        if isinstance(k, VBuiltin):
            n = k.name
            if isinstance(v, VPrimUnion):
                if n == "int":
                    return v.is_kind("int", "bool")
                return v.is_kind(n)
            table = {"int": (VInt, VBool), "bool": (VBool,), "str": (VStr,), "bytes": (VStr,),
                     "list": (VList,), "tuple": (VTuple,), "dict": (VDict,), "float": (VFloat,),
                     "set": (VSet,), "frozenset": (VSet,), "bytearray": (VStr,)}
            if n in table:
                ok = isinstance(v, table[n])
                if ok and n in ("str", "bytes", "bytearray"):
                    ok = (v.is_bytes == (n != "str"))  # type: ignore
                return z3.BoolVal(ok)
            if isinstance(v, VExt) and v.kind.split(".")[-1] in ("Exception", "BaseException") and n.endswith("Error"):
                # an exception object of statically unknown class: its dynamic class is a free predicate
                f = z3.Function("exc_is_" + n, z3.IntSort(), z3.BoolSort())
                return f(v.ident)
            if n in ("SyntaxError", "Exception", "ValueError", "UnicodeDecodeError", "OSError"):
                from .stmts import exc_matches
                return z3.BoolVal(isinstance(v, VExc) and exc_matches(v.cls_name, n))
            raise Unsupported(f"isinstance against {n}")
        if isinstance(k, VClassRef):
            cls = k.cls
            if isinstance(v, ConcObj):
                return z3.BoolVal(v.cls.is_subclass_of(cls))
            if isinstance(v, SymObj):
                return self.isinstance_term(v, [cls])
            if isinstance(v, VEnum):
                return z3.BoolVal(v.cls.is_subclass_of(cls))
            if isinstance(v, VStr):
                return z3.BoolVal(False) if not cls.is_str_subclass() else z3.BoolVal(True)
            if isinstance(v, VExc):
                return z3.BoolVal(v.cls is not None and v.cls.is_subclass_of(cls))
            return z3.BoolVal(False)
        if isinstance(k, VModuleRef) and isinstance(k.module, str):
            short = k.module.split(".")[-1]
            if short in ("Sequence", "Iterable", "Collection", "Sized"):
                return z3.BoolVal(isinstance(v, (VList, VTuple, VStr)))
            if short in ("Mapping", "MutableMapping"):
                return z3.BoolVal(isinstance(v, VDict))
            if k.module.startswith("ast.") and self.engine.ast_model is not None:
                if isinstance(v, VExt) and v.kind.startswith("ast."):
                    return self.engine.ast_model[0](self, v, short)
                return z3.BoolVal(False)
            if isinstance(v, VExt):
                return z3.BoolVal(v.kind.split(".")[-1] == k.module.split(".")[-1])
            if isinstance(v, VExc):
                from .stmts import exc_matches
                return z3.BoolVal(exc_matches(v.cls_name, k.module))
            return z3.BoolVal(False)
        raise Unsupported(f"isinstance against {k!r}")

    def bi_int(self, args, kwargs, node, fr) -> V:
        if not args:
            return VInt(0)
        v = self.unwrap(args[0], node, fr)
        if isinstance(v, (VInt, VBool)) and len(args) == 1:
            return VInt(self.as_int(v, node, fr))
        if isinstance(v, VStr):
            base = 10
            if len(args) > 1:
                b = self.as_int(args[1], node, fr)
                bc = z3.simplify(b)
                if not z3.is_int_value(bc):
                    raise Unsupported("int() with symbolic base")
                base = bc.as_long()
            if v.py is not None:
                try:
                    return VInt(int(v.py, base))
                except ValueError:
                    self.ob(z3.BoolVal(False), "value", node, fr, "int() literal is valid")
                    raise PathEnd("ValueError")
            if base == 16:
                return VInt(self.hex_value(v, node, fr))
            if base != 10:
                raise Unsupported(f"int(s, {base}) of a symbolic string")
            # int(s) raises ValueError unless s is a decimal literal: the obligation is ``s.isdecimal()`` (non-empty,
            # Unicode decimal digits only; signs, blanks and '_' are not claimed -- code relying on them is refuted)
            isdec = z3.Function("str_isdecimal", SEQ, z3.BoolSort())
            origin = self.path.cache.get(("join-origin", v.t.get_id()))
            if origin is not None:
                # lemma for "".join(xs): a failing element witnesses a failing join
                n_term, get = origin
                if self.path.branch(n_term >= 1):
                    k = z3.Int(self.path.fresh_name("$joinwit"))
                    self.path.add_fact(z3.And(k >= 0, k < n_term))
                    self.register_index(k)
                    ek = self.as_str(get(k), node, fr)
                    self.ascii_digit_facts(ek)
                    self.path.add_fact(z3.Or(z3.Not(isdec(ek.t)), isdec(v.t)))
            self.ascii_digit_facts(v)
            self.ob(isdec(v.t), "value", node, fr, "int(s): s consists of decimal digits (ValueError otherwise)")
            self.path.add_fact(isdec(v.t))
            f = z3.Function(f"int_of_str_{base}", SEQ, z3.IntSort())
            r = f(v.t)
            self.path.add_fact(r >= 0)
            return VInt(r)
        raise Unsupported("int() of unsupported value")

    def ascii_digit_facts(self, s: VStr) -> None:
        """'0'..'9' are decimal digits; decimal digits are digits (str.isdecimal ⇒ str.isdigit); '²' is a digit
        that is not decimal."""
        isdec = z3.Function("str_isdecimal", SEQ, z3.BoolSort())
        isdig = z3.Function("str_isdigit", SEQ, z3.BoolSort())
        t = s.t
        self.path.add_fact(z3.Implies(isdec(t), z3.And(isdig(t), z3.Length(t) >= 1)))
        # on one-character strings both predicates are the tables of this interpreter's unicodedata
        def inset(c: Any, rngs: List[Tuple[int, int]]) -> Any:
            return z3.Or(*[(c == a) if a == b else z3.And(c >= a, c <= b) for a, b in rngs])
        dec, dig = _char_tables()
        self.path.add_fact(z3.Implies(z3.Length(t) == 1, z3.And(isdec(t) == inset(t[0], dec), isdig(t) == inset(t[0], dig))))

    def hex_value(self, v: VStr, node: Any, fr: Frame) -> Any:
        """int(s, 16) for a symbolic s whose length is concrete on this path (≤ 8)."""
        us = v.units()
        if us is not None and 0 < len(us) <= 8:
            def dig0(c: Any) -> Any:
                return z3.If(z3.And(c >= 48, c <= 57), c - 48, z3.If(z3.And(c >= 97, c <= 102), c - 87, c - 55))

            def ishex0(c: Any) -> Any:
                return z3.Or(z3.And(c >= 48, c <= 57), z3.And(c >= 97, c <= 102), z3.And(c >= 65, c <= 70))
            self.ob(z3.And(*[ishex0(z3.IntVal(u) if isinstance(u, int) else u) for u in us]), "value", node, fr,
                    "int(s, 16): s consists of hex digits")
            acc0: Any = z3.IntVal(0)
            for u in us:
                acc0 = acc0 * 16 + dig0(z3.IntVal(u) if isinstance(u, int) else u)
            return acc0
        t = v.t
        ln = z3.simplify(z3.Length(t))
        n = None
        if z3.is_int_value(ln):
            n = ln.as_long()
        else:
            for k in range(1, 9):
                if self.path._check(z3.Length(t) != k) == z3.unsat:
                    n = k
                    break
        if n is None:
            f = z3.Function("int_of_str_16", SEQ, z3.IntSort())
            return f(t)

        def dig(c: Any) -> Any:
            return z3.If(z3.And(c >= 48, c <= 57), c - 48,
                         z3.If(z3.And(c >= 97, c <= 102), c - 87, c - 55))

        def ishex(c: Any) -> Any:
            return z3.Or(z3.And(c >= 48, c <= 57), z3.And(c >= 97, c <= 102), z3.And(c >= 65, c <= 70))
        self.ob(z3.And(*[ishex(t[k]) for k in range(n)]), "value", node, fr, "int(s, 16): s consists of hex digits")
        acc: Any = z3.IntVal(0)
        for k in range(n):
            acc = acc * 16 + dig(t[k])
        return acc

    def bi_str(self, args, kwargs, node, fr) -> V:
        if not args:
            return self.pystr("")
        return self.to_text(args[0], "", -1, node, fr)

    def bi_repr(self, args, kwargs, node, fr) -> V:
        return self.to_text(args[0], "", ord("r"), node, fr)

    def bi_bool(self, args, kwargs, node, fr) -> V:
        return VBool(self.truthy(args[0])) if args else VBool(False)

    def bi_float(self, args, kwargs, node, fr) -> V:
        return VFloat()

    def bi_range(self, args, kwargs, node, fr) -> V:
        ts = [self.as_int(a, node, fr) for a in args]
        lo, hi, step = z3.IntVal(0), None, 1
        if len(ts) == 1:
            hi = ts[0]
        elif len(ts) >= 2:
            lo, hi = ts[0], ts[1]
        if len(ts) == 3:
            sc = z3.simplify(ts[2])
            step = sc.as_long() if z3.is_int_value(sc) else None
        r = VBuiltin("range-object")
        r.range = (lo, hi, step)  # type: ignore
        return r

    def bi_itertools_chain(self, args, kwargs, node, fr) -> V:
        """``itertools.chain(a, b, ...)`` over lists: the concatenation, read through the operands."""
        lists: List[VList] = []
        for a in args:
            if isinstance(a, VOpt):
                a = self.unwrap(a, node, fr, "chained value")
            if isinstance(a, VTuple):
                a = VList(list(a.items))
            if not isinstance(a, VList):
                raise Unsupported("itertools.chain over a non-list")
            lists.append(a)
        if all(x.is_concrete() for x in lists):
            return VList([y for x in lists for y in x.tail])
        lens = [x.length() for x in lists]
        total = z3.simplify(sum(lens[1:], lens[0])) if lens else z3.IntVal(0)

        def get(idx: Any) -> V:
            off: Any = z3.IntVal(0)
            for k, x in enumerate(lists):
                if k == len(lists) - 1 or self.path.branch(idx < off + lens[k]):
                    return self.list_get(x, idx - off, node, fr)
                off = off + lens[k]
            raise PathEnd("index")
        return VList([], base_len=total, base_get=get)

    def bi_enumerate(self, args, kwargs, node, fr) -> V:
        r = VBuiltin("enumerate-object")
        r.inner = args[0]  # type: ignore
        start = kwargs.get("start", args[1] if len(args) > 1 else VInt(0))
        sc = z3.simplify(self.as_int(start, node, fr))
        r.start = sc.as_long() if z3.is_int_value(sc) else sc  # type: ignore
        return r

    def bi_zip(self, args, kwargs, node, fr) -> V:
        r = VBuiltin("zip-object")
        r.inners = list(args)  # type: ignore
        return r

    def bi_reversed(self, args, kwargs, node, fr) -> V:
        return VList(list(reversed(self.concrete_items(args[0]))))

    def quantify(self, gen: VLambda, is_all: bool, node: Any, fr: Frame) -> V:
        """all(...)/any(...) over a symbolic sequence: a bounded quantifier."""
        g = gen.node
        assert isinstance(g, ast.GeneratorExp)
        if len(g.generators) != 1:
            raise Unsupported("nested generators over symbolic sequences")
        comp = g.generators[0]
        it = self.ev(comp.iter, gen.frame)
        view = self.iter_view(it, node, gen.frame)
        if view[0] == "concrete":
            raise Unsupported("unexpected concrete view")
        n_term, get = view[1], view[2]
        def fn(j: Any) -> Any:
            child = Frame(gen.frame.module, None, {}, gen.frame, gen.frame.extra_modules)
            child.in_spec = True
            self.assign_target(comp.target, get(j), child, node)
            conds = [self.truthy(self.ev(c, child)) for c in comp.ifs]
            body = self.truthy(self.ev(g.elt, child))
            if not conds:
                return body
            return z3.Implies(z3.And(*conds), body) if is_all else z3.And(*conds, body)

        return VBool(self.mk_quant(z3.IntVal(0), n_term, fn, "q", is_all))

    def bi_all(self, args, kwargs, node, fr) -> V:
        if isinstance(args[0], VLambda):
            return self.quantify(args[0], True, node, fr)
        items = self.concrete_items(args[0])
        return VBool(z3.And(*[self.truthy(x) for x in items]) if items else z3.BoolVal(True))

    def bi_any(self, args, kwargs, node, fr) -> V:
        if isinstance(args[0], VLambda):
            return self.quantify(args[0], False, node, fr)
        items = self.concrete_items(args[0])
        return VBool(z3.Or(*[self.truthy(x) for x in items]) if items else z3.BoolVal(False))

    def bi_sum(self, args, kwargs, node, fr) -> V:
        items = self.concrete_items(args[0])
        acc: Any = z3.IntVal(0)
        for x in items:
            acc = acc + self.as_int(x, node, fr)
        return VInt(acc)

    def bi_list(self, args, kwargs, node, fr) -> V:
        if not args:
            return VList([])
        v = args[0]
        if isinstance(v, VList) and not v.is_concrete():
            nl = VList(list(v.tail), base_len=v.base_len, base_get=v.base_get, elem_ann=v.elem_ann)
            nl.folds = dict(v.folds)
            return nl
        if isinstance(v, VBuiltin):
            view = self.iter_view(v, node, fr)
            if view[0] == "concrete":
                return VList(view[1])
            raise Unsupported("list() of symbolic iterator")
        return VList(self.concrete_items(v))

    def bi_tuple(self, args, kwargs, node, fr) -> V:
        if not args:
            return VTuple([])
        return VTuple(self.concrete_items(args[0]))

    def bi_dict(self, args, kwargs, node, fr) -> V:
        d = VDict()
        if args:
            src = args[0]
            if isinstance(src, VDict) and src.base_get is None:
                d.items = list(src.items)
            else:
                for kv in self.concrete_items(src):
                    assert isinstance(kv, VTuple)
                    self.dict_set(d, kv.items[0], kv.items[1], fr, node)
        for k, v in kwargs.items():
            self.dict_set(d, self.pystr(k), v, fr, node)
        return d

    def bi_collections_OrderedDict(self, args, kwargs, node, fr) -> V:
        return self.bi_dict(args, kwargs, node, fr)

    def bi_set(self, args, kwargs, node, fr) -> V:
        s = VSet()
        if args:
            src = args[0]
            if isinstance(src, VSet) and src.base_has is not None:
                return VSet(list(src.items), base_has=src.base_has)
            for x in self.concrete_items(src):
                self.set_add(s, x)
        return s

    def bi_frozenset(self, args, kwargs, node, fr) -> V:
        s = self.bi_set(args, kwargs, node, fr)
        s.frozen = True  # type: ignore
        return s

    def bi_sorted(self, args, kwargs, node, fr) -> V:
        src = args[0]
        if isinstance(src, VList) and not src.is_concrete():
            # some permutation of the list: same length, elements of the same type (order unknown)
            hint = self.path.fresh_name("$sorted")
            ea = src.elem_ann
            sample = src.tail[0] if src.tail else None
            ln = src.length()

            perm = z3.Function(hint + ".perm", z3.IntSort(), z3.IntSort())

            def get(idx: Any) -> V:
                # the i-th element of the sorted list is *some* element of the original list
                k = perm(idx)
                self.path.add_fact(z3.And(k >= 0, k < ln))
                return self.list_get(src, k, node, fr)
            return VList([], base_len=ln, base_get=get, elem_ann=ea)
        items = self.concrete_items(args[0])
        if "key" in kwargs:
            raise Unsupported("sorted with key")
        if all(isinstance(x, VStr) and x.py is not None for x in items):
            return VList(sorted(items, key=lambda x: x.py))  # type: ignore
        if all(isinstance(x, VInt) and x.concrete() is not None for x in items):
            return VList(sorted(items, key=lambda x: x.concrete()))  # type: ignore
        raise Unsupported("sorted of symbolic items")

    def bi_print(self, args, kwargs, node, fr) -> V:
        return NONE

    def bi_typing_cast(self, args, kwargs, node, fr) -> V:
        return args[1]

    def bi_typing_TypeVar(self, args, kwargs, node, fr) -> V:
        return VOpaque("TypeVar")

    def bi_type(self, args, kwargs, node, fr) -> V:
        v = args[0]
        if isinstance(v, ConcObj):
            return VClassRef(v.cls)
        return VOpaque("type")

    def bi_hasattr(self, args, kwargs, node, fr) -> V:
        raise Unsupported("hasattr")

    def bi_iter(self, args, kwargs, node, fr) -> V:
        it = VBuiltin("iterator-object")
        src = self.unwrap(args[0], node, fr, "iterated value")
        it.pos = 0  # type: ignore
        it.source = None  # type: ignore
        if isinstance(src, VList) and not src.is_concrete():
            # a symbolic list: the iterator is the list plus the (concrete) number of items already taken
            it.items = None  # type: ignore
            it.source = src  # type: ignore
            return it
        it.items = list(self.concrete_items(src))  # type: ignore
        return it

    def bi_next(self, args, kwargs, node, fr) -> V:
        it = args[0]
        if not (isinstance(it, VBuiltin) and it.name == "iterator-object"):
            raise Unsupported("next() of a non-iterator")
        if it.items is None:  # type: ignore
            src = it.source  # type: ignore
            if self.path.branch(z3.IntVal(it.pos) < src.length()):  # type: ignore
                it.pos += 1  # type: ignore
                return self.list_get(src, z3.IntVal(it.pos - 1), node, fr)  # type: ignore
            if len(args) > 1:
                return args[1]
            raise RaiseEx(VExc("StopIteration", []), node)
        if it.pos < len(it.items):  # type: ignore
            it.pos += 1  # type: ignore
            return it.items[it.pos - 1]  # type: ignore
        if len(args) > 1:
            return args[1]
        raise RaiseEx(VExc("StopIteration", []), node)

    def bi_io_StringIO(self, args, kwargs, node, fr) -> V:
        s = VStream(self.path.fresh_name("StringIO"))
        if args:
            s.log.append(self.as_str(args[0], node, fr))
        return s

    def bi_textwrap_indent(self, args, kwargs, node, fr) -> V:
        text = self.as_str(args[0], node, fr)
        prefix = self.as_str(args[1] if len(args) > 1 else kwargs["prefix"], node, fr)
        if text.py is not None and prefix.py is not None:
            import textwrap
            return self.pystr(textwrap.indent(text.py, prefix.py))
        f = z3.Function("textwrap_indent", SEQ, SEQ, SEQ)
        r = f(text.t, prefix.t)
        t = text.t
        self.path.add_fact(z3.Length(r) >= z3.Length(t))
        self.path.add_fact(z3.Implies(z3.And(z3.Length(t) > 0, z3.Not(_is_ws(t[0]))),
                                      z3.And(z3.PrefixOf(prefix.t, r),
                                             z3.Length(r) >= z3.Length(t) + z3.Length(prefix.t))))
        # the last character is unchanged (indent only inserts at line starts)
        self.path.add_fact(z3.Implies(z3.Length(t) > 0, r[z3.Length(r) - 1] == t[z3.Length(t) - 1]))
        self.path.add_fact(z3.Implies(z3.Length(t) == 0, z3.Length(r) == 0))
        return VStr([r])

    def bi_textwrap_dedent(self, args, kwargs, node, fr) -> V:
        text = self.as_str(args[0], node, fr)
        if text.py is not None:
            import textwrap
            return self.pystr(textwrap.dedent(text.py))
        return self.opaque_str("dedent")

    def exc_ctor(name: str) -> Callable[..., V]:  # type: ignore
        def mk(self: Any, args: List[V], kwargs: Dict[str, V], node: Any, fr: Frame) -> V:
            return VExc(name, list(args))
        return mk

    for _n in ("AssertionError", "ValueError", "NotImplementedError", "KeyError", "IndexError", "TypeError",
               "Exception", "RuntimeError", "SyntaxError", "OSError", "StopIteration"):
        locals()["bi_" + _n] = exc_ctor(_n)
    del _n

    def bi_re_compile(self, args, kwargs, node, fr) -> V:
        p = self.as_str(args[0], node, fr)
        e = VExt("re.Pattern", z3.IntVal(0), {"pattern": p})
        return e

    def regex_match(self, pat: VStr, s: VStr, node: Any, fr: Frame) -> Any:
        """z3 Bool for re.fullmatch(pat, s) on a handful of concrete patterns."""
        if pat.py is None:
            raise Unsupported("symbolic regex")
        if s.py is not None:
            import re
            return z3.BoolVal(re.fullmatch(pat.py, s.py) is not None)
        us = s.units()
        if us is not None:
            direct = self.regex_on_units(pat.py, us)
            if direct is not None:
                return direct
        # a string without known structure: membership in a fixed regular language is an uninterpreted
        # predicate of the string (congruence is all the code under contract needs; z3's regex theory on
        # Seq(Int) times out next to other sequence constraints)
        import hashlib
        f = z3.Function("re_fullmatch_" + hashlib.md5(pat.py.encode()).hexdigest()[:10], SEQ, z3.BoolSort())
        self.note_assumption(f"re.fullmatch({pat.py!r}, s) on a structure-less string is an uninterpreted predicate of s "
                             "(plus: minimal length and the classes of its first and last character)")
        m = f(s.t)
        edges = _regex_edges(pat.py)
        if edges is not None:
            minlen, first, last = edges
            n = z3.Length(s.t)
            facts = [n >= minlen]
            if minlen >= 1:
                def inset(c: Any, rngs: List[Tuple[int, int]]) -> Any:
                    return z3.Or(*[(c == a) if a == b else z3.And(c >= a, c <= b) for a, b in rngs])
                if first is not None:
                    facts.append(inset(s.t[0], first))
                if last is not None:
                    facts.append(inset(s.t[n - 1], last))
            self.path.add_fact(z3.Implies(m, z3.And(*facts)))
        return m

    def regex_weak(self, pat: VStr, s: VStr, kind: str, node: Any, fr: Frame) -> Any:
        """z3 Bool for ``re.match`` / ``re.search``: a predicate of the string of which only
        fullmatch ⇒ match ⇒ search is known (enough to notice that it is weaker than fullmatch)."""
        if pat.py is None:
            raise Unsupported("symbolic regex")
        if s.py is not None:
            import re
            return z3.BoolVal(getattr(re, kind)(pat.py, s.py) is not None)
        import hashlib
        h = hashlib.md5(pat.py.encode()).hexdigest()[:10]
        full = self.regex_match(pat, s, node, fr)
        fm = z3.Function("re_match_" + h, SEQ, z3.BoolSort())
        fs = z3.Function("re_search_" + h, SEQ, z3.BoolSort())
        self.note_assumption(f"re.{kind}({pat.py!r}, s) is an uninterpreted predicate of s implied by re.fullmatch")
        self.path.add_fact(z3.Implies(full, fm(s.t)))
        self.path.add_fact(z3.Implies(fm(s.t), fs(s.t)))
        return fm(s.t) if kind == "match" else fs(s.t)

    def regex_on_units(self, pat: str, us: List[Any]) -> Optional[Any]:
        """fullmatch of a fixed-length pattern (literals / character classes with exact repetition counts)
        against a string whose characters are known one by one: a conjunction of character tests."""
        import sre_parse
        import sre_constants as sc
        try:
            items = list(sre_parse.parse(pat))
        except Exception:
            return None
        tests: List[Any] = []  # one entry per position: list of (lo, hi) ranges

        def cls(arg: Any) -> Optional[List[Tuple[int, int]]]:
            out = []
            for o2, a2 in arg:
                if o2 == sc.LITERAL:
                    out.append((a2, a2))
                elif o2 == sc.RANGE:
                    out.append((a2[0], a2[1]))
                else:
                    return None
            return out

        for op, arg in items:
            if op == sc.LITERAL:
                tests.append([(arg, arg)])
            elif op == sc.IN:
                c = cls(arg)
                if c is None:
                    return None
                tests.append(c)
            elif op == sc.MAX_REPEAT:
                lo, hi, sub = arg
                if lo != hi or len(sub) != 1:
                    return None
                o2, a2 = sub[0]
                if o2 == sc.LITERAL:
                    c2: Optional[List[Tuple[int, int]]] = [(a2, a2)]
                elif o2 == sc.IN:
                    c2 = cls(a2)
                else:
                    return None
                if c2 is None:
                    return None
                tests.extend([c2] * lo)
            else:
                return None
        if len(tests) != len(us):
            return z3.BoolVal(False)
        conj = []
        for u, rngs in zip(us, tests):
            if isinstance(u, int):
                if not any(a <= u <= b for a, b in rngs):
                    return z3.BoolVal(False)
                continue
            conj.append(z3.Or(*[(u == a) if a == b else z3.And(u >= a, u <= b) for a, b in rngs]))
        return z3.And(*conj) if conj else z3.BoolVal(True)

    def bi_re_fullmatch(self, args, kwargs, node, fr) -> V:
        pat = self.as_str(args[0], node, fr)
        s = self.as_str(args[1], node, fr)
        return self.match_result(self.regex_match(pat, s, node, fr))

    def match_result(self, m: Any) -> V:
        return VOpt(z3.Not(m), VExt("re.Match", z3.Int(self.path.fresh_name("$match"))))

    # -------------------------------------------------------------------- methods
    def call_method(self, base: V, name: str, args: List[V], kwargs: Dict[str, V], node: Any, fr: Frame) -> V:
        if isinstance(base, VStr):
            return self.str_method(base, name, args, kwargs, node, fr)
        if isinstance(base, VList):
            return self.list_method(base, name, args, kwargs, node, fr)
        if isinstance(base, VDict):
            return self.dict_method(base, name, args, kwargs, node, fr)
        if isinstance(base, VSet):
            return self.set_method(base, name, args, kwargs, node, fr)
        if isinstance(base, VStream):
            if name == "write":
                base.log.append(self.as_str(args[0], node, fr))
                return NONE
            if name == "getvalue":
                return base.written()
            if name in ("flush", "close"):
                return NONE
            raise Unsupported(f"stream method {name}")
        if isinstance(base, VTuple):
            if name == "index" or name == "count":
                raise Unsupported("tuple method")
        if isinstance(base, VExt):
            return self.ext_method(base, name, args, kwargs, node, fr)
        raise Unsupported(f"method {name} of {base!r}")

    def ext_method(self, base: VExt, name: str, args, kwargs, node, fr) -> V:
        if base.kind == "re.Pattern":
            pat = base.data["pattern"]
            if name == "fullmatch":
                return self.match_result(self.regex_match(pat, self.as_str(args[0], node, fr), node, fr))
            if name in ("match", "search"):
                return self.match_result(self.regex_weak(pat, self.as_str(args[0], node, fr), name, node, fr))
            if name == "pattern":
                return pat
        h = self.engine.ext_methods.get((base.kind.split(".")[-1], name))
        if h is not None:
            return h(self, base, args, kwargs, node, fr)
        raise Unsupported(f"method {base.kind}.{name}")

    def str_method(self, s: VStr, name: str, args, kwargs, node, fr) -> V:
        if s.py is not None and all(isinstance(a, VStr) and a.py is not None for a in args) and not kwargs \
                and name in ("startswith", "endswith", "strip", "lstrip", "rstrip", "lower", "upper", "split",
                             "splitlines", "replace", "count", "isdigit", "find", "title", "capitalize",
                             "isalpha", "isalnum", "isupper", "islower", "isspace", "isidentifier", "rfind"):
            r = getattr(s.py, name)(*[a.py for a in args])  # type: ignore
            return self.from_py(r)
        us0 = s.units() if s.py is None else None
        if us0 is not None and len(us0) <= 160 and name in ("replace", "splitlines", "strip", "lstrip", "rstrip") \
                and all(isinstance(a, VStr) and a.py is not None for a in args):
            return self.units_method(s, us0, name, [a.py for a in args])
        if name in ("startswith", "endswith"):
            alts = args[0].items if isinstance(args[0], VTuple) else [args[0]]
            ts = []
            for a in alts:
                p = self.as_str(a, node, fr)
                ts.append(self.rope_affix(s, p, name == "startswith"))
            return VBool(z3.Or(*ts) if len(ts) > 1 else ts[0])
        if name == "join":
            return self.str_join(s, args[0], node, fr)
        if name == "format":
            return self.str_format(s, args, kwargs, node, fr)
        if name == "strip" and not args:
            f = z3.Function("str_strip", SEQ, SEQ)
            r = f(s.t)
            n = z3.Length(r)
            self.path.add_fact(z3.Implies(n > 0, z3.And(z3.Not(_is_ws(r[0])), z3.Not(_is_ws(r[n - 1])))))
            self.path.add_fact(z3.Contains(s.t, r))
            return VStr([r])
        if name == "count" and s.units() is not None and isinstance(args[0], VStr) and args[0].py is not None \
                and len(args[0].py) == 1:
            c = ord(args[0].py)
            acc: Any = z3.IntVal(0)
            for u in s.units():
                acc = acc + (z3.If(u == c, 1, 0) if not isinstance(u, int) else (1 if u == c else 0))
            return VInt(acc)
        if name == "count":
            p = self.as_str(args[0], node, fr)
            f = z3.Function("str_count", SEQ, SEQ, z3.IntSort())
            r = f(s.t, p.t)
            self.path.add_fact(r >= 0)
            self.path.add_fact((r > 0) == z3.Contains(s.t, p.t))
            return VInt(r)
        if name == "encode":
            f = z3.Function("str_encode", SEQ, SEQ)
            return VStr([f(s.t)], is_bytes=True)
        if name in ("lower", "upper", "replace", "lstrip", "rstrip", "title", "capitalize", "strip"):
            sorts = [SEQ] * (1 + len(args))
            f = z3.Function("str_" + name + str(len(args)), *sorts, SEQ)
            return VStr([f(s.t, *[self.as_str(a, node, fr).t for a in args])])
        if name in ("splitlines", "split"):
            f_len = z3.Function("str_" + name + "_len", SEQ, z3.IntSort())
            f_el = z3.Function("str_" + name + "_el", SEQ, z3.IntSort(), SEQ)
            key = s.t
            if args:
                sep = self.as_str(args[0], node, fr)
                f_len = z3.Function("str_" + name + "1_len", SEQ, SEQ, z3.IntSort())
                f_el = z3.Function("str_" + name + "1_el", SEQ, SEQ, z3.IntSort(), SEQ)
                ln = f_len(s.t, sep.t)
                lst = VList([], base_len=ln, base_get=lambda idx: VStr([f_el(s.t, sep.t, idx)]))
                self.path.add_fact(ln >= 1)
                lst.folds["join:" + (sep.py if sep.py is not None else "?")] = s.t
                lst.split_of = (s, sep)  # type: ignore
                return lst
            ln = f_len(key)
            self.path.add_fact(ln >= 0)
            return VList([], base_len=ln, base_get=lambda idx: VStr([f_el(key, idx)]))
        if name in ("isdigit", "isdecimal"):
            self.ascii_digit_facts(s)
        if name in ("isdigit", "isdecimal", "isalpha", "isalnum", "isupper", "islower", "isspace", "isidentifier"):
            f = z3.Function("str_" + name, SEQ, z3.BoolSort())
            return VBool(f(s.t))
        raise Unsupported(f"str method {name}")

    LINEBREAKS = [10, 13, 11, 12, 0x1C, 0x1D, 0x1E, 0x85, 0x2028, 0x2029]
    SPACES = [9, 10, 11, 12, 13, 0x1C, 0x1D, 0x1E, 0x1F, 32, 0x85, 0xA0, 0x1680, 0x2028, 0x2029, 0x202F, 0x205F, 0x3000]

    def units_method(self, s: VStr, us: List[Any], name: str, pyargs: List[str]) -> V:
        """str.replace / splitlines / strip on a short string given character by character (symbolic
        characters): the result is computed exactly, forking on what each character is."""
        def term(u: Any) -> Any:
            return z3.IntVal(u) if isinstance(u, int) else u

        def is_in(u: Any, codes: List[int], ranges: Any = ()) -> bool:
            if isinstance(u, int):
                return u in codes or any(a <= u <= b for a, b in ranges)
            conds = [u == c for c in codes] + [z3.And(u >= a, u <= b) for a, b in ranges]
            return self.path.branch(z3.Or(*conds))

        def rope(xs: List[Any]) -> VStr:
            return VStr([chr(x) if isinstance(x, int) else z3.Unit(x) for x in xs], is_bytes=s.is_bytes)

        if name == "replace":
            old, new = pyargs[0], pyargs[1]
            if not old:
                raise Unsupported("replace of the empty string")
            k = len(old)
            out: List[Any] = []
            i = 0
            while i < len(us):
                hit = False
                if i + k <= len(us):
                    conds = []
                    concrete_no = False
                    for j in range(k):
                        u = us[i + j]
                        if isinstance(u, int):
                            if u != ord(old[j]):
                                concrete_no = True
                                break
                        else:
                            conds.append(u == ord(old[j]))
                    if not concrete_no:
                        hit = self.path.branch(z3.And(*conds)) if conds else True
                if hit:
                    out.extend(ord(c) for c in new)
                    i += k
                else:
                    out.append(us[i])
                    i += 1
            return rope(out)
        if name in ("strip", "lstrip", "rstrip"):
            lo, hi = 0, len(us)
            if pyargs:
                codes, space_ranges = [ord(c) for c in pyargs[0]], []
            else:
                codes, space_ranges = self.SPACES, [(0x2000, 0x200A)]
            if name in ("strip", "lstrip"):
                while lo < hi and is_in(us[lo], codes, space_ranges):
                    lo += 1
            if name in ("strip", "rstrip"):
                while hi > lo and is_in(us[hi - 1], codes, space_ranges):
                    hi -= 1
            return rope(us[lo:hi])
        if name == "splitlines":
            if pyargs:
                raise Unsupported("splitlines(keepends)")
            lines: List[V] = []
            cur: List[Any] = []
            i = 0
            pending = False
            while i < len(us):
                u = us[i]
                if is_in(u, self.LINEBREAKS):
                    lines.append(rope(cur))
                    cur = []
                    pending = False
                    # "\r\n" is one line break
                    if i + 1 < len(us):
                        is_cr = (u == 13) if isinstance(u, int) else self.path.branch(u == 13)
                        if is_cr:
                            nxt = us[i + 1]
                            is_lf = (nxt == 10) if isinstance(nxt, int) else self.path.branch(nxt == 10)
                            if is_lf:
                                i += 1
                else:
                    cur.append(u)
                    pending = True
                i += 1
            if pending:
                lines.append(rope(cur))
            return VList(lines)
        raise Unsupported(name)

    def rope_affix(self, s: VStr, p: VStr, prefix: bool) -> Any:
        """s.startswith(p) / s.endswith(p), peeling concrete rope parts before asking the seq theory."""
        sp = list(s.parts) if prefix else list(reversed(s.parts))
        pp = list(p.parts) if prefix else list(reversed(p.parts))

        def term_of(parts: List[Any]) -> Any:
            ps = parts if prefix else list(reversed(parts))
            return VStr(ps).t

        while sp and pp:
            a, b = sp[0], pp[0]
            if isinstance(a, str) and isinstance(b, str):
                n = min(len(a), len(b))
                if prefix:
                    if a[:n] != b[:n]:
                        return z3.BoolVal(False)
                    a2, b2 = a[n:], b[n:]
                else:
                    if a[len(a) - n:] != b[len(b) - n:]:
                        return z3.BoolVal(False)
                    a2, b2 = a[:len(a) - n], b[:len(b) - n]
                sp = ([a2] if a2 else []) + sp[1:]
                pp = ([b2] if b2 else []) + pp[1:]
                continue
            if not isinstance(a, str) and not isinstance(b, str) and a.get_id() == b.get_id():
                sp, pp = sp[1:], pp[1:]
                continue
            if isinstance(b, str) and len(b) == 1 and len(pp) == 1 and not isinstance(a, str):
                # one character against a symbolic part: reason on the character, not on sequences
                c = ord(b)
                la = z3.Length(a)
                ch = a[0] if prefix else a[la - 1]
                rest = self.rope_affix(VStr(sp[1:] if prefix else list(reversed(sp[1:]))), self.pystr(b), prefix)
                return z3.Or(z3.And(la > 0, ch == c), z3.And(la == 0, rest))
            break
        if not pp:
            return z3.BoolVal(True)
        if not sp:
            return VStr(pp).t == z3.Empty(SEQ) if not all(isinstance(x, str) for x in pp) else z3.BoolVal(False)
        st, pt = term_of(sp), term_of(pp)
        return z3.PrefixOf(pt, st) if prefix else z3.SuffixOf(pt, st)

    def from_py(self, r: Any) -> V:
        if isinstance(r, bool):
            return VBool(r)
        if isinstance(r, int):
            return VInt(r)
        if isinstance(r, str):
            return self.pystr(r)
        if isinstance(r, bytes):
            return VStr(r)
        if isinstance(r, list):
            return VList([self.from_py(x) for x in r])
        if isinstance(r, tuple):
            return VTuple([self.from_py(x) for x in r])
        if r is None:
            return NONE
        raise Unsupported("python value conversion")

    def str_join(self, sep: VStr, seq: V, node: Any, fr: Frame) -> V:
        if isinstance(seq, VOpt):
            seq = self.unwrap(seq, node, fr, "joined value")
        if isinstance(seq, VLambda):
            return self.join_generator(sep, seq, node, fr)
        if isinstance(seq, VList) and not seq.is_concrete():
            key = "join:" + (sep.py if sep.py is not None else "?")
            if key not in seq.folds:
                if seq.tail and sep.py is None:
                    raise Unsupported("join over a symbolic list without a join fold")
                self.ensure_join_fold(seq, sep, node, fr)
            base = seq.folds[key]
            if sep.py == "":
                view = self.iter_view(seq, node, fr)
                self.path.cache[("join-origin", base.get_id())] = (view[1], view[2])
            parts: List[Any] = [base]
            # items appended after the fold was last synchronised are kept in the fold by append
            return VStr(parts)
        items = self.concrete_items(seq)
        parts2: List[Any] = []
        for k, x in enumerate(items):
            if k:
                parts2.extend(sep.parts)
            parts2.extend(self.as_str(x, node, fr).parts)
        return VStr(parts2)

    def ensure_join_fold(self, seq: VList, sep: VStr, node: Any, fr: Frame) -> Any:
        """The ghost field ``sep.join(seq)`` of a symbolic list: an uninterpreted value for the symbolic base, the
        items appended since then folded in by the definition of join."""
        key = "join:" + (sep.py if sep.py is not None else "?")
        if key in seq.folds:
            return seq.folds[key]
        f = z3.Function("list_join", SEQ, z3.IntSort(), SEQ)
        lid = z3.Int(self.path.fresh_name("$listid." + (seq.ident or "l")))
        cur = f(sep.t, lid)
        if sep.py is not None and sep.py != "":
            # the join of no items is empty
            self.path.add_fact(z3.Implies(seq.base_len == 0, cur == z3.Empty(SEQ)))
        elif sep.py == "":
            self.path.add_fact(z3.Implies(seq.base_len == 0, cur == z3.Empty(SEQ)))
        for j, x in enumerate(seq.tail):
            sv = self.as_str(x, node, fr)
            if sep.py == "":
                cur = z3.Concat(cur, sv.t)
            else:
                first = (seq.base_len + j) == 0
                cur = z3.If(first, sv.t, z3.Concat(cur, sep.t, sv.t))
        seq.folds[key] = cur
        return cur

    def join_generator(self, sep: VStr, gen: VLambda, node: Any, fr: Frame) -> V:
        """``"".join(f(c) for c in text)`` over a symbolic text: an uninterpreted map-join;
        the element expression is exposed to loop-body lemmas (see Contract.loops / 'genexp')."""
        g = gen.node
        comp = g.generators[0]
        it = self.ev(comp.iter, gen.frame)
        view = self.iter_view(it, node, gen.frame)
        n_term, get = view[1], view[2]
        fr0 = gen.frame
        while fr0 is not None and fr0.func is None:
            fr0 = fr0.parent
        spec = None
        if fr0 is not None and fr0.contract is not None:
            spec = self.loop_spec(fr0, g)
        res = z3.Const(self.path.fresh_name("$mapjoin"), SEQ)
        if spec is not None and not spec.exit_only and self.path.choose():
            i = z3.Int(self.path.fresh_name(spec.index))
            self.path.add_fact(z3.And(i >= 0, i < n_term))
            child = Frame(gen.frame.module, None, {}, gen.frame, gen.frame.extra_modules)
            child.in_spec = fr.in_spec
            elem = get(i)
            self.assign_target(comp.target, elem, child, node)
            for c in comp.ifs:
                self.path.assume(self.truthy(self.ev(c, child)))
            piece = self.as_str(self.ev(g.elt, child), node, fr)
            child.env["piece"] = piece
            child.env["elem"] = elem
            for nm, ex in spec.body_ensures:
                self.oblige_spec(nm, ex, "loop-body", node, child)
            for nm, ex in spec.body_twins:
                self.oblige_spec(nm, ex, "loop-body", node, child, twin=True)
            raise PathEnd("generator element checked")
        return VStr([res])

    def str_format(self, s: VStr, args, kwargs, node, fr) -> V:
        if s.py is None:
            raise Unsupported("format on symbolic template")
        import string
        parts: List[Any] = []
        auto = 0
        for lit, field, spec, conv in string.Formatter().parse(s.py):
            if lit:
                parts.append(lit)
            if field is None:
                continue
            if field == "":
                v = args[auto]
                auto += 1
            elif field.isdigit():
                v = args[int(field)]
            else:
                if field not in kwargs:
                    raise Unsupported(f"format field {field}")
                v = kwargs[field]
            parts.extend(self.to_text(v, spec or "", ord(conv) if conv else -1, node, fr).parts)
        return VStr(parts)

    def list_method(self, l: VList, name: str, args, kwargs, node, fr) -> V:
        if name == "append":
            self.list_append(l, args[0], node, fr)
            return NONE
        if name == "extend":
            self.list_extend(l, args[0], fr, node)
            return NONE
        if name == "pop" and l.is_concrete():
            if not l.tail:
                self.ob(z3.BoolVal(False), "index", node, fr, "pop from non-empty list")
                raise PathEnd("IndexError")
            if args:
                ic = z3.simplify(self.as_int(args[0], node, fr))
                if z3.is_int_value(ic):
                    return l.tail.pop(ic.as_long())
                raise Unsupported("pop at symbolic index")
            return l.tail.pop()
        if name == "insert" and l.is_concrete():
            ic = z3.simplify(self.as_int(args[0], node, fr))
            if z3.is_int_value(ic):
                l.tail.insert(ic.as_long(), args[1])
                return NONE
        if name == "copy":
            return self.bi_list([l], {}, node, fr)
        if name == "index" and l.is_concrete():
            for k, x in enumerate(l.tail):
                if self.path.branch(self.eq(args[0], x)):
                    return VInt(k)
            self.ob(z3.BoolVal(False), "value", node, fr, "list.index: item present")
            raise PathEnd("ValueError")
        raise Unsupported(f"list method {name}")

    def list_append(self, l: VList, v: V, node: Any, fr: Frame) -> None:
        l.tail.append(v)
        l.log.append(v)
        for key in list(l.folds):
            if key.startswith("join:"):
                sep = key[5:]
                if sep == "?":
                    raise Unsupported("append to list joined with symbolic separator")
                cur = l.folds[key]
                sv = self.as_str(v, node, fr)
                # non-empty list so far ⇒ separator first
                if sep == "":
                    l.folds[key] = z3.Concat(cur, sv.t)
                else:
                    first = (l.length() - 1) == 0
                    l.folds[key] = z3.If(first, sv.t, z3.Concat(cur, seq_of_py(sep), sv.t))
            elif key.startswith("fold:"):
                step = l.fold_steps[key]  # type: ignore
                l.folds[key] = step(l.folds[key], v)

    def list_extend(self, l: VList, other: V, fr: Frame, node: Any) -> None:
        if isinstance(other, VOpt):
            other = self.unwrap(other, node, fr, "extended list")
        if isinstance(other, VList) and not other.is_concrete():
            # l := l ++ other with a symbolic ``other``: l becomes a symbolic list (read-through views)
            old = VList(list(l.tail), base_len=l.base_len, base_get=l.base_get, elem_ann=l.elem_ann)
            oth = other
            n_old = old.length()
            n_new = z3.simplify(n_old + oth.length())

            def get(idx: Any) -> V:
                if self.path.branch(idx < n_old):
                    return self.list_get(old, idx, node, fr)
                return self.list_get(oth, idx - n_old, node, fr)
            l.tail = []
            l.base_len = n_new
            l.base_get = get
            l.elem_ann = l.elem_ann or oth.elem_ann
            l.folds = {}
            l.log.append(VOpaque("extended"))
            return
        for x in self.concrete_items(other):
            self.list_append(l, x, node, fr)

    def dict_method(self, d: VDict, name: str, args, kwargs, node, fr) -> V:
        if name == "get":
            got = self.dict_get(d, args[0], fr, node)
            default = args[1] if len(args) > 1 else kwargs.get("default", NONE)
            if isinstance(got, VNoneT):
                return default
            if isinstance(got, VOpt):
                if isinstance(default, VNoneT):
                    return got
                m = self.ite_merge(got.isnone, default, got.val)
                if m is not None:
                    return m
                if self.path.branch(got.isnone):
                    return default
                return got.val
            return got
        if name == "items":
            r = VBuiltin("dict-items")
            r.inner = d  # type: ignore
            return r
        if name == "values":
            r = VBuiltin("dict-values")
            r.inner = d  # type: ignore
            return r
        if name == "keys":
            return VList(self.concrete_items(d))
        if name == "update":
            src = args[0]
            if isinstance(src, VDict) and src.base_get is None:
                for k, v in src.items:
                    self.dict_set(d, k, v, fr, node)
                return NONE
        if name == "setdefault":
            got = self.dict_get(d, args[0], fr, node)
            if isinstance(got, VNoneT):
                self.dict_set(d, args[0], args[1], fr, node)
                return args[1]
            if isinstance(got, VOpt):
                raise Unsupported("setdefault on symbolic dict")
            return got
        if name == "copy":
            nd = VDict(list(d.items), base_get=d.base_get, ident=d.ident)
            nd.havocked = d.havocked
            return nd
        raise Unsupported(f"dict method {name}")

    def set_method(self, s: VSet, name: str, args, kwargs, node, fr) -> V:
        if name == "add":
            self.set_add(s, args[0])
            return NONE
        if name == "update":
            for x in self.concrete_items(args[0]):
                self.set_add(s, x)
            return NONE
        raise Unsupported(f"set method {name}")


# ------------------------------------------------------------ contract helper forms
def h_implies(it: Any, node: ast.Call, fr: Frame) -> V:
    a = it.truthy(it.ev(node.args[0], fr))
    g = z3.simplify(a)
    if z3.is_false(g):
        return VBool(True)
    it.path.temps.append(g)
    try:
        b = it.truthy(it.ev(node.args[1], fr))
    finally:
        it.path.temps.pop()
    return VBool(z3.Implies(a, b))


def _quant(it: Any, node: ast.Call, fr: Frame, is_all: bool) -> V:
    lo = it.as_int(it.ev(node.args[0], fr), node, fr)
    hi = it.as_int(it.ev(node.args[1], fr), node, fr)
    lam = node.args[2]
    assert isinstance(lam, ast.Lambda)
    def fn(j: Any) -> Any:
        child = Frame(fr.module, None, {lam.args.args[0].arg: VInt(j)}, fr, fr.extra_modules)
        child.in_spec = True
        return it.truthy(it.ev(lam.body, child))

    return VBool(it.mk_quant(lo, hi, fn, lam.args.args[0].arg, is_all))


def h_forall(it: Any, node: ast.Call, fr: Frame) -> V:
    return _quant(it, node, fr, True)


def h_exists(it: Any, node: ast.Call, fr: Frame) -> V:
    return _quant(it, node, fr, False)


def h_old(it: Any, node: ast.Call, fr: Frame) -> V:
    key = ast.dump(node.args[0])
    f: Optional[Frame] = fr
    while f is not None:
        olds = getattr(f, "olds", None)
        if olds is not None and key in olds:
            return olds[key]
        f = f.parent
    raise Unsupported("old() value was not captured")


def h_pre(it: Any, node: ast.Call, fr: Frame) -> V:
    """pre(expr) in a loop-body lemma: the value of expr at the start of the iteration."""
    key = ast.dump(node.args[0])
    f: Optional[Frame] = fr
    while f is not None:
        pres = getattr(f, "pres", None)
        if pres is not None and key in pres:
            return pres[key]
        f = f.parent
    raise Unsupported("pre() value was not captured")


def h_last_call(it: Any, node: ast.Call, fr: Frame) -> V:
    """last_call("name"): the result of the last call (through its contract) of the function whose
    qualified name ends with ``name`` on this path; an undefined value if it was not called."""
    nm = node.args[0].value  # type: ignore
    for q, res in reversed(it.path.cache.get(("calls",), [])):
        if q.endswith(nm):
            return res
    return VOpaque("undefined.not-called")


def h_was_called(it: Any, node: ast.Call, fr: Frame) -> V:
    nm = node.args[0].value  # type: ignore
    return VBool(any(q.endswith(nm) for q, _ in it.path.cache.get(("calls",), [])))


def h_written(it: Any, node: ast.Call, fr: Frame) -> V:
    s = it.ev(node.args[0], fr)
    if not isinstance(s, VStream):
        raise Unsupported("written() of a non-stream")
    return s.written()


def h_appended(it: Any, node: ast.Call, fr: Frame) -> V:
    """Concatenation of what was appended/written to the accumulator in this iteration."""
    s = it.ev(node.args[0], fr)
    parts: List[Any] = []
    if isinstance(s, VStream):
        for w in s.log:
            parts.extend(w.parts)
        return VStr(parts)
    if isinstance(s, VList):
        for w in s.log:
            parts.extend(it.as_str(w, node, fr).parts)
        return VStr(parts)
    raise Unsupported("appended() of unsupported value")


def h_appended_count(it: Any, node: ast.Call, fr: Frame) -> V:
    s = it.ev(node.args[0], fr)
    if isinstance(s, (VList, VStream)):
        return VInt(len(s.log))
    raise Unsupported("appended_count()")


def h_raised(it: Any, node: ast.Call, fr: Frame) -> V:
    r = fr.lookup("$raised")
    if r is None:
        return VBool(False)
    return r


def h_is_kind(it: Any, node: ast.Call, fr: Frame) -> V:
    """is_kind(obj, ClassRef): isinstance usable in specs on symbolic objects."""
    return it.bi_isinstance([it.ev(node.args[0], fr), it.ev(node.args[1], fr)], {}, node, fr)


def h_pred(it: Any, node: ast.Call, fr: Frame) -> V:
    """pred("name", x, ...): an uninterpreted predicate over object identities / ints / strings."""
    nm = node.args[0].value  # type: ignore
    ts = []
    for a in node.args[1:]:
        v = it.ev(a, fr)
        if isinstance(v, VOpt):
            v = v.val
        if isinstance(v, VOpaque):
            return VBool(z3.Bool(it.path.fresh_name("$pred-undefined")))
        ts.append(it.key_term(v) if not isinstance(v, VExt) else v.ident)
    f = z3.Function("pred_" + nm, *[t.sort() for t in ts], z3.BoolSort())
    return VBool(f(*ts))


def h_final(it: Any, node: ast.Call, fr: Frame) -> V:
    """final(name): value of a local variable of the function at its exit (postconditions only)."""
    f: Optional[Frame] = fr
    while f is not None:
        fe = getattr(f, "final_env", None)
        if fe is not None:
            nm = node.args[0].value  # type: ignore
            if nm in fe:
                return fe[nm]
            raise Unsupported(f"final({nm!r}): no such local at exit")
        f = f.parent
    raise Unsupported("final() outside a postcondition")


def h_dict_writes(it: Any, node: ast.Call, fr: Frame) -> V:
    """Number of item assignments to the dict in this loop iteration (since the last havoc)."""
    d = it.ev(node.args[0], fr)
    return VInt(len(getattr(d, "log", [])))


def h_dict_written(it: Any, node: ast.Call, fr: Frame) -> V:
    """dict_written(d, k): the (key, value) of the k-th item assignment in this iteration."""
    d = it.ev(node.args[0], fr)
    k = it.ev(node.args[1], fr).concrete()
    log = getattr(d, "log", [])
    if k is None or k >= len(log):
        return VOpaque("undefined.dict_written")
    return VTuple([log[k][0], log[k][1]])


HELPERS: Dict[str, Callable[..., V]] = {
    "pred": h_pred, "final": h_final, "pre": h_pre, "last_call": h_last_call, "was_called": h_was_called, "dict_writes": h_dict_writes, "dict_written": h_dict_written,
    "implies": h_implies, "forall": h_forall, "exists": h_exists, "old": h_old, "written": h_written,
    "appended": h_appended, "appended_count": h_appended_count, "is_kind": h_is_kind,
}
