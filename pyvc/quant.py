"""Bounded quantifiers: skolemised in goals, instantiated by hand in hypotheses.

Quantified hypotheses are *not* given to the solver (z3/cvc5 go `unknown` on quantifiers mixed with
sequences).  Each is kept as a closure and instantiated at every "index term" seen on the path (loop
indices, ghost integers, goal skolems, every symbolic subscript).  Dropping the quantified formula only
weakens the hypotheses, so a proof stays sound; a refutation found this way is a candidate that the
native replay has to confirm.
"""
from typing import Any, Callable, List, Optional, Tuple

import z3


class Quant:
    def _qstate(self) -> Any:
        st = self.path.cache.get(("quant",))
        if st is None:
            st = {"reg": {}, "facts": [], "terms": [], "keys": set(), "bound": []}
            self.path.cache[("quant",)] = st
        return st

    def mk_quant(self, lo: Any, hi: Any, fn: Callable[[Any], Any], hint: str, is_all: bool,
                 extra_range: Optional[Callable[[Any], Any]] = None) -> Any:
        st = self._qstate()
        j = z3.Int(self.path.fresh_name("$" + hint))
        st["bound"].append(str(j))
        rng = z3.And(j >= lo, j < hi)
        self.path.temps.append(rng)
        try:
            body = fn(j)
        finally:
            self.path.temps.pop()
            st["bound"].pop()
        if is_all:
            q = z3.ForAll([j], z3.Implies(rng, body))
            st["reg"][q.get_id()] = (lo, hi, fn, q)
            return q
        return z3.Exists([j], z3.And(rng, body))

    def register_index(self, t: Any) -> None:
        if not z3.is_expr(t):
            return
        st = self._qstate()
        kid = t.get_id()
        if kid in st["keys"]:
            return
        st["keys"].add(kid)
        if not st["facts"] and not st["bound"]:
            # nothing to instantiate yet: remember the term only
            st["terms"].append(t)
            return
        sx = t.sexpr()
        if any(b in sx for b in st["bound"]):
            st["keys"].discard(kid)
            return
        if st.get("depth", 0) >= 2 or len(sx) > 400:
            return  # instances of instances: stop (only weakens the hypotheses)
        st["terms"].append(t)
        for fact in list(st["facts"]):
            self._instantiate(fact, t)

    def _instantiate(self, fact: Tuple[Any, Any, Any, Any], t: Any) -> None:
        guard, lo, hi, fn = fact
        rng = z3.And(t >= lo, t < hi)
        cond = z3.simplify(z3.And(guard, rng))
        if z3.is_false(cond):
            return
        st = self._qstate()
        self.path.temps.append(cond)
        st["depth"] = st.get("depth", 0) + 1
        try:
            body = fn(t)
        finally:
            st["depth"] -= 1
            self.path.temps.pop()
        self.path.add_fact(z3.Implies(cond, body))

    def add_qfact(self, guard: Any, lo: Any, hi: Any, fn: Callable[[Any], Any]) -> None:
        st = self._qstate()
        fact = (guard, lo, hi, fn)
        st["facts"].append(fact)
        for t in list(st["terms"]):
            self._instantiate(fact, t)

    def assume_term(self, t: Any, guard: Any = None) -> None:
        """Assume a spec formula; registered universal quantifiers become instantiable facts."""
        st = self._qstate()
        g = z3.BoolVal(True) if guard is None else guard
        if z3.is_and(t):
            for c in t.children():
                self.assume_term(c, guard)
            return
        if z3.is_implies(t):
            a, b = t.children()
            if self._has_registered(b):
                self.assume_term(b, z3.And(g, a))
                return
        if z3.is_quantifier(t) and t.get_id() in st["reg"]:
            lo, hi, fn, _ = st["reg"][t.get_id()]
            self.add_qfact(g, lo, hi, fn)
            return
        self.path.assume(t if guard is None else z3.Implies(g, t))

    def _has_registered(self, t: Any) -> bool:
        st = self._qstate()
        if z3.is_quantifier(t):
            return t.get_id() in st["reg"]
        if z3.is_and(t) or z3.is_implies(t):
            return any(self._has_registered(c) for c in t.children())
        return False

    def goal_term(self, t: Any) -> Any:
        """Skolemise registered universal quantifiers in goal position."""
        st = self._qstate()
        if z3.is_and(t):
            return z3.And(*[self.goal_term(c) for c in t.children()])
        if z3.is_implies(t):
            a, b = t.children()
            if self._has_registered(b):
                self.path.temps.append(a)
                try:
                    gb = self.goal_term(b)
                finally:
                    self.path.temps.pop()
                return z3.Implies(a, gb)
            return t
        if z3.is_quantifier(t) and t.get_id() in st["reg"]:
            lo, hi, fn, _ = st["reg"][t.get_id()]
            s = z3.Int(self.path.fresh_name("$sk"))
            rng = z3.And(s >= lo, s < hi)
            self.path.temps.append(rng)
            try:
                self.register_index(s)
                body = fn(s)
            finally:
                self.path.temps.pop()
            return z3.Implies(rng, body)
        return t
