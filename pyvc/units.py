"""Other kinds of check units besides Contract and Lemma."""
from typing import Any, Callable, Dict, List, Optional, Union


class Scan:
    """Syntactic obligations over the AST of /repo (discharged by constant folding,
    no solver).  ``func(loader) -> List[dict(key, desc, ok, detail, line, func)]``."""

    def __init__(self, name: str, prop: Union[str, List[str]], func: Callable[..., List[Dict[str, Any]]],
                 note: str = ""):
        self.name = name
        self.props = [prop] if isinstance(prop, str) else list(prop)
        self.func = func
        self.note = note


class Native:
    """A check executed natively on the real code under /venv/bin/python.

    kind='bounded': exhaustive small-scope stand-in (stated bound, never counted as proved);
    kind='replay-known': replays the witnesses of known findings;
    kind='examples': recorded examples."""

    def __init__(self, name: str, prop: Union[str, List[str]], entry: str, kind: str = "bounded",
                 bound: str = "", args: Optional[Dict[str, Any]] = None, thorough_args: Optional[Dict[str, Any]] = None,
                 timeout_s: int = 600, note: str = ""):
        self.name = name
        self.props = [prop] if isinstance(prop, str) else list(prop)
        self.entry = entry  # "native.module:function"
        self.kind = kind
        self.bound = bound
        self.args = args or {}
        self.thorough_args = thorough_args
        self.timeout_s = timeout_s
        self.note = note
