"""Symbolic values of the Python subset.

Structure (tuples, lists, objects, dicts) lives on the Python side; z3 terms are only
at the leaves (Int, Bool, Seq(Int) for ``str``/``bytes``).
"""
from typing import Any, Dict, List, Optional, Tuple, Union, Callable

import z3

SEQ = z3.SeqSort(z3.IntSort())
_STR_CACHE: Dict[str, Any] = {}


class Unsupported(Exception):
    """The construct is outside the verified subset (→ undecided, never a violation)."""


def seq_of_py(s: Union[str, bytes]) -> Any:
    key = s if isinstance(s, str) else "b:" + s.decode("latin-1")
    r = _STR_CACHE.get(key)
    if r is None:
        codes = [ord(c) for c in s] if isinstance(s, str) else list(s)
        if len(codes) == 0:
            r = z3.Empty(SEQ)
        elif len(codes) == 1:
            r = z3.Unit(z3.IntVal(codes[0]))
        else:
            r = z3.Concat(*[z3.Unit(z3.IntVal(c)) for c in codes])
        _STR_CACHE[key] = r
    return r


class V:
    """Base of all symbolic values."""


class VNoneT(V):
    def __repr__(self) -> str:
        return "None"


NONE = VNoneT()


class VInt(V):
    def __init__(self, t: Any):
        self.t = z3.IntVal(t) if isinstance(t, int) else t

    def concrete(self) -> Optional[int]:
        t = z3.simplify(self.t)
        if z3.is_int_value(t):
            return t.as_long()
        return None

    def __repr__(self) -> str:
        return f"VInt({self.t})"


class VBool(V):
    def __init__(self, t: Any):
        self.t = z3.BoolVal(t) if isinstance(t, bool) else t

    def concrete(self) -> Optional[bool]:
        t = z3.simplify(self.t)
        if z3.is_true(t):
            return True
        if z3.is_false(t):
            return False
        return None

    def __repr__(self) -> str:
        return f"VBool({self.t})"


class VFloat(V):
    """Floats are opaque (never reasoned about)."""

    def __init__(self, t: Any = None, py: Optional[float] = None):
        self.t = t
        self.py = py


class VStr(V):
    """``str`` (code points) or ``bytes`` as a rope of python strings and Seq(Int) terms."""

    def __init__(self, parts: Any, is_bytes: bool = False, is_char: bool = False):
        if isinstance(parts, (str, bytes)):
            if isinstance(parts, bytes):
                parts = parts.decode("latin-1")
                is_bytes = True
            parts = [parts] if parts else []
        elif not isinstance(parts, list):
            parts = [parts]
        flat: List[Any] = []
        for p in parts:
            if isinstance(p, str):
                if not p:
                    continue
                if flat and isinstance(flat[-1], str):
                    flat[-1] = flat[-1] + p
                else:
                    flat.append(p)
            else:
                flat.append(p)
        self.parts = flat
        self.is_bytes = is_bytes
        self.is_char = is_char
        self._term = None

    @property
    def py(self) -> Optional[str]:
        if not self.parts:
            return ""
        if len(self.parts) == 1 and isinstance(self.parts[0], str):
            return self.parts[0]
        return None

    @property
    def t(self) -> Any:
        if self._term is None:
            ts = [seq_of_py(p) if isinstance(p, str) else p for p in self.parts]
            if not ts:
                self._term = z3.Empty(SEQ)
            elif len(ts) == 1:
                self._term = ts[0]
            else:
                self._term = z3.Concat(*ts)
        return self._term

    def units(self) -> Optional[List[Any]]:
        """The string as a list of code points (python ints or z3 Int terms) if every part is a
        literal string or a single-character ``Unit(x)``; else None."""
        out: List[Any] = []
        for p in self.parts:
            if isinstance(p, str):
                out.extend(ord(ch) for ch in p)
            elif z3.is_app(p) and p.decl().kind() == z3.Z3_OP_SEQ_UNIT:
                out.append(p.arg(0))
            else:
                return None
        return out

    def __repr__(self) -> str:
        return f"VStr({self.py!r})" if self.py is not None else f"VStr({self.parts})"


def vconcat(a: VStr, b: VStr) -> VStr:
    return VStr(a.parts + b.parts, is_bytes=a.is_bytes or b.is_bytes)


class VOpt(V):
    """Optional[T] with a symbolic none-ness; ``val`` is never None/VOpt."""

    def __init__(self, isnone: Any, val: V):
        self.isnone = isnone
        self.val = val

    def __repr__(self) -> str:
        return f"VOpt({self.isnone}, {self.val})"


class VTuple(V):
    def __init__(self, items: List[V]):
        self.items = list(items)

    def __repr__(self) -> str:
        return f"VTuple({self.items})"


class VList(V):
    """A list: symbolic base (length + lazily read elements) followed by a concrete tail.

    ``folds`` are model fields (ghost prefix folds, e.g. ``join``) maintained by append.
    ``log`` records what was appended since the last havoc (for loop-body lemmas).
    """

    def __init__(self, items: Optional[List[V]] = None, base_len: Any = None,
                 base_get: Optional[Callable[[Any], V]] = None, elem_ann: Any = None,
                 kind: str = "list"):
        self.tail: List[V] = list(items or [])
        self.base_len = base_len  # z3 Int or None
        self.base_get = base_get
        self.elem_ann = elem_ann
        self.kind = kind  # list | tuple-like sequence | generator
        self.folds: Dict[str, Any] = {}
        self.log: List[V] = []
        self.ident: Optional[str] = None

    def is_concrete(self) -> bool:
        return self.base_len is None

    def length(self) -> Any:
        if self.base_len is None:
            return z3.IntVal(len(self.tail))
        return self.base_len + len(self.tail) if self.tail else self.base_len

    def __repr__(self) -> str:
        return f"VList(base={self.base_len}, tail={self.tail})"


class VDict(V):
    """Dict with concrete insertion-ordered items and an optional symbolic base."""

    def __init__(self, items: Optional[List[Tuple[V, V]]] = None,
                 base_get: Optional[Callable[[V], V]] = None, ident: Optional[str] = None):
        self.items: List[Tuple[V, V]] = list(items or [])
        self.base_get = base_get  # key -> VOpt
        self.ident = ident
        self.havocked = False


class VSet(V):
    def __init__(self, items: Optional[List[V]] = None, base_has: Optional[Callable[[V], Any]] = None,
                 frozen: bool = False):
        self.items: List[V] = list(items or [])
        self.base_has = base_has
        self.frozen = frozen


class VEnum(V):
    def __init__(self, cls: Any, idx: Any):
        self.cls = cls
        self.idx = z3.IntVal(idx) if isinstance(idx, int) else idx

    def __repr__(self) -> str:
        return f"VEnum({self.cls.name}, {self.idx})"


class ConcObj(V):
    """An object allocated by the code under verification (concrete identity)."""

    _n = 0

    def __init__(self, cls: Any):
        self.cls = cls
        self.fields: Dict[str, V] = {}

    def __repr__(self) -> str:
        return f"<obj {self.cls.name} {sorted(self.fields)}>"


class SymObj(V):
    """A symbolic input object: fields are uninterpreted functions of ``ident``."""

    def __init__(self, ident: Any, static: Tuple[Any, ...]):
        self.ident = ident
        self.static = static

    def key(self) -> str:
        return self.ident.sexpr()

    def __repr__(self) -> str:
        return f"<sym {'|'.join(c.name for c in self.static)} {self.ident}>"


class VExt(V):
    """Object of a library class (pathlib.Path, TextIO, ast.AST, …), opaque."""

    def __init__(self, kind: str, ident: Any, data: Optional[Dict[str, Any]] = None):
        self.kind = kind
        self.ident = ident
        self.data = data or {}

    def __repr__(self) -> str:
        return f"<ext {self.kind} {self.ident}>"


class VStream(V):
    """TextIO / io.StringIO: a ghost trace of written strings."""

    def __init__(self, name: str):
        self.name = name
        self.log: List[VStr] = []
        self.prefix: Optional[Any] = None  # symbolic earlier content (after havoc)

    def written(self) -> VStr:
        parts: List[Any] = []
        if self.prefix is not None:
            parts.append(self.prefix)
        for w in self.log:
            parts.extend(w.parts)
        return VStr(parts)


class VClassRef(V):
    def __init__(self, cls: Any):
        self.cls = cls

    def __repr__(self) -> str:
        return f"<classref {self.cls.name}>"


class VFuncRef(V):
    def __init__(self, func: Any, bound: Optional[V] = None):
        self.func = func
        self.bound = bound

    def __repr__(self) -> str:
        return f"<funcref {self.func.qualname}>"


class VModuleRef(V):
    def __init__(self, module: Any):
        self.module = module  # loader.Module or dotted str (external)

    def __repr__(self) -> str:
        return f"<module {getattr(self.module, 'name', self.module)}>"


class VBuiltin(V):
    def __init__(self, name: str, bound: Optional[V] = None):
        self.name = name
        self.bound = bound

    def __repr__(self) -> str:
        return f"<builtin {self.name}>"


class VLambda(V):
    def __init__(self, node: Any, frame: Any):
        self.node = node
        self.frame = frame


class VOpaque(V):
    """A value we know nothing about (annotation Any / unsupported library result)."""

    def __init__(self, hint: str = ""):
        self.hint = hint

    def __repr__(self) -> str:
        return f"<opaque {self.hint}>"


class VExc(V):
    """An exception instance."""

    def __init__(self, cls_name: str, args: List[V], cls: Any = None):
        self.cls_name = cls_name
        self.args = args
        self.cls = cls

    def __repr__(self) -> str:
        return f"<exc {self.cls_name}>"


class VPrimUnion(V):
    """Union of primitive types (e.g. the value of a constant node): tagged alternatives."""

    def __init__(self, kind: Any, order: List[str], alts: Dict[str, V]):
        self.kind = kind
        self.order = order
        self.alts = alts

    def is_kind(self, *names: str) -> Any:
        idxs = [i for i, n in enumerate(self.order) if n in names]
        if not idxs:
            return z3.BoolVal(False)
        return z3.Or(*[self.kind == i for i in idxs])
