"""One execution path: decisions (for replay-based forking), path condition, obligations."""
import time
from typing import Any, Dict, List, Optional, Tuple

import z3


class PathEnd(Exception):
    """The path ends here (infeasible, or cut at a loop after the invariant check)."""


class Obligation:
    def __init__(self, key: str, kind: str, func: str, line: int, desc: str):
        self.key = key
        self.kind = kind
        self.func = func
        self.line = line
        self.desc = desc
        self.status = "unknown"  # proved | refuted | unknown | trivial
        self.backend = ""
        self.time = 0.0
        self.model: Optional[Dict[str, str]] = None
        self.smt2: Optional[str] = None
        self.path_id = ""
        self.twin = False  # must-fail twin (vacuity guard)

    def to_json(self) -> Dict[str, Any]:
        return {
            "key": self.key, "kind": self.kind, "func": self.func, "line": self.line,
            "desc": self.desc, "status": self.status, "backend": self.backend,
            "time_s": round(self.time, 4), "model": self.model, "path": self.path_id,
            "twin": self.twin, "smt2": self.smt2,
        }


BRANCH_TIMEOUT_MS = 3000
OBLIGATION_TIMEOUT_MS = 10000


class Path:
    def __init__(self, preset: List[Tuple[bool, bool]], ob_timeout_ms: int = OBLIGATION_TIMEOUT_MS):
        self.decisions: List[Tuple[bool, bool]] = list(preset)
        self.n_preset = len(preset)
        self.cursor = 0
        self.solver = z3.Solver()
        self.perm: List[Any] = []
        self._seen_facts: set = set()
        self._pending: List[Any] = []
        self.temps: List[Any] = []
        self.obligations: List[Obligation] = []
        self.counters: Dict[str, int] = {}
        self.cache: Dict[Any, Any] = {}  # per-path caches (module globals, sym fields)
        self.ob_timeout_ms = ob_timeout_ms
        self.n_checks = 0
        self.solver_time = 0.0
        self.notes: List[str] = []
        self.assumptions_used: List[str] = []
        self.model_terms: List[Tuple[str, Any]] = []  # named input terms for models
        self.reached_return = False
        import os as _os
        self.fork_mode = _os.environ.get("PYVC_FORK", "0") == "1"
        self.is_child = False
        self.report_fd = -1
        self.ob_start = 0
        self.child_results: List[Dict[str, Any]] = []

    # -- naming -------------------------------------------------------------------
    def fresh_name(self, hint: str) -> str:
        n = self.counters.get(hint, 0)
        self.counters[hint] = n + 1
        return f"{hint}!{n}" if n else hint

    # -- path condition -------------------------------------------------------------
    def _guarded(self, term: Any) -> Any:
        if self.temps:
            return z3.Implies(z3.And(*self.temps) if len(self.temps) > 1 else self.temps[0], term)
        return term

    def add_fact(self, term: Any) -> None:
        """Assume without feasibility check (axiom instance / type invariant)."""
        g = self._guarded(term)
        k = g.get_id()
        if k in self._seen_facts:
            return
        self._seen_facts.add(k)
        self.perm.append(g)
        self._pending.append(g)

    def _check(self, *extra: Any, timeout_ms: int = BRANCH_TIMEOUT_MS) -> Any:
        if self._pending:
            self.solver.add(*self._pending)
            self._pending = []
        self.solver.set("timeout", timeout_ms)
        t0 = time.time()
        r = self.solver.check(*self.temps, *extra)
        self.solver_time += time.time() - t0
        self.n_checks += 1
        return r

    def assume(self, term: Any) -> None:
        """Assume and end the path if it became infeasible."""
        term = z3.simplify(term)
        if z3.is_true(term):
            return
        if z3.is_false(term):
            import os
            if os.environ.get("PYVC_DEBUG"):
                import traceback
                traceback.print_stack(limit=6)
            raise PathEnd("assume false")
        self.add_fact(term)
        if self.cursor >= self.n_preset:
            if self._check() == z3.unsat:
                raise PathEnd("infeasible after assume")

    def replaying(self) -> bool:
        return self.cursor < self.n_preset

    def branch(self, cond: Any) -> bool:
        cond = z3.simplify(cond)
        if z3.is_true(cond):
            return True
        if z3.is_false(cond):
            return False
        if self.cursor < len(self.decisions):
            d, _ = self.decisions[self.cursor]
            self.cursor += 1
            self.add_fact(cond if d else z3.Not(cond))
            return d
        rt = self._check(cond)
        if rt == z3.unsat:
            d, alt = False, False
        else:
            rf = self._check(z3.Not(cond))
            if rf == z3.unsat:
                d, alt = True, False
            else:
                d, alt = True, True
        if alt and self.fork_mode:
            d = self._fork()
            alt = False
        self.decisions.append((d, alt))
        self.cursor += 1
        self.add_fact(cond if d else z3.Not(cond))
        return d

    def _fork(self) -> bool:
        """Explore both alternatives without re-executing the common prefix: the child process takes the
        True side and reports what it (and its own children) found; this process then takes the False side."""
        import os
        import pickle
        r, w = os.pipe()
        pid = os.fork()
        if pid == 0:
            os.close(r)
            self.is_child = True
            self.report_fd = w
            self.ob_start = len(self.obligations)
            self.child_results = []
            self.solver_time = 0.0
            self.n_checks = 0
            return True
        os.close(w)
        chunks = []
        while True:
            b = os.read(r, 1 << 20)
            if not b:
                break
            chunks.append(b)
        os.close(r)
        os.waitpid(pid, 0)
        try:
            self.child_results.append(pickle.loads(b"".join(chunks)))
        except Exception:
            self.child_results.append({"errors": ["checker crash: a forked path explorer died without reporting"],
                                       "obligations": [], "paths": 0, "returned": 0, "notes": [],
                                       "assumptions": [], "functions": {}, "solver_time": 0.0, "checks": 0})
        return False

    def choose(self) -> bool:
        """Nondeterministic choice, both alternatives explored."""
        if self.cursor < len(self.decisions):
            d, _ = self.decisions[self.cursor]
            self.cursor += 1
            return d
        if self.fork_mode:
            d = self._fork()
            self.decisions.append((d, False))
            self.cursor += 1
            return d
        self.decisions.append((True, True))
        self.cursor += 1
        return True

    def path_id(self) -> str:
        return "".join("T" if d else "F" for d, _ in self.decisions[: self.cursor])

    # -- obligations ----------------------------------------------------------------
    def oblige(self, goal: Any, ob: Obligation, assume_after: bool = True) -> Obligation:
        ob.path_id = self.path_id()
        goal = z3.simplify(goal)
        if self.replaying():
            # already checked on the path this one was forked from (identical prefix)
            if assume_after and not z3.is_true(goal):
                self.add_fact(goal)
            return ob
        if z3.is_true(goal):
            ob.status = "trivial"
            ob.backend = "simplifier"
            self.obligations.append(ob)
            return ob
        t0 = time.time()
        r = self._check(z3.Not(goal), timeout_ms=min(1500, self.ob_timeout_ms))
        if r == z3.unknown:
            # quick attempt failed: first the hypotheses connected to the goal only, then everything
            s3 = z3.Solver()
            s3.set("timeout", self.ob_timeout_ms)
            s3.add(*self.relevant_facts(goal), z3.Not(goal))
            t1 = time.time()
            r3 = s3.check()
            self.solver_time += time.time() - t1
            if r3 == z3.unsat:
                ob.time = time.time() - t0
                ob.backend = "z3-" + z3.get_version_string() + "+cone-of-influence"
                ob.status = "proved"
                self.obligations.append(ob)
                if assume_after:
                    self.add_fact(goal)
                return ob
            r = self._check(z3.Not(goal), timeout_ms=self.ob_timeout_ms)
        ob.time = time.time() - t0
        ob.backend = "z3-" + z3.get_version_string()
        if r == z3.unsat:
            ob.status = "proved"
        elif r == z3.sat:
            ob.status = "refuted"
            import os as _os
            if _os.environ.get("PYVC_DEBUG") == "2":
                print("REFUTED", ob.key, "\n  goal:", goal, "\n  last facts:", self.perm[-6:])
            try:
                m = self.solver.model()
                ob.model = self.render_model(m)
            except z3.Z3Exception:
                ob.model = None
        else:
            ob.status = "unknown"
            # retry with fewer hypotheses (sound: dropping hypotheses only weakens them)
            for how, facts in (("cone-of-influence", self.relevant_facts(goal)),
                               ("no-sequence-facts", [f for f in self.perm + self.temps if not _has_seq(f)])):
                s3 = z3.Solver()
                s3.set("timeout", self.ob_timeout_ms)
                s3.add(*facts, z3.Not(goal))
                t1 = time.time()
                r3 = s3.check()
                self.solver_time += time.time() - t1
                if r3 == z3.unsat:
                    ob.status = "proved"
                    ob.backend += "+" + how
                    break
            if ob.status == "unknown":
                s2 = z3.Solver()
                s2.add(*self.perm, *self.temps, z3.Not(goal))
                ob.smt2 = s2.to_smt2()
            ob.time = time.time() - t0
        self.obligations.append(ob)
        if assume_after:
            self.add_fact(goal)
        return ob

    def relevant_facts(self, goal: Any) -> List[Any]:
        """Hypotheses connected to the goal through shared uninterpreted symbols (3 rounds)."""
        facts = self.perm + self.temps
        syms = [_symbols(f) for f in facts]
        cur = _symbols(goal)
        chosen = [False] * len(facts)
        for _ in range(3):
            grew = False
            for k, s in enumerate(syms):
                if not chosen[k] and (s & cur or not s):
                    chosen[k] = True
                    if not s <= cur:
                        cur = cur | s
                        grew = True
            if not grew:
                break
        return [f for k, f in enumerate(facts) if chosen[k]]

    def render_model(self, m: Any) -> Dict[str, str]:
        out: Dict[str, str] = {}
        for name, term in self.model_terms:
            try:
                v = m.eval(term, model_completion=True)
                out[name] = model_value_to_str(v)
            except z3.Z3Exception:
                pass
        return out


_SYM_CACHE: Dict[int, Any] = {}


def _symbols(t: Any) -> Any:
    """Names of uninterpreted constants / functions occurring in a term."""
    key = t.get_id()
    if key in _SYM_CACHE:
        return _SYM_CACHE[key]
    out = set()
    seen = set()
    stack = [t]
    while stack:
        x = stack.pop()
        i = x.get_id()
        if i in seen:
            continue
        seen.add(i)
        if z3.is_quantifier(x):
            stack.append(x.body())
            continue
        if z3.is_app(x):
            if x.decl().kind() == z3.Z3_OP_UNINTERPRETED:
                out.add(x.decl().name())
            stack.extend(x.children())
    res = frozenset(out)
    _SYM_CACHE[key] = res
    return res


def _has_seq(t: Any) -> bool:
    seen = set()
    stack = [t]
    while stack:
        x = stack.pop()
        i = x.get_id()
        if i in seen:
            continue
        seen.add(i)
        if z3.is_quantifier(x):
            stack.append(x.body())
            continue
        if z3.is_expr(x) and x.sort().kind() in (z3.Z3_SEQ_SORT, z3.Z3_RE_SORT):
            return True
        if z3.is_app(x):
            stack.extend(x.children())
    return False


def model_value_to_str(v: Any) -> str:
    """Render ints / bools / Seq(Int) model values in a parseable way."""
    if z3.is_int_value(v):
        return str(v.as_long())
    if z3.is_true(v):
        return "True"
    if z3.is_false(v):
        return "False"
    codes = seq_value_codes(v)
    if codes is not None:
        return "seq:" + ",".join(str(c) for c in codes)
    return str(v)


def seq_value_codes(v: Any) -> Optional[List[int]]:
    try:
        if z3.is_app(v):
            k = v.decl().kind()
            if k == z3.Z3_OP_SEQ_EMPTY:
                return []
            if k == z3.Z3_OP_SEQ_UNIT:
                a = v.arg(0)
                if z3.is_int_value(a):
                    return [a.as_long()]
                return None
            if k == z3.Z3_OP_SEQ_CONCAT:
                out: List[int] = []
                for i in range(v.num_args()):
                    c = seq_value_codes(v.arg(i))
                    if c is None:
                        return None
                    out.extend(c)
                return out
    except z3.Z3Exception:
        return None
    return None
