"""Sidecar contracts: specifications for functions of /repo, kept outside /repo.

All expressions are Python expressions (strings) evaluated by the same symbolic
evaluator as the code, in the scope of the function's parameters, ``result``, declared
ghost variables, helper predicates (``implies``, ``forall``, ``exists``, ``old``,
``written``, ``appended``) and the functions of the listed spec modules.
"""
from typing import Any, Callable, Dict, List, Optional, Tuple, Union

Named = Union[str, Tuple[str, str]]


def _named(xs: Optional[List[Named]], prefix: str) -> List[Tuple[str, str]]:
    out = []
    for i, x in enumerate(xs or []):
        if isinstance(x, tuple):
            out.append((x[0], x[1]))
        else:
            out.append((f"{prefix}[{i}]", x))
    return out


class Loop:
    def __init__(self, invariants: Optional[List[Named]] = None, modifies: Optional[List[str]] = None,
                 index: str = "_i", prefix_folds: Optional[Dict[str, Tuple[str, str, str]]] = None,
                 body_ensures: Optional[List[Named]] = None, header: Optional[str] = None,
                 elem_facts: Optional[List[str]] = None, body_twins: Optional[List[Named]] = None,
                 exit_only: bool = False, list_folds: Optional[Dict[str, Dict[str, str]]] = None,
                 use_gfolds: Optional[List[str]] = None, also_modifies: Optional[List[str]] = None,
                 join_prefixes: Optional[Dict[str, str]] = None, acc: str = "_out", acc_type: Optional[str] = None):
        self.use_gfolds = use_gfolds or []
        # name -> separator: name(k) is sep.join(xs[:k]) of the iterated list xs (definition instantiated at the loop
        # index; name(len(xs)) is sep.join(xs))
        self.join_prefixes = join_prefixes or {}
        # list comprehensions cut like loops (Contract.comps): ghost name and declared type of the list being built
        self.acc = acc
        self.acc_type = acc_type
        self.also_modifies = also_modifies or []
        self.invariants = _named(invariants, "inv")
        self.modifies = modifies
        self.index = index
        # name -> (sort 'bool'|'int'|'str', init expr, step lambda "lambda acc, x: ...")
        self.prefix_folds = prefix_folds or {}
        self.body_ensures = _named(body_ensures, "body")
        self.body_twins = _named(body_twins, "body-twin")
        self.header = header
        self.elem_facts = elem_facts or []
        self.exit_only = exit_only
        self.skip_exit = False
        # list variable -> {fold name: "lambda acc, x: ..."}: a boolean fold over the elements of the list, kept up to
        # date by append; fold_name(the_list) in invariants and postconditions
        self.list_folds = list_folds or {}


class Contract:
    def __init__(self, target: str, prop: Union[str, List[str]] = "", args: Optional[Dict[str, Any]] = None,
                 ghost: Optional[Dict[str, str]] = None, requires: Optional[List[Named]] = None,
                 ensures: Optional[List[Named]] = None, twins: Optional[List[Named]] = None,
                 loops: Optional[Dict[int, Loop]] = None, raises: Optional[Dict[str, Optional[str]]] = None,
                 inline: Optional[List[str]] = None, opaque: Optional[List[str]] = None,
                 modifies: Optional[List[str]] = None, specs: Optional[List[str]] = None,
                 setup: Optional[Callable[..., None]] = None, name: Optional[str] = None,
                 no_raise: bool = True, assume_repo_requires: bool = True, prove_repo_ensures: bool = True,
                 use_as_callee: bool = True, max_paths: int = 4000, facts: Optional[List[str]] = None,
                 note: str = "", allow_sym_writes: bool = False, inline_depth: int = 8,
                 replay: Optional[str] = None, expect_paths: int = 1, ob_timeout_ms: Optional[int] = None,
                 assumed: bool = False, justification: str = "", pure: Optional[List[str]] = None,
                 comps: Optional[Dict[int, Loop]] = None):
        self.comps = comps or {}  # list comprehensions of the function (1-based, source order) cut like loops
        self.pure = pure or []  # qualname prefixes treated as uninterpreted pure functions
        self.assumed = assumed  # trusted contract of a function outside the verifier's reach: never "proved"
        self.justification = justification
        self.target = target
        self.props = [prop] if isinstance(prop, str) else list(prop)
        self.args = args or {}
        self.ghost = ghost or {}
        self.requires = _named(requires, "requires")
        self.ensures = _named(ensures, "ensures")
        self.twins = _named(twins, "twin")
        self.loops = loops or {}
        self.raises = raises or {}
        self.inline = set(inline or [])
        self.opaque = set(opaque or [])
        self.modifies = modifies or []
        self.specs = specs or []
        self.setup = setup
        self.name = name or target
        self.no_raise = no_raise
        self.assume_repo_requires = assume_repo_requires
        self.prove_repo_ensures = prove_repo_ensures
        self.use_as_callee = use_as_callee
        self.max_paths = max_paths
        self.facts = facts or []
        self.note = note
        self.allow_sym_writes = allow_sym_writes
        self.inline_depth = inline_depth
        self.replay = replay
        self.expect_paths = expect_paths
        self.ob_timeout_ms = ob_timeout_ms


class Lemma:
    """A closed statement over spec functions / contracts: ``forall vars. hyps ==> goal``."""

    def __init__(self, name: str, prop: Union[str, List[str]], vars: Dict[str, str], goal: List[Named],
                 hyps: Optional[List[str]] = None, specs: Optional[List[str]] = None,
                 twins: Optional[List[Named]] = None, note: str = "", module: Optional[str] = None,
                 ob_timeout_ms: Optional[int] = None, max_paths: int = 4000):
        self.name = name
        self.props = [prop] if isinstance(prop, str) else list(prop)
        self.vars = vars
        self.hyps = hyps or []
        self.goal = _named(goal, "goal")
        self.twins = _named(twins, "twin")
        self.specs = specs or []
        self.note = note
        self.module = module
        self.ob_timeout_ms = ob_timeout_ms
        self.max_paths = max_paths
