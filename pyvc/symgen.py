"""Creation of symbolic values from type annotations (mixin of Interp)."""
import ast
from typing import Any, List, Optional, Tuple

import z3

from .loader import ClassInfo, Module
from .values import (SEQ, NONE, V, VBool, VDict, VEnum, VExt, VFloat, VInt, VList, VOpaque, VOpt,
                     VSet, VStr, VStream, VTuple, SymObj, Unsupported, VPrimUnion)

LISTLIKE = {"List", "Sequence", "Iterable", "Iterator", "MutableSequence", "Collection", "list",
            "typing.List", "typing.Sequence", "typing.Iterable", "typing.Iterator", "Generator"}
DICTLIKE = {"Mapping", "MutableMapping", "Dict", "dict", "OrderedDict", "typing.Mapping",
            "typing.MutableMapping", "typing.Dict", "collections.OrderedDict"}
SETLIKE = {"Set", "FrozenSet", "AbstractSet", "set", "frozenset", "typing.Set", "typing.FrozenSet",
           "typing.AbstractSet", "MutableSet"}
STREAMS = {"TextIO", "typing.TextIO", "io.StringIO", "StringIO", "io.TextIOBase"}
PRIMS = {"int", "bool", "str", "bytes", "float", "bytearray"}


class SymGen:
    """Mixin: needs self.path, self.engine."""

    def leaf(self, sort: Any, name: str, args: Tuple[Any, ...]) -> Any:
        if not args:
            return z3.Const(name, sort)
        f = z3.Function(name, *[a.sort() for a in args], sort)
        return f(*args)

    def ann_name(self, ann: ast.expr, module: Module) -> str:
        """Dotted head name of an annotation, resolved through imports where external."""
        if isinstance(ann, ast.Name):
            return ann.id
        if isinstance(ann, ast.Attribute):
            parts = []
            e: ast.expr = ann
            while isinstance(e, ast.Attribute):
                parts.append(e.attr)
                e = e.value
            if isinstance(e, ast.Name):
                parts.append(e.id)
            return ".".join(reversed(parts))
        return ""

    def parse_ann(self, ann: Any, module: Module) -> Tuple[Any, Module]:
        if isinstance(ann, str):
            ann = ast.parse(ann, mode="eval").body
        if isinstance(ann, ast.Constant) and isinstance(ann.value, str):
            ann = ast.parse(ann.value, mode="eval").body
        return ann, module

    def resolve_alias(self, ann: ast.expr, module: Module) -> Tuple[ast.expr, Module]:
        """Follow module-level type aliases ``X = Union[...]``."""
        for _ in range(10):
            if isinstance(ann, ast.Constant) and isinstance(ann.value, str):
                # a forward reference written as a string
                try:
                    ann = ast.parse(ann.value, mode="eval").body
                except SyntaxError:
                    break
                continue
            if isinstance(ann, ast.Name):
                r = module.lookup(ann.id)
                if r is not None and r[0] == "assign":
                    m2, e = r[1]
                    if isinstance(e, (ast.Subscript, ast.Name, ast.Attribute)):
                        ann, module = e, m2
                        continue
                    if isinstance(e, ast.Constant) and isinstance(e.value, str):
                        ann, module = ast.parse(e.value, mode="eval").body, m2
                        continue
            elif isinstance(ann, ast.Attribute):
                base = module.resolve_expr_to_module(ann.value)
                if isinstance(base, Module):
                    r = base.lookup(ann.attr)
                    if r is not None and r[0] == "assign":
                        m2, e = r[1]
                        if isinstance(e, (ast.Subscript, ast.Name, ast.Attribute)):
                            ann, module = e, m2
                            continue
            break
        return ann, module

    def mk_sym(self, ann: Any, module: Module, name: str, args: Tuple[Any, ...] = ()) -> V:
        """A fresh symbolic value of the annotated type; leaves are ``name`` applied to ``args``."""
        if ann is None:
            return VOpaque(name)
        ann, module = self.parse_ann(ann, module)
        ann, module = self.resolve_alias(ann, module)
        ann, module = self.parse_ann(ann, module)
        if isinstance(ann, ast.Constant) and ann.value is None:
            return NONE
        if isinstance(ann, ast.Subscript):
            head = self.ann_name(ann.value, module).split(".")[-1]
            sl = ann.slice
            params = list(sl.elts) if isinstance(sl, ast.Tuple) else [sl]
            if head in ("Final", "ClassVar", "Annotated"):
                return self.mk_sym(params[0], module, name, args)
            if head == "Optional":
                inner = self.mk_sym(params[0], module, name, args)
                if isinstance(inner, VOpt):
                    return inner
                return VOpt(self.leaf(z3.BoolSort(), name + "?none", args), inner)
            if head == "Union":
                nones = [p for p in params if isinstance(p, ast.Constant) and p.value is None]
                rest = [p for p in params if not (isinstance(p, ast.Constant) and p.value is None)]
                if len(rest) == 1:
                    inner = self.mk_sym(rest[0], module, name, args)
                else:
                    inner = self.mk_union(rest, module, name, args)
                if nones and not isinstance(inner, VOpt):
                    return VOpt(self.leaf(z3.BoolSort(), name + "?none", args), inner)
                return inner
            if head == "Tuple":
                if len(params) == 2 and isinstance(params[1], ast.Constant) and params[1].value is Ellipsis:
                    return self.mk_list(params[0], module, name, args)
                return VTuple([self.mk_sym(p, module, f"{name}.{i}", args) for i, p in enumerate(params)])
            if head in LISTLIKE:
                return self.mk_list(params[0], module, name, args)
            if head in DICTLIKE:
                return self.mk_dict(params[0], params[1], module, name, args)
            if head in SETLIKE:
                return self.mk_set(params[0], module, name, args)
            if head in ("Callable", "Type"):
                o = VOpaque(name)
                if head == "Callable" and len(params) == 2:
                    # a callable argument is treated as a pure, deterministic function of its arguments
                    o.callable_ret = (params[1], module)  # type: ignore
                return o
            # generic user class
            return self.mk_sym(ann.value, module, name, args)
        head = self.ann_name(ann, module)
        short = head.split(".")[-1]
        if head == "int":
            return VInt(self.leaf(z3.IntSort(), name, args))
        if head == "bool":
            return VBool(self.leaf(z3.BoolSort(), name, args))
        if head in ("str", "bytes", "bytearray"):
            t = self.leaf(SEQ, name, args)
            return VStr([t], is_bytes=head != "str")
        if head == "float":
            return VFloat(self.leaf(z3.IntSort(), name + "!float", args))
        if head in ("None", "NoneType"):
            return NONE
        if head in ("Any", "typing.Any", "object", "T"):
            return VOpaque(name)
        if short in STREAMS or head in STREAMS:
            st = VStream(name)
            st.prefix = self.leaf(SEQ, name + ".before", args)
            return st
        if short in LISTLIKE:
            return self.mk_list(None, module, name, args)
        cls = module.resolve_expr_to_class(ann)
        if isinstance(cls, ClassInfo):
            return self.mk_instance(cls, name, args)
        # external class
        kind = cls if isinstance(cls, str) else head
        ext = VExt(kind, self.leaf(z3.IntSort(), name, args))
        if kind.startswith("ast.") and self.engine.ast_model is not None:
            self.path.add_fact(self.engine.ast_model[0](self, ext, kind.split(".")[-1]))
        return ext

    def mk_instance(self, cls: ClassInfo, name: str, args: Tuple[Any, ...]) -> V:
        if cls.is_enum():
            idx = self.leaf(z3.IntSort(), name, args)
            n = len(cls.enum_members())
            self.path.add_fact(z3.And(idx >= 0, idx < n))
            return VEnum(cls, idx)
        if cls.is_str_subclass():
            sv = VStr([self.leaf(SEQ, name, args)])
            self.assume_len_invariant_of_str_subclass(cls, sv)
            return sv
        ident = self.leaf(z3.IntSort(), name, args)
        obj = SymObj(ident, (cls,))
        self.assume_tag(obj)
        return obj

    def assume_len_invariant_of_str_subclass(self, cls: ClassInfo, sv: VStr) -> None:
        """Data invariant of a tagging ``str`` subclass: the ``@require`` of its ``__new__`` (a call-site obligation at
        every construction) is assumed for symbolic values of the type -- only when it speaks of nothing but the length
        of the text (``len(text) == 1``); pattern-based requirements are left out, which only weakens the hypotheses."""
        for c in cls.mro():
            new = c.methods.get("__new__")
            if new is None or len(new.params) != 2:
                continue
            pname = new.params[1].arg
            for lam, _ in new.requires:
                if [a.arg for a in lam.args.args] != [pname]:
                    continue
                ok = all(isinstance(n, (ast.Compare, ast.BoolOp, ast.And, ast.Or, ast.Constant, ast.Load, ast.cmpop))
                         or (isinstance(n, ast.Name) and n.id in (pname, "len"))
                         or (isinstance(n, ast.Call) and isinstance(n.func, ast.Name) and n.func.id == "len")
                         for n in ast.walk(lam.body))
                if not ok or any(isinstance(n, ast.Constant) and not isinstance(n.value, int) for n in ast.walk(lam.body)):
                    continue

                def ev(n: ast.AST) -> Any:
                    if isinstance(n, ast.Constant):
                        return z3.IntVal(n.value)
                    if isinstance(n, ast.Call):
                        if len(n.args) != 1 or not isinstance(n.args[0], ast.Name) or n.args[0].id != pname:
                            raise Unsupported("len of something else")
                        return z3.Length(sv.t)
                    if isinstance(n, ast.BoolOp):
                        parts = [ev(v) for v in n.values]
                        return z3.And(*parts) if isinstance(n.op, ast.And) else z3.Or(*parts)
                    if isinstance(n, ast.Compare) and len(n.ops) == 1:
                        a, b = ev(n.left), ev(n.comparators[0])
                        op = n.ops[0]
                        table = {ast.Eq: a == b, ast.NotEq: a != b, ast.Lt: a < b, ast.LtE: a <= b, ast.Gt: a > b,
                                 ast.GtE: a >= b}
                        if type(op) in table:
                            return table[type(op)]
                    raise Unsupported("shape")
                try:
                    fact = ev(lam.body)
                except Unsupported:
                    continue
                if not z3.is_bool(fact):
                    continue
                saved_temps = self.path.temps
                self.path.temps = []  # holds wherever the value is used, not only under the current guard
                try:
                    self.path.add_fact(fact)
                finally:
                    self.path.temps = saved_temps
                self.note_assumption(f"data invariant: @require of {new.qualname} ({ast.unparse(lam.body)}) holds for "
                                     f"symbolic values of type {cls.name}")

    def mk_union(self, alts: List[ast.expr], module: Module, name: str, args: Tuple[Any, ...]) -> V:
        classes: List[ClassInfo] = []
        prims: List[str] = []
        for a in alts:
            a2, m2 = self.resolve_alias(a, module)
            if isinstance(a2, ast.Subscript) and self.ann_name(a2.value, m2).split(".")[-1] == "Union":
                sl = a2.slice
                sub = list(sl.elts) if isinstance(sl, ast.Tuple) else [sl]
                stack = [(x, m2) for x in sub]
                while stack:
                    x, mx = stack.pop(0)
                    x2, mx2 = self.resolve_alias(x, mx)
                    if isinstance(x2, ast.Subscript) and self.ann_name(x2.value, mx2).split(".")[-1] == "Union":
                        sl2 = x2.slice
                        stack = [(y, mx2) for y in (list(sl2.elts) if isinstance(sl2, ast.Tuple) else [sl2])] + stack
                        continue
                    cx = mx2.resolve_expr_to_class(x2)
                    if not isinstance(cx, ClassInfo):
                        raise Unsupported("nested union of non-classes")
                    classes.append(cx)
                continue
            h = self.ann_name(a2, m2)
            if h in PRIMS:
                prims.append(h)
                continue
            c = m2.resolve_expr_to_class(a2)
            if isinstance(c, ClassInfo):
                if c.is_str_subclass():
                    prims.append("str")
                else:
                    classes.append(c)
            else:
                raise Unsupported(f"union member {h}")
        if classes and not prims:
            obj = SymObj(self.leaf(z3.IntSort(), name, args), tuple(classes))
            self.assume_tag(obj)
            return obj
        if prims and not classes:
            kind = self.leaf(z3.IntSort(), name + "?kind", args)
            alts_v = {}
            order = []
            for p in prims:
                if p in alts_v:
                    continue
                order.append(p)
                alts_v[p] = self.mk_sym(ast.Name(id=p), module, f"{name}.{p}", args)
            self.path.add_fact(z3.And(kind >= 0, kind < len(order)))
            return VPrimUnion(kind, order, alts_v)
        return VOpaque(f"mixed-union {name}")  # unusable value: any use of it is reported as outside the subset

    def assume_tag(self, obj: SymObj) -> None:
        ids = []
        for c in obj.static:
            for d in self.engine.loader.all_subclasses(c):
                ids.append(self.engine.class_id(d))
        tag = self.engine.tagof(obj.ident)
        if ids:
            self.path.add_fact(z3.Or(*[tag == i for i in sorted(set(ids))]))

    def mk_list(self, elem_ann: Any, module: Module, name: str, args: Tuple[Any, ...]) -> VList:
        ln = self.leaf(z3.IntSort(), name + ".len", args)
        self.path.add_fact(ln >= 0)

        def get(idx: Any, _ann: Any = elem_ann, _m: Module = module) -> V:
            return self.mk_sym(_ann, _m, name + "[]", args + (idx,))

        lst = VList([], base_len=ln, base_get=get, elem_ann=(elem_ann, module))
        lst.ident = name
        return lst

    def mk_dict(self, k_ann: Any, v_ann: Any, module: Module, name: str, args: Tuple[Any, ...]) -> VDict:
        def get(key: V) -> V:
            kt = self.key_term(key)
            inner = self.mk_sym(v_ann, module, name + "{}", args + (kt,))
            if isinstance(inner, VOpt):
                raise Unsupported("dict of optionals")
            return VOpt(self.leaf(z3.BoolSort(), name + "{}?absent", args + (kt,)), inner)

        d = VDict([], base_get=get, ident=name)
        d.key_ann = (k_ann, module)  # type: ignore  # for iteration over the items of a symbolic dict
        return d

    def mk_set(self, elem_ann: Any, module: Module, name: str, args: Tuple[Any, ...]) -> VSet:
        def has(key: V) -> Any:
            kt = self.key_term(key)
            return self.leaf(z3.BoolSort(), name + "{in}", args + (kt,))

        return VSet([], base_has=has)

    def key_term(self, key: V) -> Any:
        if isinstance(key, VInt):
            return key.t
        if isinstance(key, VStr):
            return key.t
        if isinstance(key, VEnum):
            return key.idx
        if isinstance(key, SymObj):
            return key.ident
        if type(key).__name__ == "ConcObj":
            return self.bi_id([key], {}, None, None).t  # identity of an object allocated on this path
        if isinstance(key, VBool):
            return key.t
        raise Unsupported(f"dict/set key {key!r}")
