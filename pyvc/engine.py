"""Engine: contract registry, path exploration, function/lemma verification."""
import ast
import os
import time
import traceback
from typing import Any, Callable, Dict, List, Optional, Tuple

import z3

from .builtins import Builtins, HELPERS, TRUSTED
from .calls import Calls
from .contract import Contract, Lemma, Loop
from .exprs import BreakEx, ContinueEx, Exprs, Frame, RaiseEx, ReturnEx
from .loader import ClassInfo, FuncInfo, Loader, Module
from .path import Obligation, Path, PathEnd
from .quant import Quant
from .stmts import Stmts, exc_matches
from .symgen import SymGen
from .values import (SEQ, NONE, V, VBool, VDict, VEnum, VExc, VExt, VInt, VList, VNoneT, VOpaque, VOpt, VSet,
                     VStr, VStream, VTuple, ConcObj, SymObj, Unsupported)


class Engine:
    def __init__(self, loader: Optional[Loader] = None):
        self.loader = loader or Loader()
        self.contracts: Dict[str, Contract] = {}
        self.class_ids: Dict[str, int] = {}
        self.spec_cache: Dict[str, ast.expr] = {}
        self.global_folds: Dict[str, Tuple[str, str, str]] = {}  # name -> (sort, init, step lambda)
        self._tagof = z3.Function("tagof", z3.IntSort(), z3.IntSort())
        self.functions_seen: Dict[str, Dict[str, Any]] = {}
        self.ext_methods: Dict[Tuple[str, str], Callable[..., V]] = {}
        self.regex_cache: Dict[str, Any] = {}
        self.ext_attrs: Dict[Tuple[str, str], Callable[..., V]] = {}
        self.ext_binops: Dict[Tuple[str, str], Callable[..., V]] = {}
        self.func_models: Dict[str, Callable[..., V]] = {}  # repository helpers replaced by a model
        self.ast_model: Any = None  # (is_class(it, v, cls) -> Bool, attr(it, v, name, node, fr) -> V)

    def register(self, c: Contract) -> Contract:
        if c.use_as_callee and c.target not in self.contracts:
            self.contracts[c.target] = c
        return c

    def contract_for(self, qual: str) -> Optional[Contract]:
        return self.contracts.get(qual)

    def class_id(self, c: ClassInfo) -> int:
        if c.qualname not in self.class_ids:
            self.class_ids[c.qualname] = len(self.class_ids) + 1
        return self.class_ids[c.qualname]

    def tagof(self, ident: Any) -> Any:
        return self._tagof(ident)

    def note_function(self, fi: FuncInfo, how: str) -> None:
        d = self.functions_seen.setdefault(fi.qualname, {"sha": fi.sha(), "lines": [fi.node.lineno, fi.node.end_lineno],
                                                         "file": str(fi.module.path), "how": []})
        if how not in d["how"]:
            d["how"].append(how)

    def regex_to_z3(self, pat: str) -> Optional[Any]:
        """Translate the few fixed patterns the code base matches against (char classes, + * ? {n})."""
        if pat in self.regex_cache:
            return self.regex_cache[pat]
        try:
            r = _regex_to_z3(pat)
        except Exception:
            r = None
        self.regex_cache[pat] = r
        return r


def _regex_to_z3(pat: str) -> Any:
    import sre_parse
    import sre_constants as sc

    def rng(lo: int, hi: int) -> Any:
        # Seq(Int) has no re.range: build union (small ranges only)
        if hi - lo > 300:
            raise ValueError("range too large")
        return z3.Union(*[z3.Re(z3.Unit(z3.IntVal(c))) for c in range(lo, hi + 1)]) if hi > lo else z3.Re(z3.Unit(z3.IntVal(lo)))

    def conv(items: Any) -> Any:
        parts = []
        for op, arg in items:
            if op == sc.LITERAL:
                parts.append(z3.Re(z3.Unit(z3.IntVal(arg))))
            elif op == sc.IN:
                alts = []
                for o2, a2 in arg:
                    if o2 == sc.LITERAL:
                        alts.append(z3.Re(z3.Unit(z3.IntVal(a2))))
                    elif o2 == sc.RANGE:
                        alts.append(rng(a2[0], a2[1]))
                    else:
                        raise ValueError("unsupported class item")
                parts.append(z3.Union(*alts) if len(alts) > 1 else alts[0])
            elif op in (sc.MAX_REPEAT,):
                lo, hi, sub = arg
                inner = conv(sub)
                if hi == sc.MAXREPEAT:
                    if lo == 0:
                        parts.append(z3.Star(inner))
                    elif lo == 1:
                        parts.append(z3.Plus(inner))
                    else:
                        parts.append(z3.Concat(*([inner] * lo + [z3.Star(inner)])))
                else:
                    parts.append(z3.Loop(inner, lo, hi))
            elif op == sc.SUBPATTERN:
                parts.append(conv(arg[3]))
            elif op == sc.BRANCH:
                parts.append(z3.Union(*[conv(x) for x in arg[1]]))
            else:
                raise ValueError(f"unsupported regex op {op}")
        if not parts:
            return z3.Re(z3.Empty(SEQ))
        return z3.Concat(*parts) if len(parts) > 1 else parts[0]

    return conv(sre_parse.parse(pat))


class Interp(SymGen, Exprs, Stmts, Calls, Builtins, Quant):
    helpers = HELPERS

    def __init__(self, engine: Engine, path: Path, unit: Any):
        self.engine = engine
        self.path = path
        self.unit = unit


class UnitResult:
    def __init__(self, name: str, props: List[str]):
        self.name = name
        self.props = props
        self.obligations: List[Obligation] = []
        self.paths = 0
        self.returned_paths = 0
        self.errors: List[str] = []  # Unsupported / crash → undecided
        self.assumptions: List[str] = []
        self.functions: Dict[str, Any] = {}
        self.wall = 0.0
        self.solver_time = 0.0
        self.checks = 0
        self.kind = "function"
        self.target = ""
        self.note = ""
        self.branches: set = set()
        self.all_ifs: List[int] = []

    def uncovered(self) -> List[str]:
        out = []
        for rel in self.all_ifs:
            for b in ("T", "F"):
                if f"{rel}:{b}" not in self.branches:
                    out.append(f"+{rel}:{b}")
        return out

    def to_json(self) -> Dict[str, Any]:
        return {
            "name": self.name, "props": self.props, "kind": self.kind, "target": self.target,
            "paths": self.paths, "returned_paths": self.returned_paths, "errors": self.errors,
            "assumptions": self.assumptions, "functions": self.functions, "wall_s": round(self.wall, 3),
            "solver_s": round(self.solver_time, 3), "solver_checks": self.checks, "note": self.note,
            "uncovered_branches": self.uncovered(),
            "obligations": [o.to_json() for o in self.obligations],
        }


def _merge_child(res: UnitResult, d: Dict[str, Any]) -> None:
    for e in d.get("errors", []):
        if e not in res.errors:
            res.errors.append(e)
    res.obligations.extend(d.get("obligations", []))
    res.paths += d.get("paths", 0)
    res.returned_paths += d.get("returned", 0)
    res.branches.update(d.get("notes", []))
    res.solver_time += d.get("solver_time", 0.0)
    res.checks += d.get("checks", 0)
    for a in d.get("assumptions", []):
        if a not in res.assumptions:
            res.assumptions.append(a)
    for q, info in d.get("functions", {}).items():
        res.functions.setdefault(q, info)
    for c in d.get("children", []):
        _merge_child(res, c)


def explore_forking(run: Callable[[Path], None], res: UnitResult, ob_timeout_ms: int, engine: Any) -> None:
    """One execution; at every two-way branch a child process explores the other side (no re-execution
    of common prefixes) and reports through a pipe."""
    import pickle
    path = Path([], ob_timeout_ms=ob_timeout_ms)
    errors: List[str] = []
    try:
        run(path)
    except PathEnd as e:
        if os.environ.get("PYVC_DEBUG"):
            print(f"  [path {path.path_id()}] ended: {e}")
    except Unsupported as e:
        errors.append(f"outside-subset: {e}")
    except RecursionError:
        errors.append("checker recursion limit")
    except z3.Z3Exception as e:
        errors.append(f"z3 exception: {e}")
    except BaseException as e:  # noqa
        if path.is_child:
            errors.append("checker crash: " + traceback.format_exc()[-1200:])
        else:
            raise
    mine = {"errors": errors, "obligations": path.obligations[path.ob_start:], "paths": 1,
            "returned": 1 if path.reached_return else 0, "notes": list(path.notes),
            "assumptions": list(path.assumptions_used), "functions": dict(engine.functions_seen),
            "solver_time": path.solver_time, "checks": path.n_checks, "children": path.child_results}
    if path.is_child:
        try:
            data = pickle.dumps(mine)
            off = 0
            while off < len(data):
                off += os.write(path.report_fd, data[off:off + (1 << 20)])
        finally:
            os._exit(0)
    _merge_child(res, mine)


def explore(run: Callable[[Path], None], res: UnitResult, max_paths: int, ob_timeout_ms: int,
            engine: Any = None) -> None:
    # forking at branches avoids re-execution but os.fork of a z3-laden process costs more than it saves
    # here (measured: C19 16 s -> 510 s); kept only as an option
    if os.environ.get("PYVC_FORK", "0") == "1" and engine is not None:
        explore_forking(run, res, ob_timeout_ms, engine)
        return
    preset: List[Tuple[bool, bool]] = []
    while True:
        path = Path(preset, ob_timeout_ms=ob_timeout_ms)
        try:
            run(path)
        except PathEnd as e:
            if os.environ.get("PYVC_DEBUG"):
                print(f"  [path {path.path_id()}] ended: {e}")
        except Unsupported as e:
            msg = f"outside-subset: {e}"
            if msg not in res.errors:
                res.errors.append(msg)
        except RecursionError:
            res.errors.append("checker recursion limit")
        except z3.Z3Exception as e:
            res.errors.append(f"z3 exception: {e}")
        res.paths += 1
        if path.reached_return:
            res.returned_paths += 1
        res.obligations.extend(path.obligations)
        res.branches.update(path.notes)
        res.solver_time += path.solver_time
        res.checks += path.n_checks
        for a in path.assumptions_used:
            if a not in res.assumptions:
                res.assumptions.append(a)
        ds = path.decisions[: max(path.cursor, 0)] if path.cursor < len(path.decisions) else path.decisions
        ds = list(ds)
        while ds and not (ds[-1][0] and ds[-1][1]):
            ds.pop()
        if not ds:
            break
        ds[-1] = (False, False)
        preset = ds
        if res.paths >= max_paths:
            res.errors.append(f"path budget exhausted ({max_paths})")
            break


def verify_function(engine: Engine, c: Contract, ob_timeout_ms: int = 10000) -> UnitResult:
    res = UnitResult(c.name, c.props)
    res.kind = "function"
    res.target = c.target
    res.note = c.note
    t0 = time.time()
    try:
        fi = engine.loader.func(c.target)
    except KeyError as e:
        res.errors.append(f"contract-anchor-lost: {e}")
        return res
    engine.functions_seen = {}
    engine.note_function(fi, "target")
    res.all_ifs = sorted({n.lineno - fi.node.lineno for n in ast.walk(fi.node) if isinstance(n, ast.If)})
    spec_mods = []
    for s in c.specs:
        m = engine.loader.module(s)
        if m is None:
            res.errors.append(f"spec module {s} not found")
            return res
        spec_mods.append(m)

    def run(path: Path) -> None:
        it = Interp(engine, path, c)
        fr = Frame(fi.module, fi, {}, None, spec_mods)
        fr.contract = c
        # symbolic arguments
        a = fi.node.args
        params = list(a.posonlyargs) + list(a.args) + list(a.kwonlyargs)
        for p in params:
            ann = c.args.get(p.arg, p.annotation)
            if callable(ann):
                v = ann(it, fr)
            elif p.arg == "self" and ann is None and fi.cls is not None and fi.name == "__init__":
                v = ConcObj(fi.cls)
            elif p.arg in ("self", "cls") and ann is None and fi.cls is not None:
                v = it.mk_instance(fi.cls, "self", ())
            else:
                if ann is None:
                    raise Unsupported(f"parameter {p.arg} has no annotation")
                v = it.mk_sym(ann, fi.module, p.arg)
            fr.env[p.arg] = v
            fr.var_types[p.arg] = ann if not callable(ann) else None
            it.register_model_terms(p.arg, v)
        if a.vararg is not None:
            ann = c.args.get(a.vararg.arg)
            if ann is None:
                ann = ast.Subscript(value=ast.Name(id="List"), slice=a.vararg.annotation)
            v = it.mk_sym(ann, fi.module, a.vararg.arg)
            fr.env[a.vararg.arg] = v
            it.register_model_terms(a.vararg.arg, v)
        for g, ann in c.ghost.items():
            v = it.mk_sym(ann, fi.module, g)
            fr.env[g] = v
            it.register_model_terms(g, v)
            if isinstance(v, VInt):
                it.register_index(v.t)
        if c.setup is not None:
            c.setup(it, fr)
        # preconditions: the repository's own and the sidecar's
        if c.assume_repo_requires:
            for lam, desc in fi.requires:
                lfr = Frame(fi.module, None, {x.arg: fr.env[x.arg] for x in lam.args.args}, None)
                lfr.in_spec = True
                it.assume_term(it.truthy(it.ev(lam.body, lfr)))
        for nm, ex in c.requires:
            it.assume_spec(ex, fr)
        for ex in c.facts:
            it.assume_spec(ex, fr)
        # old(...) values
        olds: Dict[str, V] = {}
        loop_specs = []
        for lp in c.loops.values():
            loop_specs += lp.invariants + lp.body_ensures + lp.body_twins
        for nm, ex in c.ensures + c.twins + loop_specs:
            for n in ast.walk(it.parse_spec(ex)):
                if isinstance(n, ast.Call) and isinstance(n.func, ast.Name) and n.func.id == "old":
                    olds[ast.dump(n.args[0])] = it.eval_spec(ast.unparse(n.args[0]), fr)
        fr.olds = olds  # type: ignore
        entry_env = dict(fr.env)
        result: V = NONE
        raised: Optional[RaiseEx] = None
        try:
            it.ex_block(fi.node.body, fr)
        except ReturnEx as r:
            result = r.value
        except RaiseEx as e:
            raised = e
        if raised is not None:
            allowed = False
            for en, cond in c.raises.items():
                if exc_matches(raised.exc.cls_name, en):
                    if cond is None:
                        allowed = True
                    else:
                        efr = Frame(fi.module, None, dict(entry_env), None, spec_mods)
                        efr.olds = olds  # type: ignore
                        line = getattr(raised.node, "lineno", 0)
                        o = Obligation(f"{fi.qualname}:raises-only-if:{en}@+{line - fi.node.lineno}", "raise-condition",
                                       fi.qualname, line, f"{en} raised only if {cond}")
                        path.oblige(it.truthy(it.eval_spec(cond, efr)), o)
                        allowed = True
            if not allowed and c.no_raise:
                line = getattr(raised.node, "lineno", 0)
                o = Obligation(f"{fi.qualname}:no-exception@+{line - fi.node.lineno}", "no-exception", fi.qualname, line,
                               f"uncaught {raised.exc.cls_name} is unreachable")
                path.oblige(z3.BoolVal(False), o)
            raise PathEnd("raised")
        path.reached_return = True
        # postconditions
        pfr = Frame(fi.module, None, dict(entry_env), None, spec_mods)
        pfr.label = fi.qualname  # type: ignore
        for k, v in fr.env.items():
            if k not in pfr.env and (k in c.ghost or getattr(v, "fold", None) is not None):
                pfr.env[k] = v
        for k, v in fr.env.items():
            if k.startswith("ghost_") or k in c.ghost:
                pfr.env[k] = v
        pfr.env["result"] = result
        pfr.olds = olds  # type: ignore
        pfr.final_env = fr.env  # type: ignore
        rline = fi.node.lineno
        if c.prove_repo_ensures:
            for k, (lam, desc) in enumerate(fi.ensures):
                lfr = Frame(fi.module, None, {}, None)
                lfr.in_spec = True
                for x in lam.args.args:
                    lfr.env[x.arg] = result if x.arg == "result" else entry_env[x.arg]
                goal = it.truthy(it.ev(lam.body, lfr))
                o = Obligation(f"{fi.qualname}:repo-ensure#{k}", "postcondition", fi.qualname,
                               lam.lineno, "@ensure " + ast.unparse(lam.body)[:100])
                path.oblige(it.goal_term(goal), o)
        for nm, ex in c.ensures:
            it.oblige_spec(nm, ex, "postcondition", fi.node, pfr)
        for nm, ex in c.twins:
            it.oblige_spec(nm, ex, "postcondition", fi.node, pfr, twin=True)

    explore(run, res, c.max_paths, c.ob_timeout_ms or ob_timeout_ms, engine)
    res.functions.update(engine.functions_seen)
    res.wall = time.time() - t0
    return res


def verify_lemma(engine: Engine, lm: Lemma, ob_timeout_ms: int = 10000) -> UnitResult:
    res = UnitResult(lm.name, lm.props)
    res.kind = "lemma"
    res.note = lm.note
    t0 = time.time()
    mods = []
    for s in lm.specs:
        m = engine.loader.module(s)
        if m is None:
            res.errors.append(f"spec module {s} not found")
            return res
        mods.append(m)
    base_mod = engine.loader.module(lm.module) if lm.module else (mods[0] if mods else None)
    if base_mod is None:
        res.errors.append("lemma needs a module")
        return res
    engine.functions_seen = {}

    def run(path: Path) -> None:
        it = Interp(engine, path, lm)
        fr = Frame(base_mod, None, {}, None, mods)
        fr.in_spec = False
        for g, ann in lm.vars.items():
            v = it.mk_sym(ann, base_mod, g)
            fr.env[g] = v
            it.register_model_terms(g, v)
        for ex in lm.hyps:
            it.assume_spec(ex, fr)
        path.reached_return = True
        node = ast.Pass()
        node.lineno = 0  # type: ignore
        fr.func = None
        for nm, ex in lm.goal:
            _oblige_lemma(it, lm, nm, ex, fr, False)
        for nm, ex in lm.twins:
            _oblige_lemma(it, lm, nm, ex, fr, True)

    explore(run, res, lm.max_paths, lm.ob_timeout_ms or ob_timeout_ms, engine)
    res.functions.update(engine.functions_seen)
    res.wall = time.time() - t0
    return res


def _oblige_lemma(it: Interp, lm: Lemma, nm: str, ex: str, fr: Frame, twin: bool) -> None:
    node = it.parse_spec(ex)
    # evaluate in code mode so that calls into /repo functions are real symbolic executions
    goal = it.truthy(it.ev(node, fr))
    o = Obligation(f"lemma:{lm.name}:{nm}", "lemma", lm.name, 0, ex)
    o.twin = twin
    it.path.oblige(it.goal_term(goal), o, assume_after=not twin)


def _register_model_terms(self: Interp, name: str, v: V) -> None:
    mt = self.path.model_terms
    if isinstance(v, (VInt, VBool)):
        mt.append((name, v.t))
    elif isinstance(v, VStr):
        mt.append((name, v.t))
    elif isinstance(v, VOpt):
        mt.append((name + "?none", v.isnone))
        _register_model_terms(self, name, v.val)
    elif isinstance(v, VTuple):
        for i, x in enumerate(v.items):
            _register_model_terms(self, f"{name}.{i}", x)
    elif isinstance(v, VEnum):
        mt.append((name, v.idx))
    elif isinstance(v, SymObj):
        mt.append((name + "#tag", self.engine.tagof(v.ident)))
    elif isinstance(v, VList) and v.base_len is not None:
        mt.append((name + ".len", v.base_len))


Interp.register_model_terms = _register_model_terms  # type: ignore
