"""./check <PROPERTY> [--tier quick|thorough] [--replay FILE]

Exit codes: 0 held / 1 violation (VIOLATION line) / 2 undecided / 3 checker error.
"""
import argparse
import importlib
import json
import multiprocessing as mp
import os
import pathlib
import subprocess
import sys
import tempfile
import time
import traceback
from typing import Any, Dict, List, Optional, Tuple

VERIF = pathlib.Path(__file__).resolve().parent.parent
sys.path.insert(0, str(VERIF))

from pyvc.contract import Contract, Lemma  # noqa: E402
from pyvc.units import Native, Scan  # noqa: E402

NATIVE_PY = os.environ.get("VERIF_NATIVE_PY", "/venv/bin/python")
REPO = os.environ.get("VERIF_REPO", "/repo")
CONTRACT_MODULES = sorted(p.stem for p in (VERIF / "contracts").glob("*.py") if p.stem != "__init__")


def load_units() -> List[Any]:
    units: List[Any] = []
    for m in CONTRACT_MODULES:
        mod = importlib.import_module(f"contracts.{m}")
        units.extend(getattr(mod, "UNITS", []))
    return units


_ENGINE = None
_UNITS: List[Any] = []
_ASSUMED: List[str] = []


def _run_unit(arg: Tuple[int, str]) -> Dict[str, Any]:
    idx, tier = arg
    from pyvc import engine as eng
    global _ENGINE
    unit = _UNITS[idx]
    t0 = time.time()
    try:
        if _ENGINE is None:
            _ENGINE = eng.Engine()
            for u in _UNITS:
                if isinstance(u, Contract):
                    _ENGINE.register(u)
            try:
                from contracts import _ext  # library models
                _ext.install(_ENGINE)
            except ImportError:
                pass
        ob_to = 10000 if tier == "quick" else 60000
        if isinstance(unit, Contract):
            r = eng.verify_function(_ENGINE, unit, ob_to).to_json()
        elif isinstance(unit, Lemma):
            r = eng.verify_lemma(_ENGINE, unit, ob_to).to_json()
        elif isinstance(unit, Scan):
            r = run_scan(_ENGINE, unit)
        elif isinstance(unit, Native):
            r = run_native(unit, tier)
        else:
            raise TypeError(f"unknown unit {unit!r}")
    except Exception:
        r = {"name": getattr(unit, "name", "?"), "props": getattr(unit, "props", []), "kind": "crash",
             "errors": ["checker crash: " + traceback.format_exc()[-1500:]], "obligations": [], "paths": 0,
             "returned_paths": 0, "assumptions": [], "functions": {}, "wall_s": time.time() - t0,
             "solver_s": 0, "solver_checks": 0, "note": "", "target": ""}
    r["index"] = idx
    return r


def run_scan(engine: Any, unit: Scan) -> Dict[str, Any]:
    t0 = time.time()
    items = unit.func(engine.loader)
    obs = []
    for it in items:
        obs.append({"key": it["key"], "kind": "scan", "func": it.get("func", ""), "line": it.get("line", 0),
                    "desc": it.get("desc", ""), "status": "proved" if it["ok"] else "refuted",
                    "backend": "ast-scan", "time_s": 0.0, "model": it.get("detail"), "path": "", "twin": False})
    return {"name": unit.name, "props": unit.props, "kind": "scan", "target": "", "paths": 1,
            "returned_paths": 1, "errors": [], "assumptions": [], "functions": {}, "wall_s": time.time() - t0,
            "solver_s": 0, "solver_checks": 0, "note": unit.note, "obligations": obs}


def native_call(entry: str, args: Dict[str, Any], timeout_s: int = 600) -> Dict[str, Any]:
    """Run ``native.<module>:<function>(**args)`` on the real code under /venv/bin/python."""
    with tempfile.NamedTemporaryFile("w", suffix=".json", delete=False, dir=os.environ.get("TMPDIR")) as f:
        json.dump(args, f)
        argfile = f.name
    try:
        env = dict(os.environ)
        env["PYTHONPATH"] = f"{REPO}:{VERIF}"
        env.setdefault("PYTHONHASHSEED", "0")
        p = subprocess.run([NATIVE_PY, str(VERIF / "native" / "run.py"), entry, argfile], capture_output=True,
                           text=True, timeout=timeout_s, env=env, cwd=str(VERIF))
        out = p.stdout.strip().splitlines()
        if p.returncode != 0 or not out:
            return {"error": f"native runner rc={p.returncode}: {p.stderr[-1500:]}"}
        return json.loads(out[-1])
    except subprocess.TimeoutExpired:
        return {"error": f"native runner timeout after {timeout_s}s"}
    finally:
        os.unlink(argfile)


def run_native(unit: Native, tier: str) -> Dict[str, Any]:
    t0 = time.time()
    args = dict(unit.args)
    if tier == "thorough" and unit.thorough_args:
        args.update(unit.thorough_args)
    args.setdefault("seed", int(os.environ.get("VERIF_SEED", "0")))
    r = native_call(unit.entry, args, unit.timeout_s)
    errors = []
    if "error" in r:
        errors.append(r["error"])
    return {"name": unit.name, "props": unit.props, "kind": "native-" + unit.kind, "target": unit.entry, "paths": 0,
            "returned_paths": 0, "errors": errors, "assumptions": r.get("assumptions", []), "functions": {},
            "wall_s": time.time() - t0, "solver_s": 0, "solver_checks": 0, "note": unit.note, "obligations": [],
            "native": {"bound": unit.bound, "cases": r.get("cases", 0), "distinct": r.get("distinct", 0),
                       "failures": r.get("failures", []), "samples": r.get("samples", []),
                       "known": r.get("known", []), "exhaustive": r.get("exhaustive", False)}}


def second_opinion(smt2: str, timeout_s: int) -> Tuple[str, str]:
    """unknown on z3 (python API) → the same query on cvc5 and the system z3."""
    with tempfile.NamedTemporaryFile("w", suffix=".smt2", delete=False) as f:
        f.write(smt2)
        fn = f.name
    try:
        for name, cmd in (("cvc5", ["/usr/bin/cvc5", "--strings-exp", f"--tlimit={timeout_s * 1000}", fn]),
                          ("z3-4.8.12", ["/usr/bin/z3", f"-T:{timeout_s}", fn])):
            try:
                p = subprocess.run(cmd, capture_output=True, text=True, timeout=timeout_s + 5)
            except (subprocess.TimeoutExpired, FileNotFoundError):
                continue
            first = (p.stdout.strip().splitlines() or [""])[0].strip()
            if first in ("unsat", "sat"):
                return first, name
        return "unknown", ""
    finally:
        os.unlink(fn)


def stable(key: str) -> str:
    return key


def main(argv: Optional[List[str]] = None) -> int:
    ap = argparse.ArgumentParser()
    ap.add_argument("prop")
    ap.add_argument("--tier", default=os.environ.get("VERIF_TIER", "quick"), choices=["quick", "thorough"])
    ap.add_argument("--replay", default=None)
    ap.add_argument("--jobs", type=int, default=int(os.environ.get("VERIF_JOBS", "16")))
    ap.add_argument("--unit", default=None, help="only units whose name contains this")
    ap.add_argument("-v", "--verbose", action="store_true")
    a = ap.parse_args(argv)
    prop = a.prop.upper()
    t0 = time.time()
    if a.replay:
        return do_replay(a.replay)
    global _UNITS
    try:
        _UNITS = load_units()
    except Exception:
        print("checker error while loading contracts:\n" + traceback.format_exc())
        return 3
    sel = [i for i, u in enumerate(_UNITS) if prop in u.props and (a.unit is None or a.unit in u.name)
           and not getattr(u, "assumed", False)]
    global _ASSUMED
    _ASSUMED = [f"ASSUMED contract of {u.target}: " + "; ".join(e for _, e in u.ensures)
                + (f" [{u.justification}]" if u.justification else "")
                for u in _UNITS if getattr(u, "assumed", False) and prop in u.props]
    if not sel:
        print(f"no units for property {prop}")
        return 3
    # longest first
    with mp.get_context("fork").Pool(min(a.jobs, len(sel))) as pool:
        results = pool.map(_run_unit, [(i, a.tier) for i in sel], chunksize=1)
    return report(prop, a.tier, results, time.time() - t0, a.verbose, partial=a.unit is not None)


def load_known() -> Dict[str, Any]:
    p = VERIF / "known_findings.json"
    if p.exists():
        return json.loads(p.read_text())
    return {"open": [], "fixed": []}


def report(prop: str, tier: str, results: List[Dict[str, Any]], wall: float, verbose: bool, partial: bool) -> int:
    known = [k for k in load_known().get("open", []) if k["property"] == prop]
    grouped: Dict[str, Dict[str, Any]] = {}
    undecided: List[str] = []
    checker_errors: List[str] = []
    assumptions: List[str] = []
    functions: Dict[str, Any] = {}
    bounded: List[Dict[str, Any]] = []
    native_failures: List[Tuple[str, Any]] = []
    known_hits: List[str] = []
    solver_s = 0.0
    backends: Dict[str, int] = {}
    instances = 0
    for r in results:
        solver_s += r.get("solver_s", 0)
        for e in r["errors"]:
            (checker_errors if e.startswith("checker crash") else undecided).append(f"{r['name']}: {e}")
        for x in r["assumptions"]:
            if x not in assumptions:
                assumptions.append(x)
        for q, info in r["functions"].items():
            if not q.startswith("specs."):
                functions.setdefault(q, info)
        _u = next((u for u in _UNITS if getattr(u, "name", None) == r["name"]), None)
        if (r["kind"] in ("function", "lemma") and r["paths"] > 0 and r["returned_paths"] == 0 and not r["errors"]
                and not getattr(_u, "partial", False)):
            checker_errors.append(f"{r['name']}: vacuous (no path reaches the end: contradictory requires?)")
        if r["kind"].startswith("native"):
            n = r["native"]
            bounded.append({"name": r["name"], "kind": r["kind"], "bound": n["bound"], "cases": n["cases"],
                            "distinct": n["distinct"], "failures": len(n["failures"]), "known": n["known"],
                            "exhaustive": n["exhaustive"], "samples": n["samples"][:3], "wall_s": round(r["wall_s"], 2)})
            for f in n["failures"]:
                # a bounded unit shared by several properties tags each failure with the property it breaks
                if isinstance(f, dict) and f.get("property") and f["property"] != prop:
                    continue
                native_failures.append((r["name"], f))
            for kn in n["known"]:
                known_hits.append(kn)
        twins: Dict[str, List[str]] = {}
        for o in r["obligations"]:
            instances += 1
            if o["status"] == "unknown" and o.get("smt2"):
                verdict, who = second_opinion(o["smt2"], 20 if tier == "quick" else 120)
                if verdict == "unsat":
                    o["status"], o["backend"] = "proved", who
                elif verdict == "sat":
                    o["status"], o["backend"] = "refuted", who
                    o["model"] = {"note": f"counter-model found by {who} (not extracted)"}
            # a unit shared by several properties may reserve its functional postconditions for some of them (the
            # crash obligations of the same run count for all): skip the ones that do not belong to this property
            only_for = getattr(_u, "ensures_only_for", None)
            if only_for and prop not in only_for and o["kind"] in ("postcondition", "loop-body", "loop-inv-preserved",
                                                                    "loop-inv-init") and ":postcondition:" in o["key"]:
                continue
            if o["twin"]:
                twins.setdefault(o["key"], []).append(o["status"])
                continue
            g = grouped.setdefault(r["name"] + "::" + o["key"], {"key": o["key"], "kind": o["kind"], "desc": o["desc"], "unit": r["name"],
                                              "status": "proved", "instances": 0, "time_s": 0.0, "backends": set(),
                                              "model": None, "path": None, "line": o["line"], "func": o["func"]})
            g["instances"] += 1
            g["time_s"] += o["time_s"]
            g["backends"].add(o["backend"])
            if o["status"] == "refuted":
                if g["status"] != "refuted":
                    g["status"] = "refuted"
                    g["model"] = o["model"]
                    g["path"] = o["path"]
            elif o["status"] == "unknown" and g["status"] == "proved":
                g["status"] = "unknown"
        for k, sts in twins.items():
            if "refuted" not in sts:
                if any(s == "unknown" for s in sts):
                    undecided.append(f"{r['name']}: must-fail twin {k} not refuted (solver unknown)")
                else:
                    checker_errors.append(f"{r['name']}: must-fail twin {k} was PROVED: encoding or contract is vacuous")
    for u in [r for r in results if r["kind"] in ("function", "lemma", "scan")]:
        if not u["obligations"] and not u["errors"]:
            checker_errors.append(f"{u['name']}: generated zero obligations")
    n_ob = len(grouped)
    proved = [g for g in grouped.values() if g["status"] == "proved"]
    refuted = [g for g in grouped.values() if g["status"] == "refuted"]
    unknown = [g for g in grouped.values() if g["status"] == "unknown"]
    for g in grouped.values():
        for b in g["backends"]:
            backends[b] = backends.get(b, 0) + 1
    for g in unknown:
        undecided.append(f"{g['unit']}: solver unknown on {g['key']}")
    # --- violations vs known findings
    violations: List[Dict[str, Any]] = []
    n_known_obs = 0
    for g in refuted:
        kn = next((k for k in known if k.get("match") and k["match"] in f"{g['unit']}::{g['key']}"), None)
        if kn is not None:
            known_hits.append(f"{kn['what']} [obligation {g['key']}]")
            n_known_obs += 1
            continue
        violations.append({"source": "obligation", "g": g})
    for name, f in native_failures:
        import re as _re
        blob = json.dumps(f, default=str, ensure_ascii=False)
        kn = next((k for k in known if k.get("native_match") and k.get("native_unit", "") in name
                   and _re.search(k["native_match"], blob)), None)
        if kn is not None:
            known_hits.append(f"{kn['what']} [bounded unit {name}]")
            continue
        violations.append({"source": "native", "unit": name, "failure": f})
    # a unit whose code left the verifier's subset is undecided; its bounded native replay (the inputs the contract's
    # counterexamples are replayed on) still runs against the real function, and a failing input there is a violation
    fallback_notes: List[str] = []
    for r in results:
        if r["kind"] in ("function", "lemma") and r["errors"] and not any(e.startswith("checker crash") for e in r["errors"]):
            unit = next((u for u in _UNITS if getattr(u, "name", None) == r["name"]), None)
            entry = getattr(unit, "replay", None)
            if entry:
                rr = native_call(entry, {"obligation": "", "model": {}, "desc": "", "unit": r["name"]}, 300)
                if rr.get("confirmed"):
                    violations.append({"source": "native", "unit": r["name"] + " [bounded fallback: unit undecided]",
                                       "failure": rr})
                else:
                    fallback_notes.append(f"{r['name']}: undecided; bounded replay {entry} found no failing input")
    rc = 0
    lines: List[str] = []
    (VERIF / "replays").mkdir(exist_ok=True)
    unit_by_name = {u.name: u for u in _UNITS}
    for n, v in enumerate(violations):
        rp = VERIF / "replays" / f"{prop}-{n}.json"
        rec: Dict[str, Any] = {"property": prop, "tier": tier, "repo": REPO}
        confirmed = False
        if v["source"] == "obligation":
            g = v["g"]
            rec.update({"obligation": g["key"], "unit": g["unit"], "kind": g["kind"], "statement": g["desc"],
                        "function": g["func"], "line": g["line"], "solver_model": g["model"], "path": g["path"],
                        "verifier_output": f"negated VC satisfiable on path {g['path']} ({sorted(g['backends'])})"})
            unit = unit_by_name.get(g["unit"])
            entry = getattr(unit, "replay", None)
            if entry:
                rr = native_call(entry, {"obligation": g["key"], "model": g["model"] or {}, "desc": g["desc"],
                                         "unit": g["unit"]}, 300)
                rec["replay"] = rr
                confirmed = bool(rr.get("confirmed"))
        else:
            rec.update({"unit": v["unit"], "failing_input": v["failure"],
                        "verifier_output": "contract violated on the real code for the recorded input"})
            confirmed = True
        rec["confirmed_on_real_code"] = confirmed
        rp.write_text(json.dumps(rec, indent=1, default=str))
        lines.append(f"VIOLATION property={prop} replay={rp}" + ("" if confirmed else " no-failing-input-found"))
        rc = 1
    for kh in dict.fromkeys(known_hits):
        print(f"KNOWN-FINDING: property={prop} {kh}")
    if rc == 0 and checker_errors:
        rc = 3
    if rc == 0 and undecided:
        rc = 2
    # --- evidence
    samples = []
    for g in list(grouped.values())[:4]:
        samples.append({"obligation": g["key"], "statement": g["desc"], "status": g["status"],
                        "path_instances": g["instances"], "backends": sorted(g["backends"])})
    for b in bounded[:2]:
        samples.append({"bounded_unit": b["name"], "bound": b["bound"], "cases": b["cases"], "samples": b["samples"]})
    from pyvc.builtins import TRUSTED
    ev = {
        "property_id": prop, "tier": tier, "seed": int(os.environ.get("VERIF_SEED", "0")),
        "level": LEVELS.get(prop, "proof"),
        "coverage": {
            "obligations": n_ob - n_known_obs, "discharged": len(proved),
            "refuted": len(refuted) - n_known_obs, "undecided": len(unknown),
            "obligations_of_recorded_findings_not_counted": n_known_obs,
            "path_instances": instances,
            "checker_cmd": f"./check {prop} --tier {tier}",
            "backends": backends, "solver_time_s": round(solver_s, 2),
            "trusted_base": [f"{k}: {v}" for k, v in TRUSTED.items()] + [
                "CPython semantics of the interpreted subset (unbounded ints, str = code points, left-to-right evaluation)",
                "type annotations are truthful (mypy --strict in the repository's CI)",
                "z3 5.1.0 is sound; cvc5 1.0.3 / z3 4.8.12 as second opinion on unknown",
                "spec functions under /verif/specs are the meaning of the property",
            ],
            "functions_under_contract": functions,
            "units": [{"name": r["name"], "kind": r["kind"], "paths": r["paths"], "wall_s": round(r["wall_s"], 2),
                       "obligation_instances": len(r["obligations"]), "note": r.get("note", ""),
                       "branches_of_the_target_not_reached_under_the_contract": r.get("uncovered_branches", [])}
                      for r in results],
            "bounded_standins_not_counted_as_proved": bounded,
            "undecided_items": undecided, "checker_errors": checker_errors,
            "known_findings": list(dict.fromkeys(known_hits)),
            "samples": samples or [{"note": "no obligations"}],
            "evaluations": max(instances + sum(b["cases"] for b in bounded), 1),
            "distinct_nontrivial": max(n_ob + sum(b["distinct"] for b in bounded), 2),
            "rule": "one obligation per (function, kind, source position / contract clause); path instances are the "
                    "same obligation on different control-flow paths; bounded units enumerate inputs up to their bound",
            "explanation": NOTES.get(prop, ""),
            "exhaustive": False,
        },
        "assumptions": assumptions + _ASSUMED,
        "wall_s": round(wall, 2),
        "violations": len(violations),
    }
    if not partial:
        (VERIF / "evidence").mkdir(exist_ok=True)
        (VERIF / "evidence" / f"{prop}.json").write_text(json.dumps(ev, indent=1, default=str))
    print(f"[{prop}] tier={tier} units={len(results)} obligations={n_ob} proved={len(proved)} refuted={len(refuted)} "
          f"unknown={len(unknown)} bounded_units={len(bounded)} wall={wall:.1f}s solver={solver_s:.1f}s")
    if verbose:
        for r in results:
            if r.get("uncovered_branches"):
                print(f"  UNCOVERED {r['name']}: if-branches never reached: {' '.join(r['uncovered_branches'])}")
        for g in grouped.values():
            if g["time_s"] > 2:
                print(f"  SLOW {g['time_s']:.1f}s x{g['instances']} {g['key']} {sorted(g['backends'])}")
    if verbose or rc != 0:
        for g in refuted:
            print(f"  REFUTED {g['key']} :: {g['desc'][:120]} :: model={g['model']}")
        for u in undecided:
            print(f"  UNDECIDED {u[:400]}")
        for c in checker_errors:
            print(f"  CHECKER-ERROR {c[:2000]}")
    for ln in lines:
        print(ln)
    return rc


def do_replay(path: str) -> int:
    rec = json.loads(pathlib.Path(path).read_text())
    print(json.dumps(rec, indent=1)[:4000])
    return 1 if rec.get("confirmed_on_real_code") else 0


LEVELS: Dict[str, str] = {}
NOTES: Dict[str, str] = {}
try:
    _meta = json.loads((VERIF / "contracts" / "levels.json").read_text())
    LEVELS = _meta.get("levels", {})
    NOTES = _meta.get("notes", {})
except (OSError, ValueError):
    pass

if __name__ == "__main__":
    sys.exit(main())
