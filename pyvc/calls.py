"""Attribute access and calls: inlining, contracts, constructors (mixin of Interp)."""
import ast
from typing import Any, Dict, List, Optional, Tuple

import z3

from .exprs import BreakEx, ContinueEx, Frame, RaiseEx, ReturnEx
from .loader import ClassInfo, FuncInfo, Module
from .path import Obligation, PathEnd
from .values import (SEQ, NONE, V, VBool, VBuiltin, VClassRef, VDict, VEnum, VExc, VExt, VFloat, VFuncRef,
                     VInt, VLambda, VList, VModuleRef, VNoneT, VOpaque, VOpt, VPrimUnion, VSet, VStr,
                     VStream, VTuple, ConcObj, SymObj, Unsupported)


class Calls:
    # ------------------------------------------------------------------- attributes
    def getattr(self, base: V, name: str, node: Any, fr: Frame) -> V:
        if isinstance(base, VOpt):
            base = self.unwrap(base, node, fr, f"object of .{name}")
        if isinstance(base, VNoneT):
            self.ob(z3.BoolVal(False), "none-deref", node, fr, f".{name} on None")
            raise PathEnd("attribute of None")
        if isinstance(base, VModuleRef):
            m = base.module
            if isinstance(m, Module):
                r = m.lookup(name)
                if r is not None:
                    return self.binding_value(r, name)
                sub = self.engine.loader.module(f"{m.name}.{name}")
                if sub is not None:
                    return VModuleRef(sub)
                raise Unsupported(f"{m.name}.{name} not found")
            return self.external_value(f"{m}.{name}")
        if isinstance(base, VClassRef):
            return self.class_attr(base.cls, name, node, fr)
        if isinstance(base, ConcObj):
            if name in base.fields:
                return base.fields[name]
            if name == "__class__":
                return VClassRef(base.cls)
            return self.instance_member(base, base.cls, name, node, fr)
        if isinstance(base, SymObj):
            return self.sym_getattr(base, name, node, fr)
        if isinstance(base, VEnum):
            if name in ("value", "name"):
                return self.enum_member_attr(base, name, fr)
            m = base.cls.find_method(name)
            if m is not None:
                return VFuncRef(m, base)
            raise Unsupported(f"enum attribute {name}")
        if isinstance(base, VExc):
            obj = getattr(base, "obj", None)
            if obj is not None and not (name in ("lineno", "offset") and name not in getattr(obj, "fields", {})):
                return self.getattr(obj, name, node, fr)
            if name == "args":
                return VTuple(base.args)
            if name in ("lineno", "offset"):
                return VOpt(z3.Bool(self.path.fresh_name("$exc." + name + "?")),
                            VInt(z3.Int(self.path.fresh_name("$exc." + name))))
            return VOpaque("exc." + name)
        if isinstance(base, VExt):
            h = self.engine.ext_attrs.get((base.kind.split(".")[-1], name))
            if h is not None:
                return h(self, base, node, fr)
            if base.kind.startswith("ast.") and self.engine.ast_model is not None:
                return self.engine.ast_model[1](self, base, name, node, fr)
        if isinstance(base, (VStr, VList, VDict, VSet, VTuple, VStream, VExt, VInt, VBuiltin)):
            if isinstance(base, VBuiltin) and base.name in self.EXTERNAL_CALLABLES:
                return self.external_value(f"{base.name}.{name}")
            return VBuiltin("method:" + name, base)
        if isinstance(base, VOpaque):
            return VOpaque(base.hint + "." + name)
        if isinstance(base, VFuncRef):
            if name == "__doc__":
                return VOpaque("doc")
            if name == "__name__":
                return self.pystr(base.func.name)
        raise Unsupported(f"attribute {name} of {base!r}")

    def class_attr(self, cls: ClassInfo, name: str, node: Any, fr: Frame) -> V:
        if cls.is_enum():
            for k, (mname, _) in enumerate(cls.enum_members()):
                if mname == name:
                    return VEnum(cls, k)
        found = cls.find_class_attr(name)
        if found is not None:
            c, expr = found
            key = ("classattr", c.qualname, name)
            if key not in self.path.cache:
                cf = Frame(c.module)
                cf.in_spec = True
                cf.env.update({k: VOpaque(k) for k in ()})
                self.path.cache[key] = self.ev_class_level(c, expr, cf)
            return self.path.cache[key]
        m = cls.find_method(name)
        if m is not None:
            return VFuncRef(m, None)
        if name in cls.nested:
            return VClassRef(cls.nested[name])
        if name == "__name__":
            return self.pystr(cls.name)
        if name == "__doc__":
            return VOpaque("doc")
        raise Unsupported(f"class attribute {cls.name}.{name}")

    def ev_class_level(self, c: ClassInfo, expr: ast.expr, cf: Frame) -> V:
        # class-level names are visible inside the class body
        for an, ae in c.class_attrs.items():
            if ae is expr:
                break
            if isinstance(ae, ast.Constant):
                cf.env[an] = self.ev(ae, cf)
        return self.ev(expr, cf)

    def enum_member_attr(self, e: VEnum, name: str, fr: Frame) -> V:
        members = e.cls.enum_members()
        ic = z3.simplify(e.idx)
        cf = Frame(e.cls.module)
        cf.in_spec = True
        if name == "name":
            vals: List[V] = [self.pystr(n) for n, _ in members]
        else:
            vals = [self.ev(x, cf) for _, x in members]
        if z3.is_int_value(ic):
            return vals[ic.as_long()]
        res = vals[-1]
        for k in reversed(range(len(vals) - 1)):
            m = self.ite_merge(e.idx == k, vals[k], res)
            if m is None:
                raise Unsupported("enum values of mixed types")
            res = m
        return res

    def instance_member(self, obj: V, cls: ClassInfo, name: str, node: Any, fr: Frame) -> V:
        m = cls.find_method(name)
        if m is not None:
            if m.is_property:
                return self.call_function(m, [obj], {}, node, fr)
            if m.is_static:
                return VFuncRef(m, None)
            return VFuncRef(m, obj)
        found = cls.find_class_attr(name)
        if found is not None:
            return self.class_attr(cls, name, node, fr)
        raise Unsupported(f"attribute {name} of instance of {cls.name}")

    def narrowed(self, obj: SymObj) -> Tuple[ClassInfo, ...]:
        return self.path.cache.get(("narrow", obj.key()), obj.static)

    def isinstance_term(self, obj: SymObj, classes: List[ClassInfo]) -> Any:
        ids = set()
        for c in classes:
            for d in self.engine.loader.all_subclasses(c):
                ids.add(self.engine.class_id(d))
        tag = self.engine.tagof(obj.ident)
        if not ids:
            return z3.BoolVal(False)
        return z3.Or(*[tag == i for i in sorted(ids)])

    def sym_getattr(self, obj: SymObj, name: str, node: Any, fr: Frame) -> V:
        key = ("field", obj.key(), name)
        if key in self.path.cache:
            return self.path.cache[key]
        statics = self.narrowed(obj)
        # 1. declared on (a base of) the static type
        decl: List[Tuple[ClassInfo, Any]] = []
        for c in statics:
            fa = c.field_annotation(name)
            if fa is not None and fa not in decl:
                decl.append(fa)
        methods = []
        for c in statics:
            m = c.find_method(name)
            if m is not None and m not in methods:
                methods.append(m)
        if not decl and not methods:
            # 2. declared in subclasses: find the top-most declaring classes
            subs: List[ClassInfo] = []
            for c in statics:
                for d in self.engine.loader.all_subclasses(c):
                    if d not in subs:
                        subs.append(d)
            tops: List[Tuple[ClassInfo, Any]] = []
            for d in subs:
                fa = d.field_annotation(name)
                if fa is not None and all(fa[0] is not t[0] for t in tops):
                    tops.append(fa)
            tops = [t for t in tops if not any(t[0] is not u[0] and t[0].is_subclass_of(u[0]) for u in tops)]
            if not tops:
                mm = []
                for d in subs:
                    m = d.find_method(name)
                    if m is not None and m not in mm:
                        mm.append(m)
                if mm:
                    return self.dispatch_method(obj, name, subs, node, fr)
                if fr.in_spec or self.path.temps:
                    return VOpaque("undefined." + name)  # guarded by an isinstance test that is false here
                raise Unsupported(f"attribute {name} not found on {obj!r}")
            # the dynamic class must be one declaring it (else AttributeError; mypy rules this out)
            if len(tops) == 1:
                decl = tops
            else:
                for t in tops:
                    if self.path.branch(self.isinstance_term(obj, [t[0]])):
                        decl = [t]
                        break
                else:
                    if fr.in_spec or self.path.temps:
                        # undefined sub-term of a guarded spec expression: its value is irrelevant
                        return VOpaque("undefined." + name)
                    raise PathEnd("no class declares attribute")
        if decl:
            dc, ann = decl[0]
            if ann is None:
                raise Unsupported(f"no annotation for field {dc.name}.{name}")
            v = self.mk_sym(ann, dc.module, f"{dc.name}.{name}", (obj.ident,))
            self.path.cache[key] = v
            self.assume_init_requires(obj, dc)
            return v
        # methods / properties: dynamic dispatch over the possible classes
        subs2: List[ClassInfo] = []
        for c in statics:
            for d in self.engine.loader.all_subclasses(c):
                if d not in subs2:
                    subs2.append(d)
        return self.dispatch_method(obj, name, subs2, node, fr)

    def assume_init_requires(self, obj: SymObj, cls: ClassInfo) -> None:
        """Data invariant of a symbolic input object: the ``@require``s of its class's ``__init__`` hold
        for its fields (every instance went through the constructor; fields of these classes are Final or
        never reassigned -- assumption listed in the evidence)."""
        flag = ("init-inv", obj.key(), cls.qualname)
        if flag in self.path.cache:
            return
        self.path.cache[flag] = True
        init = cls.methods.get("__init__")
        if init is None or not init.requires:
            return
        pnames = [p.arg for p in init.params][1:]
        for lam, desc in init.requires:
            args = [a.arg for a in lam.args.args]
            if not all(a in pnames for a in args):
                continue
            # only parameters stored verbatim into the field of the same name
            ok = True
            for a in args:
                fa = cls.field_annotation(a)
                if fa is None or fa[1] is None:
                    ok = False
            if not ok:
                continue
            lfr = Frame(cls.module, None, {}, None)
            lfr.in_spec = True
            saved_temps = self.path.temps
            self.path.temps = []  # the invariant holds wherever the object is used, not only under the current guard
            try:
                for a in args:
                    lfr.env[a] = self.sym_getattr(obj, a, None, lfr)
                self.assume_term(self.truthy(self.ev(lam.body, lfr)))
                self.note_assumption(f"data invariant: @require of {init.qualname} holds for symbolic instances")
            except (Unsupported, PathEnd):
                continue
            finally:
                self.path.temps = saved_temps

    def dispatch_method(self, obj: SymObj, name: str, subs: List[ClassInfo], node: Any, fr: Frame) -> V:
        impls: List[Tuple[FuncInfo, List[ClassInfo]]] = []
        for d in subs:
            m = d.find_method(name)
            if m is None:
                continue
            for im in impls:
                if im[0] is m:
                    im[1].append(d)
                    break
            else:
                impls.append((m, [d]))
        if not impls:
            raise Unsupported(f"method {name} not found")
        chosen = impls[0][0]
        if len(impls) > 1:
            tag = self.engine.tagof(obj.ident)
            for m, ds in impls:
                cond = z3.Or(*[tag == self.engine.class_id(d) for d in ds])
                if self.path.branch(cond):
                    chosen = m
                    break
            else:
                raise PathEnd("no implementation")
        if chosen.is_property:
            return self.call_function(chosen, [obj], {}, node, fr)
        return VFuncRef(chosen, obj)

    def setattr(self, base: V, name: str, v: V, node: Any, fr: Frame) -> None:
        if isinstance(base, VOpt):
            base = self.unwrap(base, node, fr)
        if isinstance(base, ConcObj):
            base.fields[name] = v
            return
        if isinstance(base, SymObj):
            if not getattr(self.unit, "allow_sym_writes", False):
                raise Unsupported(f"write to field {name} of a symbolic object")
            self.path.cache[("field", base.key(), name)] = v
            return
        raise Unsupported(f"setattr on {base!r}")

    # ------------------------------------------------------------------------ calls
    def ev_Call(self, node: ast.Call, fr: Frame) -> V:
        # special forms that must see unevaluated arguments
        if isinstance(node.func, ast.Name) and node.func.id in self.helpers and fr.lookup(node.func.id) is None:
            return self.helpers[node.func.id](self, node, fr)
        f = self.ev(node.func, fr)
        args: List[V] = []
        for a in node.args:
            if isinstance(a, ast.Starred):
                args.extend(self.concrete_items(self.ev(a.value, fr)))
            else:
                args.append(self.ev(a, fr))
        kwargs: Dict[str, V] = {}
        for kw in node.keywords:
            if kw.arg is None:
                raise Unsupported("**kwargs call")
            kwargs[kw.arg] = self.ev(kw.value, fr)
        return self.call(f, args, kwargs, node, fr)

    def call(self, f: V, args: List[V], kwargs: Dict[str, V], node: Any, fr: Frame) -> V:
        if isinstance(f, VBuiltin):
            return self.call_builtin(f, args, kwargs, node, fr)
        if isinstance(f, VFuncRef):
            if f.bound is not None:
                args = [f.bound] + args
            return self.call_function(f.func, args, kwargs, node, fr, closure=getattr(f, "closure", None))
        if isinstance(f, VClassRef):
            return self.construct(f.cls, args, kwargs, node, fr)
        if isinstance(f, VLambda):
            return self.call_lambda(f, args, kwargs, node, fr)
        if isinstance(f, VOpaque):
            cr = getattr(f, "callable_ret", None)
            if cr is not None and not kwargs:
                try:
                    keys = tuple(self.key_term(a) for a in args)
                except Unsupported:
                    keys = None
                if keys is not None:
                    self.note_assumption(f"the callable argument {f.hint} is a pure, deterministic, total function")
                    return self.mk_sym(cr[0], cr[1], f.hint + "()", keys)
            return VOpaque(f.hint + "()")
        if isinstance(f, VModuleRef) and isinstance(f.module, str):
            return self.call_builtin(VBuiltin(f.module), args, kwargs, node, fr)
        raise Unsupported(f"call of {f!r}")

    def call_lambda(self, f: VLambda, args: List[V], kwargs: Dict[str, V], node: Any, fr: Frame) -> V:
        lam = f.node
        child = Frame(f.frame.module, None, {}, f.frame, f.frame.extra_modules)
        child.in_spec = f.frame.in_spec or fr.in_spec
        child.depth = fr.depth
        names = [a.arg for a in lam.args.args]
        for n, v in zip(names, args):
            child.env[n] = v
        for k, v in kwargs.items():
            child.env[k] = v
        return self.ev(lam.body, child)

    def bind_args(self, fi: FuncInfo, args: List[V], kwargs: Dict[str, V], node: Any, fr: Frame) -> Dict[str, V]:
        a = fi.node.args
        params = list(a.posonlyargs) + list(a.args)
        env: Dict[str, V] = {}
        if len(args) > len(params) and a.vararg is None:
            self.ob(z3.BoolVal(False), "call-arity", node, fr, f"too many positional arguments to {fi.name}")
            raise PathEnd("arity")
        for p, v in zip(params, args):
            env[p.arg] = v
        if a.vararg is not None:
            env[a.vararg.arg] = VTuple(args[len(params):])
        for k, v in kwargs.items():
            if k in env:
                raise Unsupported("duplicate argument")
            env[k] = v
        defaults = list(a.defaults)
        dparams = params[len(params) - len(defaults):] if defaults else []
        dfr = Frame(fi.module)
        dfr.in_spec = True
        for p, d in zip(dparams, defaults):
            if p.arg not in env:
                env[p.arg] = self.ev(d, dfr)
        for p, d in zip(a.kwonlyargs, a.kw_defaults):
            if p.arg not in env and d is not None:
                env[p.arg] = self.ev(d, dfr)
        for p in params + list(a.kwonlyargs):
            if p.arg not in env:
                self.ob(z3.BoolVal(False), "call-arity", node, fr, f"missing argument {p.arg} to {fi.name}")
                raise PathEnd("arity")
        return env

    def call_function(self, fi: FuncInfo, args: List[V], kwargs: Dict[str, V], node: Any, fr: Frame,
                      closure: Optional[Frame] = None) -> V:
        env = self.bind_args(fi, args, kwargs, node, fr)
        if any(fi.qualname.startswith(p) for p in getattr(self.unit, "pure", ())):
            return self.call_uninterpreted(fi, env, node, fr)
        if fi.module.name.startswith("specs.") and fi.cls is None:
            conc = self.all_concrete(list(env.values()))
            if conc is not None:
                # a spec function on fully concrete arguments is simply run
                import importlib
                try:
                    mod = importlib.import_module(fi.module.name)
                    return self.from_py(getattr(mod, fi.name)(**dict(zip(env.keys(), conc))))
                except ImportError:
                    pass
        model = self.engine.func_models.get(fi.qualname)
        if model is not None:
            return model(self, env, node, fr)
        contract = self.engine.contract_for(fi.qualname)
        unit = self.unit
        if any(fi.qualname.startswith(p) for p in getattr(unit, "pure", ())):
            return self.call_uninterpreted(fi, env, node, fr)
        use_contract = False
        if fi.qualname in getattr(unit, "opaque", ()):
            use_contract = True
        elif contract is not None and contract.use_as_callee and fi.qualname not in getattr(unit, "inline", ()):
            use_contract = True
        elif self.on_stack(fi, fr):
            use_contract = True  # recursion: only the contract is known
        if fr.in_spec and not fi.module.name.startswith("aas_core_codegen"):
            use_contract = False
        if use_contract:
            return self.call_by_contract(fi, contract, env, node, fr)
        return self.call_inline(fi, env, node, fr, closure)

    def call_uninterpreted(self, fi: FuncInfo, env: Dict[str, V], node: Any, fr: Frame) -> V:
        """A pure function the proof must not depend on: an uninterpreted function of its arguments."""
        ts = []
        for v in env.values():
            if isinstance(v, VOpt):
                ts.append(v.isnone)
                v = v.val
            if isinstance(v, (VClassRef, VFuncRef)):
                continue
            ts.append(v.ident if isinstance(v, VExt) else self.key_term(v))
        ret = self.mk_sym(fi.node.returns, fi.module, "$probe")
        name = "pure_" + fi.qualname.replace(":", ".")
        if isinstance(ret, VStr):
            return VStr([z3.Function(name, *[t.sort() for t in ts], SEQ)(*ts)])
        if isinstance(ret, VInt):
            return VInt(z3.Function(name, *[t.sort() for t in ts], z3.IntSort())(*ts))
        if isinstance(ret, VBool):
            return VBool(z3.Function(name, *[t.sort() for t in ts], z3.BoolSort())(*ts))
        raise Unsupported(f"uninterpreted call of {fi.qualname}: return type")

    def all_concrete(self, vals: List[V]) -> Optional[List[Any]]:
        out: List[Any] = []
        for v in vals:
            if isinstance(v, VStr) and v.py is not None:
                out.append(v.py.encode("latin-1") if v.is_bytes else v.py)
            elif isinstance(v, VInt) and v.concrete() is not None:
                out.append(v.concrete())
            elif isinstance(v, VBool) and v.concrete() is not None:
                out.append(v.concrete())
            elif isinstance(v, VNoneT):
                out.append(None)
            else:
                return None
        return out

    def on_stack(self, fi: FuncInfo, fr: Frame) -> bool:
        f: Optional[Frame] = fr
        while f is not None:
            if f.func is fi:
                return True
            f = getattr(f, "caller", None) or f.parent
        return False

    def check_requires(self, fi: FuncInfo, env: Dict[str, V], node: Any, fr: Frame) -> None:
        """The repository's own ``@require``s become obligations at the call site."""
        if any(fi.qualname.startswith(p) for p in getattr(self.unit, "assume_preconditions", ())):
            if fi.requires:
                self.note_assumption(f"ASSUMED at its call sites in {getattr(self.unit, 'name', '?')}: @require of "
                                     f"{fi.qualname} ({getattr(self.unit, 'assume_preconditions_why', '')})")
            return
        for lam, desc in fi.requires:
            cfr = Frame(fi.module, None, {}, None)
            cfr.in_spec = True
            for a in lam.args.args:
                if a.arg not in env:
                    raise Unsupported(f"@require lambda argument {a.arg}")
                cfr.env[a.arg] = env[a.arg]
            if fi.cls is not None:
                cfr.extra_modules = []
            try:
                c = self.truthy(self.ev(lam.body, cfr))
            except Unsupported as e:
                self.note_assumption(f"@require of {fi.qualname} not interpretable ({e}); assumed at call site "
                                     f"line {getattr(node, 'lineno', 0)}")
                continue
            line = getattr(node, "lineno", 0)
            fname = self.func_label(fr)
            key = f"{fname}:precondition:{fi.name}#{fi.requires.index((lam, desc))}@{self.rel(fr, line)}c{getattr(node, 'col_offset', 0)}"
            o = Obligation(key, "precondition", fname, line,
                           f"@require of {fi.qualname}: {ast.unparse(lam.body)[:100]}")
            self.path.oblige(self.goal_term(c), o)

    def note_assumption(self, text: str) -> None:
        if text not in self.path.assumptions_used:
            self.path.assumptions_used.append(text)

    def call_inline(self, fi: FuncInfo, env: Dict[str, V], node: Any, fr: Frame,
                    closure: Optional[Frame] = None) -> V:
        if fr.depth > getattr(self.unit, "inline_depth", 8):
            raise Unsupported(f"inlining depth exceeded at {fi.qualname}")
        if fi.is_abstract or (len(fi.node.body) == 1 and isinstance(fi.node.body[0], ast.Raise)):
            raise Unsupported(f"call of abstract method {fi.qualname}")
        if not fr.in_spec:
            self.check_requires(fi, env, node, fr)
        child = Frame(fi.module, fi, env, closure)
        child.caller = fr  # type: ignore
        child.depth = fr.depth + 1
        child.in_spec = fr.in_spec
        child.contract = None
        own = self.engine.contract_for(fi.qualname)
        if own is not None and own.loops:
            child.contract = own  # loop invariants of an inlined callee
        for p in fi.params + list(fi.node.args.kwonlyargs):
            if p.annotation is not None:
                child.var_types[p.arg] = p.annotation
        self.engine.note_function(fi, "inlined" if fr.depth or fr.func is not None else "target")
        try:
            self.ex_block(fi.node.body, child)
            result: V = NONE
        except ReturnEx as r:
            result = r.value
        if fi.name == "__init__":
            return NONE
        return result

    def call_by_contract(self, fi: FuncInfo, contract: Any, env: Dict[str, V], node: Any, fr: Frame) -> V:
        if not fr.in_spec:
            self.check_requires(fi, env, node, fr)
        cfr = self.contract_frame(fi, contract, env)
        if contract is not None and not fr.in_spec:
            for nm, ex in contract.requires:
                goal = self.truthy(self.eval_spec(ex, cfr))
                line = getattr(node, "lineno", 0)
                fname = self.func_label(fr)
                o = Obligation(f"{fname}:precondition:{fi.name}:{nm}@{self.rel(fr, line)}", "precondition", fname, line,
                               f"requires of {fi.qualname}: {ex}")
                self.path.oblige(self.goal_term(goal), o)
        # old(...) values of the callee's postconditions are taken before its frame is havocked
        if contract is not None:
            olds: Dict[str, V] = {}
            for nm, ex in contract.ensures:
                for n in ast.walk(self.parse_spec(ex)):
                    if isinstance(n, ast.Call) and isinstance(n.func, ast.Name) and n.func.id == "old":
                        try:
                            olds[ast.dump(n.args[0])] = self.eval_spec(ast.unparse(n.args[0]), cfr)
                        except Unsupported:
                            pass
            cfr.olds = olds  # type: ignore
        # frame: havoc what the callee may modify
        if contract is not None:
            for pname in contract.modifies:
                if "." in pname:
                    base, _, field = pname.rpartition(".")
                    self.havoc_field(self.eval_spec(base, cfr), field, cfr)
                    continue
                cur = env.get(pname)
                if isinstance(cur, (VList, VDict, VStream)):
                    tmp = Frame(fi.module)
                    tmp.env[pname] = cur
                    self.havoc_value(pname, cur, tmp)
        ret_ann = fi.node.returns
        rname = self.path.fresh_name(f"{fi.name}.ret")
        if ret_ann is None or (isinstance(ret_ann, ast.Constant) and ret_ann.value is None):
            result: V = NONE
        else:
            result = self.mk_sym(ret_ann, fi.module, rname)
        cfr.env["result"] = result
        # the repository's own @ensure is part of the callee's contract
        for lam, desc in fi.ensures:
            lfr = Frame(fi.module, None, {}, None)
            lfr.in_spec = True
            ok = True
            for a in lam.args.args:
                if a.arg == "result":
                    lfr.env["result"] = result
                elif a.arg in env:
                    lfr.env[a.arg] = env[a.arg]
                else:
                    ok = False
            if not ok:
                continue
            try:
                self.assume_term(self.truthy(self.ev(lam.body, lfr)))
            except Unsupported:
                continue
        if contract is not None:
            for nm, ex in contract.ensures:
                if any(w in ex for w in ("fs_trace(", "final(", "appended(", "appended_count(", "dict_writes(",
                                         "last_call(", "was_called(")):
                    continue  # about the callee's own ghost state: meaningless in the caller's frame
                try:
                    self.assume_term(self.truthy(self.eval_spec(ex, cfr)))
                except Unsupported as e:
                    self.note_assumption(f"ensures {nm} of {fi.qualname} not usable at call site: {e}")
        self.path.cache.setdefault(("calls",), []).append((fi.qualname, result))
        self.engine.note_function(fi, "by-contract")
        self.note_assumption(f"callee {fi.qualname} used by contract"
                             + ("" if contract is not None else " (repository @require/@ensure only)"))
        return result

    def contract_frame(self, fi: FuncInfo, contract: Any, env: Dict[str, V]) -> Frame:
        mods = []
        for s in (contract.specs if contract is not None else []):
            m = self.engine.loader.module(s)
            if m is None:
                raise Unsupported(f"spec module {s} not found")
            mods.append(m)
        cfr = Frame(fi.module, None, dict(env), None, mods)
        cfr.in_spec = True
        return cfr

    # ----------------------------------------------------------------- constructors
    def construct(self, cls: ClassInfo, args: List[V], kwargs: Dict[str, V], node: Any, fr: Frame) -> V:
        if cls.is_enum():
            # Enum(value) lookup
            if len(args) != 1:
                raise Unsupported("enum construction")
            cf = Frame(cls.module)
            cf.in_spec = True
            for k, (_, ve) in enumerate(cls.enum_members()):
                if self.path.branch(self.eq(args[0], self.ev(ve, cf))):
                    return VEnum(cls, k)
            self.ob(z3.BoolVal(False), "enum-value", node, fr, "value is a member of the enum")
            raise PathEnd("ValueError")
        if cls.is_str_subclass():
            new = cls.find_method("__new__")
            val = args[0] if args else next(iter(kwargs.values()))
            if new is not None and not fr.in_spec:
                pn = [p.arg for p in new.params][1:]
                env = {pn[0]: val} if pn else {}
                for c in cls.mro():
                    n2 = c.methods.get("__new__")
                    if n2 is not None:
                        pn2 = [p.arg for p in n2.params][1:]
                        self.check_requires(n2, {pn2[0]: val} if pn2 else {}, node, fr)
            return val
        if cls.is_exception():
            e = VExc(cls.name, args, cls)
            init = cls.find_method("__init__")
            if init is not None:
                obj = ConcObj(cls)
                self.call_function(init, [obj] + args, kwargs, node, fr)
                e.obj = obj  # type: ignore
            return e
        own_new = cls.methods.get("__new__")
        if own_new is not None and cls.find_method("__init__") is None and len(args) + len(kwargs) == 1 \
                and len(own_new.params) == 2:
            # a "tagging" class (``def __new__(cls, x): return cast(Cls, x)``): the value is its argument; the
            # @require of __new__ is a call-site obligation
            body = [st for st in own_new.node.body if not (isinstance(st, ast.Expr) and isinstance(st.value, ast.Constant))]
            ret = body[0].value if len(body) == 1 and isinstance(body[0], ast.Return) else None
            pname = own_new.params[1].arg
            if isinstance(ret, ast.Call) and getattr(ret.func, "id", "") == "cast" and len(ret.args) == 2 \
                    and isinstance(ret.args[1], ast.Name) and ret.args[1].id == pname:
                val = args[0] if args else next(iter(kwargs.values()))
                if not fr.in_spec:
                    self.check_requires(own_new, {pname: val}, node, fr)
                return val
        init = cls.find_method("__init__")
        if init is not None:
            ic = self.engine.contract_for(init.qualname)
            if (ic is not None and ic.use_as_callee and init.qualname not in getattr(self.unit, "inline", ())
                    and not fr.in_spec) or init.qualname in getattr(self.unit, "opaque", ()):
                # constructor by contract: a fresh symbolic instance constrained by the postconditions
                sobj = self.mk_instance(cls, self.path.fresh_name("new_" + cls.name), ())
                self.call_function(init, [sobj] + args, kwargs, node, fr)
                return sobj
        obj = ConcObj(cls)
        if init is not None:
            self.call_function(init, [obj] + args, kwargs, node, fr)
        elif args or kwargs:
            raise Unsupported(f"constructor arguments for {cls.name} without __init__")
        return obj
