"""Expression evaluation (mixin of Interp)."""
import ast
from typing import Any, Dict, List, Optional, Tuple

import z3

from .loader import ClassInfo, FuncInfo, Module
from .path import Obligation, PathEnd
from .values import (SEQ, NONE, V, VBool, VBuiltin, VClassRef, VDict, VEnum, VExc, VExt, VFloat, VFuncRef,
                     VInt, VLambda, VList, VModuleRef, VNoneT, VOpaque, VOpt, VPrimUnion, VSet, VStr,
                     VStream, VTuple, ConcObj, SymObj, Unsupported, seq_of_py, vconcat)

HEX = "0123456789abcdef"


def v_has_no_format(v: Any) -> bool:
    classes = [v.cls] if isinstance(v, ConcObj) else list(v.static)
    return all(c.find_method("__format__") is None and not c.is_str_subclass() for c in classes)


class Frame:
    def __init__(self, module: Module, func: Optional[FuncInfo] = None, env: Optional[Dict[str, V]] = None,
                 parent: Optional["Frame"] = None, extra_modules: Optional[List[Module]] = None):
        self.module = module
        self.func = func
        self.env: Dict[str, V] = env if env is not None else {}
        self.parent = parent
        self.extra_modules = extra_modules or []
        self.var_types: Dict[str, Any] = {}
        self.loop_counter = 0
        self.contract: Any = None
        self.depth = 0
        self.in_spec = False

    def lookup(self, name: str) -> Optional[V]:
        fr: Optional[Frame] = self
        while fr is not None:
            if name in fr.env:
                return fr.env[name]
            fr = fr.parent
        return None


class RaiseEx(Exception):
    def __init__(self, exc: VExc, node: Any = None):
        self.exc = exc
        self.node = node


class ReturnEx(Exception):
    def __init__(self, value: V):
        self.value = value


class BreakEx(Exception):
    pass


class ContinueEx(Exception):
    pass


class Exprs:
    # ------------------------------------------------------------------ helpers
    def ob(self, goal: Any, kind: str, node: Any, fr: Frame, desc: str = "") -> None:
        """Emit a proof obligation at ``node``."""
        if fr.in_spec:
            return  # definedness of spec expressions is not checked
        line = getattr(node, "lineno", 0)
        col = getattr(node, "col_offset", 0)
        fname = self.func_label(fr)
        key = f"{fname}:{kind}@{self.rel(fr, line)}c{col}"
        o = Obligation(key, kind, fname, line, desc)
        self.path.oblige(goal, o)

    def rel(self, fr: "Frame", line: int) -> str:
        """Line relative to the enclosing function (stable under edits elsewhere in the file)."""
        f: Optional[Frame] = fr
        while f is not None:
            if f.func is not None:
                return f"+{line - f.func.node.lineno}"
            if getattr(f, "label", None):
                return "exit"
            f = f.parent
        return f"L{line}"

    def func_label(self, fr: Frame) -> str:
        f: Optional[Frame] = fr
        while f is not None:
            if f.func is not None:
                return f.func.qualname
            if getattr(f, "label", None):
                return f.label  # type: ignore
            f = f.parent
        return fr.module.name

    def truthy(self, v: V) -> Any:
        if isinstance(v, VBool):
            return v.t
        if isinstance(v, VInt):
            return v.t != 0
        if isinstance(v, VStr):
            if v.py is not None:
                return z3.BoolVal(len(v.py) > 0)
            return z3.Length(v.t) > 0
        if isinstance(v, VNoneT):
            return z3.BoolVal(False)
        if isinstance(v, VOpt):
            return z3.And(z3.Not(v.isnone), self.truthy(v.val))
        if isinstance(v, VList):
            return v.length() > 0
        if isinstance(v, VTuple):
            return z3.BoolVal(len(v.items) > 0)
        if isinstance(v, VDict):
            if v.base_get is None and not v.havocked:
                return z3.BoolVal(len(v.items) > 0)
            raise Unsupported("truthiness of symbolic dict")
        if isinstance(v, VSet):
            if v.base_has is None:
                return z3.BoolVal(len(v.items) > 0)
            raise Unsupported("truthiness of symbolic set")
        if isinstance(v, (ConcObj, SymObj, VEnum, VExt, VClassRef, VFuncRef, VExc, VStream)):
            return z3.BoolVal(True)
        if isinstance(v, VPrimUnion):
            # the truth value of whichever alternative the tag selects (floats are opaque: an unknown boolean)
            out: Any = z3.BoolVal(False)
            for k, name in enumerate(v.order):
                alt = v.alts[name]
                if isinstance(alt, VFloat):
                    t = z3.Bool(self.path.fresh_name("$float-truth"))
                else:
                    t = self.truthy(alt)
                out = z3.If(v.kind == k, t, out)
            return out
        if isinstance(v, VOpaque):
            return z3.Bool(self.path.fresh_name("$opaque-truth"))
        raise Unsupported(f"truthiness of {v!r}")

    def unwrap(self, v: V, node: Any, fr: Frame, what: str = "value") -> V:
        """Use an Optional as its value: obligation that it is not None."""
        if isinstance(v, VOpt):
            self.ob(z3.Not(v.isnone), "none-deref", node, fr, f"{what} is not None")
            return v.val
        if isinstance(v, VNoneT):
            self.ob(z3.BoolVal(False), "none-deref", node, fr, f"{what} is not None")
            raise PathEnd("None dereferenced")
        return v

    def as_int(self, v: V, node: Any, fr: Frame) -> Any:
        v = self.unwrap(v, node, fr)
        if isinstance(v, VInt):
            return v.t
        if isinstance(v, VBool):
            return z3.If(v.t, 1, 0)
        if isinstance(v, VPrimUnion):
            self.ob(v.is_kind("int", "bool"), "type", node, fr, "operand is an int")
            t = None
            for nme in v.order:
                if nme == "int":
                    t = v.alts["int"].t  # type: ignore
            if t is None:
                raise Unsupported("prim union without int")
            if "bool" in v.order:
                t = z3.If(v.is_kind("bool"), z3.If(v.alts["bool"].t, 1, 0), t)  # type: ignore
            return t
        if isinstance(v, VOpaque) and v.hint.startswith("undefined"):
            return z3.Int(self.path.fresh_name("$opaque-int"))
        raise Unsupported(f"int expected, got {v!r}")

    def as_str(self, v: V, node: Any, fr: Frame) -> VStr:
        v = self.unwrap(v, node, fr)
        if isinstance(v, VStr):
            return v
        if isinstance(v, VPrimUnion) and "str" in v.order:
            self.ob(v.is_kind("str"), "type", node, fr, "operand is a str")
            return v.alts["str"]  # type: ignore
        if isinstance(v, VOpaque) and v.hint.startswith("undefined"):
            return self.opaque_str("opaque-str")
        raise Unsupported(f"str expected, got {v!r}")

    def pystr(self, s: str) -> VStr:
        return VStr(s, is_char=len(s) == 1)

    def char_code(self, v: VStr) -> Optional[Any]:
        """Code point term if ``v`` is syntactically one character."""
        if v.py is not None:
            return z3.IntVal(ord(v.py)) if len(v.py) == 1 else None
        if len(v.parts) == 1 and not isinstance(v.parts[0], str):
            t = v.parts[0]
            if z3.is_app(t) and t.decl().kind() == z3.Z3_OP_SEQ_UNIT:
                return t.arg(0)
            if v.is_char:
                return t[0]
        return None

    # -------------------------------------------------------------- equality etc.
    def eq(self, a: V, b: V) -> Any:
        """z3 Bool: Python ``a == b``."""
        if isinstance(a, VOpaque) or isinstance(b, VOpaque):
            return z3.Bool(self.path.fresh_name("$opaque-eq"))
        if isinstance(a, VOpt) or isinstance(b, VOpt):
            if isinstance(a, VOpt) and isinstance(b, VOpt):
                return z3.Or(z3.And(a.isnone, b.isnone),
                             z3.And(z3.Not(a.isnone), z3.Not(b.isnone), self.eq(a.val, b.val)))
            if isinstance(a, VOpt):
                a, b = b, a
            assert isinstance(b, VOpt)
            if isinstance(a, VNoneT):
                return b.isnone
            return z3.And(z3.Not(b.isnone), self.eq(a, b.val))
        if isinstance(a, VNoneT) or isinstance(b, VNoneT):
            return z3.BoolVal(isinstance(a, VNoneT) and isinstance(b, VNoneT))
        if isinstance(a, VPrimUnion) or isinstance(b, VPrimUnion):
            if isinstance(b, VPrimUnion) and not isinstance(a, VPrimUnion):
                a, b = b, a
            assert isinstance(a, VPrimUnion)
            if isinstance(b, VPrimUnion):
                raise Unsupported("== between primitive unions")
            if isinstance(b, VStr):
                if "str" in a.order and not b.is_bytes:
                    return z3.And(a.is_kind("str"), self.eq(a.alts["str"], b))
                if "bytes" in a.order and b.is_bytes:
                    return z3.And(a.is_kind("bytes"), self.eq(a.alts["bytes"], b))
                return z3.BoolVal(False)
            if isinstance(b, (VInt, VBool)):
                res = z3.BoolVal(False)
                bt = b.t if isinstance(b, VInt) else z3.If(b.t, 1, 0)
                if "int" in a.order:
                    res = z3.Or(res, z3.And(a.is_kind("int"), a.alts["int"].t == bt))  # type: ignore
                if "bool" in a.order:
                    res = z3.Or(res, z3.And(a.is_kind("bool"), z3.If(a.alts["bool"].t, 1, 0) == bt))  # type: ignore
                return res
            raise Unsupported("== on primitive union")
        if isinstance(a, (VInt, VBool)) and isinstance(b, (VInt, VBool)):
            if isinstance(a, VBool) and isinstance(b, VBool):
                return a.t == b.t
            at = a.t if isinstance(a, VInt) else z3.If(a.t, 1, 0)
            bt = b.t if isinstance(b, VInt) else z3.If(b.t, 1, 0)
            return at == bt
        if isinstance(a, VStr) and isinstance(b, VStr):
            if a.py is not None and b.py is not None:
                return z3.BoolVal(a.py == b.py and a.is_bytes == b.is_bytes)
            ua, ub = a.units(), b.units()
            if ua is not None and ub is not None:
                if len(ua) != len(ub):
                    return z3.BoolVal(False)
                cs = [x == y for x, y in zip(ua, ub) if not (isinstance(x, int) and isinstance(y, int) and x == y)]
                if any(c is False for c in cs):
                    return z3.BoolVal(False)
                cs = [c for c in cs if c is not True]
                return z3.And(*cs) if cs else z3.BoolVal(True)
            ca, cb = self.char_code(a), self.char_code(b)
            if ca is not None and cb is not None:
                return ca == cb
            if ca is not None and b.py is not None and len(b.py) != 1:
                return z3.BoolVal(False)
            if cb is not None and a.py is not None and len(a.py) != 1:
                return z3.BoolVal(False)
            return a.t == b.t
        if isinstance(a, VTuple) and isinstance(b, VTuple):
            if len(a.items) != len(b.items):
                return z3.BoolVal(False)
            return z3.And(*[self.eq(x, y) for x, y in zip(a.items, b.items)]) if a.items else z3.BoolVal(True)
        if isinstance(a, VEnum) and isinstance(b, VEnum):
            if a.cls is not b.cls:
                return z3.BoolVal(False)
            return a.idx == b.idx
        if isinstance(a, VList) and isinstance(b, VList):
            if a.is_concrete() and b.is_concrete():
                if len(a.tail) != len(b.tail):
                    return z3.BoolVal(False)
                return z3.And(*[self.eq(x, y) for x, y in zip(a.tail, b.tail)]) if a.tail else z3.BoolVal(True)
            if a is b:
                return z3.BoolVal(True)
            raise Unsupported("== on symbolic lists")
        if isinstance(a, (ConcObj, SymObj)) and isinstance(b, (ConcObj, SymObj)):
            return self.same(a, b)
        if isinstance(a, VExt) and isinstance(b, VExt):
            return a.ident == b.ident
        if isinstance(a, VClassRef) and isinstance(b, VClassRef):
            return z3.BoolVal(a.cls is b.cls)
        if type(a) is not type(b):
            kinds = (VInt, VBool, VStr, VTuple, VEnum, VList, ConcObj, SymObj, VDict, VSet, VFloat)
            if isinstance(a, kinds) and isinstance(b, kinds):
                if {type(a), type(b)} <= {ConcObj, SymObj}:
                    return self.same(a, b)
                return z3.BoolVal(False)
        if a is b:
            return z3.BoolVal(True)
        raise Unsupported(f"== between {a!r} and {b!r}")

    def same(self, a: V, b: V) -> Any:
        """z3 Bool: Python ``a is b``."""
        if isinstance(a, VOpaque) or isinstance(b, VOpaque):
            return z3.Bool(self.path.fresh_name("$opaque-is"))
        if isinstance(a, VOpt) or isinstance(b, VOpt):
            if isinstance(a, VOpt) and isinstance(b, VOpt):
                return z3.Or(z3.And(a.isnone, b.isnone),
                             z3.And(z3.Not(a.isnone), z3.Not(b.isnone), self.same(a.val, b.val)))
            if isinstance(a, VOpt):
                a, b = b, a
            assert isinstance(b, VOpt)
            if isinstance(a, VNoneT):
                return b.isnone
            return z3.And(z3.Not(b.isnone), self.same(a, b.val))
        if isinstance(a, VNoneT) or isinstance(b, VNoneT):
            return z3.BoolVal(isinstance(a, VNoneT) and isinstance(b, VNoneT))
        if isinstance(a, VEnum) and isinstance(b, VEnum):
            return self.eq(a, b)
        if isinstance(a, SymObj) and isinstance(b, SymObj):
            return a.ident == b.ident
        if isinstance(a, (ConcObj, SymObj)) and isinstance(b, (ConcObj, SymObj)):
            return z3.BoolVal(a is b)
        if isinstance(a, VBool) and isinstance(b, VBool):
            return a.t == b.t
        if isinstance(a, VClassRef) and isinstance(b, VClassRef):
            return z3.BoolVal(a.cls is b.cls)
        if isinstance(a, (VDict, VList, VSet)) or isinstance(b, (VDict, VList, VSet)):
            return z3.BoolVal(a is b)
        if isinstance(a, VExt) and isinstance(b, VExt):
            return a.ident == b.ident
        if isinstance(a, (VInt, VStr)) and isinstance(b, (VInt, VStr)):
            return self.eq(a, b)  # small ints / interned strings: only used on constants
        if type(a) is not type(b):
            return z3.BoolVal(False)
        return z3.BoolVal(a is b)

    def ite_merge(self, c: Any, a: V, b: V) -> Optional[V]:
        """``a if c else b`` as one value, if shapes are compatible; else None."""
        if a is b:
            return a
        if isinstance(a, VOpaque) and a.hint.startswith("undefined"):
            return b
        if isinstance(b, VOpaque) and b.hint.startswith("undefined"):
            return a
        if isinstance(a, VInt) and isinstance(b, VInt):
            return VInt(z3.If(c, a.t, b.t))
        if isinstance(a, VBool) and isinstance(b, VBool):
            return VBool(z3.If(c, a.t, b.t))
        if isinstance(a, VStr) and isinstance(b, VStr):
            return VStr([z3.If(c, a.t, b.t)], is_bytes=a.is_bytes, is_char=a.is_char and b.is_char)
        if isinstance(a, VEnum) and isinstance(b, VEnum) and a.cls is b.cls:
            return VEnum(a.cls, z3.If(c, a.idx, b.idx))
        if isinstance(a, VTuple) and isinstance(b, VTuple) and len(a.items) == len(b.items):
            items = []
            for x, y in zip(a.items, b.items):
                m = self.ite_merge(c, x, y)
                if m is None:
                    return None
                items.append(m)
            return VTuple(items)
        if isinstance(a, SymObj) and isinstance(b, SymObj):
            st = tuple(dict.fromkeys(a.static + b.static))
            return SymObj(z3.If(c, a.ident, b.ident), st)
        if isinstance(a, (VOpt, VNoneT)) or isinstance(b, (VOpt, VNoneT)):
            an = a.isnone if isinstance(a, VOpt) else z3.BoolVal(isinstance(a, VNoneT))
            bn = b.isnone if isinstance(b, VOpt) else z3.BoolVal(isinstance(b, VNoneT))
            av = a.val if isinstance(a, VOpt) else (None if isinstance(a, VNoneT) else a)
            bv = b.val if isinstance(b, VOpt) else (None if isinstance(b, VNoneT) else b)
            if av is None and bv is None:
                return NONE
            if av is None:
                inner = bv
            elif bv is None:
                inner = av
            else:
                inner = self.ite_merge(c, av, bv)
            if inner is None:
                return None
            return VOpt(z3.If(c, an, bn), inner)
        return None

    # ----------------------------------------------------------------- evaluation
    def ev(self, node: ast.expr, fr: Frame) -> V:
        m = getattr(self, "ev_" + type(node).__name__, None)
        if m is None:
            raise Unsupported(f"expression {type(node).__name__} at line {getattr(node, 'lineno', '?')}")
        return m(node, fr)

    def ev_Constant(self, node: ast.Constant, fr: Frame) -> V:
        v = node.value
        if v is None:
            return NONE
        if isinstance(v, bool):
            return VBool(v)
        if isinstance(v, int):
            return VInt(v)
        if isinstance(v, str):
            return self.pystr(v)
        if isinstance(v, bytes):
            return VStr(v)
        if isinstance(v, float):
            return VFloat(py=v)
        if v is Ellipsis:
            return VOpaque("...")
        raise Unsupported(f"constant {v!r}")

    def ev_Name(self, node: ast.Name, fr: Frame) -> V:
        v = fr.lookup(node.id)
        if v is not None:
            return v
        return self.lookup_global(node.id, fr, node)

    def lookup_global(self, name: str, fr: Frame, node: Any = None) -> V:
        for m in [fr.module] + fr.extra_modules:
            r = m.lookup(name)
            if r is not None:
                return self.binding_value(r, name)
        f = fr.parent
        while f is not None:
            for m in [f.module] + f.extra_modules:
                r = m.lookup(name)
                if r is not None:
                    return self.binding_value(r, name)
            f = f.parent
        if name in self.helpers:
            return VBuiltin("helper:" + name)
        if name in self.engine.global_folds:
            return VBuiltin("gfold:" + name)
        if name in self.BUILTIN_NAMES:
            return VBuiltin(name)
        if fr.in_spec:
            # a local that is not bound on this path (the spec guards its use): an undefined value
            return VOpaque("undefined.name." + name)
        raise Unsupported(f"unknown name {name} (line {getattr(node, 'lineno', '?')})")

    def binding_value(self, r: Tuple[str, Any], name: str) -> V:
        kind, x = r
        if kind == "func":
            return VFuncRef(x)
        if kind == "class":
            return VClassRef(x)
        if kind == "module":
            return VModuleRef(x)
        if kind == "external":
            return self.external_value(x)
        if kind == "mutable-global":
            # module-level state that some function changes: at a call its content is whatever earlier calls left
            mod, st, line = x
            key = ("global", mod.name, name)
            if key not in self.path.cache:
                ann = getattr(st, "type_comment", None) or getattr(st, "annotation", None)
                if ann is None:
                    raise Unsupported(f"module-level state {name} (changed at line {line}) has no declared type")
                note = (f"module-level state {mod.name}.{name} is changed by the code (line {line}): its content at a "
                        f"call is taken as arbitrary (of its declared type)")
                if note not in self.path.assumptions_used:
                    self.path.assumptions_used.append(note)
                self.path.cache[key] = self.mk_sym(ann, mod, "$state." + name)
            return self.path.cache[key]
        if kind == "assign":
            mod, expr = x
            key = ("global", mod.name, name)
            if key not in self.path.cache:
                gfr = Frame(mod)
                gfr.in_spec = True
                self.path.cache[key] = self.ev(expr, gfr)
            return self.path.cache[key]
        raise Unsupported(f"binding {kind}")

    def external_value(self, dotted: str) -> V:
        if dotted == "math.inf":
            return VFloat(py=float("inf"))
        if dotted in self.EXTERNAL_CALLABLES or dotted.split(".")[-1] in ("Optional",):
            return VBuiltin(dotted)
        return VModuleRef(dotted)

    def ev_Attribute(self, node: ast.Attribute, fr: Frame) -> V:
        base = self.ev(node.value, fr)
        return self.getattr(base, node.attr, node, fr)

    def ev_Tuple(self, node: ast.Tuple, fr: Frame) -> V:
        items: List[V] = []
        for e in node.elts:
            if isinstance(e, ast.Starred):
                items.extend(self.concrete_items(self.ev(e.value, fr)))
            else:
                items.append(self.ev(e, fr))
        return VTuple(items)

    def ev_List(self, node: ast.List, fr: Frame) -> V:
        items: List[V] = []
        for e in node.elts:
            if isinstance(e, ast.Starred):
                items.extend(self.concrete_items(self.ev(e.value, fr)))
            else:
                items.append(self.ev(e, fr))
        return VList(items)

    def ev_Set(self, node: ast.Set, fr: Frame) -> V:
        return VSet([self.ev(e, fr) for e in node.elts])

    def ev_Dict(self, node: ast.Dict, fr: Frame) -> V:
        d = VDict()
        for k, v in zip(node.keys, node.values):
            if k is None:
                src = self.ev(v, fr)
                if not isinstance(src, VDict) or src.base_get is not None:
                    raise Unsupported("** of symbolic dict")
                for kk, vv in src.items:
                    self.dict_set(d, kk, vv, fr, node)
            else:
                self.dict_set(d, self.ev(k, fr), self.ev(v, fr), fr, node)
        return d

    def concrete_items(self, v: V) -> List[V]:
        if isinstance(v, VTuple):
            return list(v.items)
        if isinstance(v, VList) and v.is_concrete():
            return list(v.tail)
        if isinstance(v, VSet) and v.base_has is None:
            return list(v.items)
        if isinstance(v, VDict) and v.base_get is None and not v.havocked:
            return [k for k, _ in v.items]
        if isinstance(v, VStr) and v.py is not None:
            return [self.pystr(c) if not v.is_bytes else VInt(ord(c)) for c in v.py]
        if isinstance(v, VStr):
            us = v.units()
            if us is not None:
                if v.is_bytes:
                    return [VInt(u) for u in us]
                return [self.pystr(chr(u)) if isinstance(u, int) else VStr([z3.Unit(u)], is_char=True) for u in us]
        raise Unsupported(f"iteration over symbolic collection {v!r} needs a contract")

    def ev_JoinedStr(self, node: ast.JoinedStr, fr: Frame) -> V:
        parts: List[Any] = []
        for p in node.values:
            if isinstance(p, ast.Constant):
                parts.append(str(p.value))
            else:
                assert isinstance(p, ast.FormattedValue)
                s = self.format_value(p, fr)
                parts.extend(s.parts)
        return VStr(parts)

    def format_value(self, p: ast.FormattedValue, fr: Frame) -> VStr:
        spec = ""
        if p.format_spec is not None:
            sv = self.ev(p.format_spec, fr)
            if not isinstance(sv, VStr) or sv.py is None:
                raise Unsupported("symbolic format spec")
            spec = sv.py
        try:
            v = self.ev(p.value, fr)
        except Unsupported:
            if fr.in_spec:
                raise
            return self.opaque_str("fmt")
        return self.to_text(v, spec, p.conversion, p, fr)

    def opaque_str(self, hint: str) -> VStr:
        return VStr([z3.Const(self.path.fresh_name("$" + hint), SEQ)])

    def to_text(self, v: V, spec: str, conversion: int, node: Any, fr: Frame) -> VStr:
        if conversion == ord("r"):
            if isinstance(v, VStr) and v.py is not None:
                return self.pystr(repr(v.py))
            if isinstance(v, VInt) and not spec:
                return self.int_to_dec(v.t)
            f = z3.Function("repr_of_str", SEQ, SEQ)
            if isinstance(v, VStr):
                r = f(v.t)
                n = z3.Length(r)
                # repr of a str: quoted with ' or ", line breaks are escaped
                self.path.add_fact(z3.And(n >= 2, z3.Or(r[0] == 39, r[0] == 34), r[n - 1] == r[0]))
                return VStr([r])
            return self.opaque_str("repr")
        if isinstance(v, VOpt):
            v2 = v
            c = z3.simplify(v2.isnone)
            if z3.is_false(c):
                return self.to_text(v2.val, spec, conversion, node, fr)
            # format of an Optional: fork on None-ness ("None" or the text of the value)
            if not spec and not fr.in_spec:
                if self.path.branch(v2.isnone):
                    return self.pystr("None")
                return self.to_text(v2.val, spec, conversion, node, fr)
            return self.opaque_str("fmtopt")
        if isinstance(v, VStr):
            if spec:
                raise Unsupported(f"str format spec {spec!r}")
            return v
        if isinstance(v, VBool):
            return VStr([z3.If(v.t, seq_of_py("True"), seq_of_py("False"))])
        if isinstance(v, VInt):
            return self.format_int(v.t, spec, node, fr)
        if isinstance(v, VPrimUnion):
            return self.opaque_str("fmtunion")
        if spec and isinstance(v, (ConcObj, SymObj)) and v_has_no_format(v):
            # e.g. f"{obj:08x}": object.__format__ raises TypeError for a non-empty format spec
            self.ob(z3.BoolVal(False), "format-type", node, fr,
                    f"format spec {spec!r} applied to an object without __format__")
            raise PathEnd("TypeError in format")
        if isinstance(v, VEnum) and not spec:
            return self.opaque_str("fmtenum")
        if isinstance(v, VExc):
            s = self.opaque_str("exc-text")
            n = z3.Length(s.t)
            self.path.add_fact(z3.And(n > 0, s.t[n - 1] != 10, s.t[0] != 10))
            self.note_assumption("str(exception) of a library exception is non-empty and has no leading/trailing line break")
            return s
        if isinstance(v, VExt):
            if v.kind.endswith("Path"):
                return self.path_str(v)
            if "data" in v.__dict__ and "str" in v.data:
                return v.data["str"]
            f = z3.Function("str_of_" + v.kind.replace(".", "_"), z3.IntSort(), SEQ)
            return VStr([f(v.ident)])
        return self.opaque_str("fmt")

    def path_str(self, v: VExt) -> VStr:
        f = z3.Function("str_of_path", z3.IntSort(), SEQ)
        return VStr([f(v.ident)])

    def int_to_dec(self, t: Any) -> VStr:
        c = z3.simplify(t)
        if z3.is_int_value(c):
            return self.pystr(str(c.as_long()))
        f = z3.Function("dec_of_int", z3.IntSort(), SEQ)
        r = f(t)
        self.path.add_fact(z3.Length(r) >= 1)
        self.path.add_fact(z3.Or(z3.And(r[0] >= 48, r[0] <= 57), r[0] == 45))
        last = r[z3.Length(r) - 1]
        self.path.add_fact(z3.And(last >= 48, last <= 57))  # the text of an integer ends in a digit
        return VStr([r])

    def hex_digit(self, nib: Any, upper: bool = False) -> Any:
        return z3.If(nib < 10, 48 + nib, (55 if upper else 87) + nib)

    def format_int(self, t: Any, spec: str, node: Any, fr: Frame) -> VStr:
        if spec in ("", "d"):
            return self.int_to_dec(t)
        import re as _re
        m = _re.fullmatch(r"(0?)(\d*)([xXo])", spec)
        if not m:
            raise Unsupported(f"int format spec {spec!r}")
        width = int(m.group(2)) if m.group(2) else 0
        if width and not m.group(1):
            raise Unsupported(f"space-padded hex {spec!r}")
        upper = m.group(3) == "X"
        base = 8 if m.group(3) == "o" else 16
        c = z3.simplify(t)
        if z3.is_int_value(c):
            return self.pystr(format(c.as_long(), spec))
        # symbolic: needs 0 <= t < base**8 on this path
        maxd = 8
        if self.path._check(z3.Or(t < 0, t >= base ** maxd)) != z3.unsat:
            return self.opaque_str("hex")
        # the number of digits is decided by forking, so that the result is a rope of single characters
        n = maxd
        for k in range(max(width, 1), maxd):
            if self.path.branch(t < base ** k):
                n = k
                break
        n = max(n, width, 1)
        # digits as fresh variables with a linear defining fact (0 <= t < 16**n on this path)
        ds = [z3.Int(self.path.fresh_name("$hexdigit")) for _ in range(n)]
        self.path.add_fact(z3.And(*[z3.And(d >= 0, d <= base - 1) for d in ds]))
        self.path.add_fact(t == z3.Sum([ds[k] * (base ** k) for k in range(n)]))
        return VStr([z3.Unit(self.hex_digit(ds[k], upper)) for k in reversed(range(n))])

    # --------------------------------------------------------------------- operators
    def ev_BoolOp(self, node: ast.BoolOp, fr: Frame) -> V:
        is_and = isinstance(node.op, ast.And)
        first = self.ev(node.values[0], fr)
        if not isinstance(first, VBool):
            # value-returning and/or (``x or []``): decide by forking
            cur = first
            for nxt in node.values[1:]:
                t = self.truthy(cur)
                if self.path.branch(t) == (not is_and):
                    return cur
                cur = self.ev(nxt, fr)
            return cur
        acc = first.t
        pushed = 0
        try:
            for nxt in node.values[1:]:
                guard = z3.simplify(acc if is_and else z3.Not(acc))
                if z3.is_false(guard):
                    break
                self.path.temps.append(guard)
                pushed += 1
                v = self.ev(nxt, fr)
                t = self.truthy(v)
                acc = z3.And(acc, t) if is_and else z3.Or(acc, t)
        finally:
            for _ in range(pushed):
                self.path.temps.pop()
        return VBool(acc)

    def ev_UnaryOp(self, node: ast.UnaryOp, fr: Frame) -> V:
        v = self.ev(node.operand, fr)
        if isinstance(node.op, ast.Not):
            return VBool(z3.Not(self.truthy(v)))
        if isinstance(node.op, ast.USub):
            if isinstance(v, VFloat):
                return VFloat(py=-v.py if v.py is not None else None)
            return VInt(-self.as_int(v, node, fr))
        if isinstance(node.op, ast.UAdd):
            return VInt(self.as_int(v, node, fr))
        raise Unsupported("unary op")

    def ev_IfExp(self, node: ast.IfExp, fr: Frame) -> V:
        c = self.truthy(self.ev(node.test, fr))
        cs = z3.simplify(c)
        if z3.is_true(cs):
            return self.ev(node.body, fr)
        if z3.is_false(cs):
            return self.ev(node.orelse, fr)
        if fr.in_spec:
            self.path.temps.append(cs)
            try:
                a = self.ev(node.body, fr)
            finally:
                self.path.temps.pop()
            self.path.temps.append(z3.Not(cs))
            try:
                b = self.ev(node.orelse, fr)
            finally:
                self.path.temps.pop()
            m = self.ite_merge(cs, a, b)
            if m is not None:
                return m
            if not self._qstate()["bound"]:
                return a if self.path.branch(cs) else b
            raise Unsupported("conditional expression in spec with unmergeable arms")
        if self.path.branch(cs):
            return self.ev(node.body, fr)
        return self.ev(node.orelse, fr)

    def ev_BinOp(self, node: ast.BinOp, fr: Frame) -> V:
        a = self.ev(node.left, fr)
        b = self.ev(node.right, fr)
        return self.binop(node.op, a, b, node, fr)

    def binop(self, op: ast.operator, a: V, b: V, node: Any, fr: Frame) -> V:
        if isinstance(a, VOpt):
            a = self.unwrap(a, node, fr, "left operand")
        if isinstance(b, VOpt):
            b = self.unwrap(b, node, fr, "right operand")
        if isinstance(op, ast.Add):
            if isinstance(a, VStr) and isinstance(b, VStr):
                return vconcat(a, b)
            if isinstance(a, VList) and isinstance(b, VList):
                if a.is_concrete() and b.is_concrete():
                    return VList(a.tail + b.tail)
                if a.is_concrete() and not b.tail and len(a.tail) <= 4:
                    # [x, ...] + symbolic: a symbolic list whose first elements are the concrete ones
                    k = len(a.tail)
                    head, bb = list(a.tail), b

                    def get(idx: Any, head: Any = head, bb: Any = bb, k: int = k) -> V:
                        idc = z3.simplify(idx)
                        if z3.is_int_value(idc) and idc.as_long() < k:
                            return head[idc.as_long()]
                        for j in range(k):
                            if self.path.branch(idx == j):
                                return head[j]
                        return bb.base_get(idx - k)
                    return VList([], base_len=b.base_len + k, base_get=get)
                raise Unsupported("+ on symbolic lists")
            if isinstance(a, VTuple) and isinstance(b, VTuple):
                return VTuple(a.items + b.items)
        if isinstance(op, ast.Mult):
            if isinstance(a, VStr) and isinstance(b, VInt):
                n = b.concrete()
                if n is not None:
                    return VStr(a.parts * max(n, 0))
                raise Unsupported("str * symbolic int")
            if isinstance(a, VList) and a.is_concrete() and isinstance(b, VInt) and b.concrete() is not None:
                return VList(a.tail * b.concrete())
        if isinstance(op, ast.Mod) and isinstance(a, VStr):
            raise Unsupported("% formatting")
        if isinstance(a, VFloat) or isinstance(b, VFloat):
            return VFloat()
        if isinstance(a, VExt):
            h = self.engine.ext_binops.get((a.kind.split(".")[-1], type(op).__name__))
            if h is not None:
                return h(self, a, b, node, fr)
        if isinstance(a, VBool) and isinstance(b, VBool):
            if isinstance(op, ast.BitXor):
                return VBool(z3.Xor(a.t, b.t))
            if isinstance(op, ast.BitAnd):
                return VBool(z3.And(a.t, b.t))
            if isinstance(op, ast.BitOr):
                return VBool(z3.Or(a.t, b.t))
        x = self.as_int(a, node, fr)
        y = self.as_int(b, node, fr)
        if isinstance(op, ast.Add):
            return VInt(x + y)
        if isinstance(op, ast.Sub):
            return VInt(x - y)
        if isinstance(op, ast.Mult):
            return VInt(x * y)
        if isinstance(op, (ast.FloorDiv, ast.Mod)):
            yc = z3.simplify(y)
            if not z3.is_int_value(yc):
                self.ob(y != 0, "div-by-zero", node, fr, "divisor is not zero")
                # floor semantics: z3 div/mod are Euclidean; equal for positive divisors
                q = z3.If(y > 0, x / y, -((-x) / (-y)) if False else (x / y))
                if self.path._check(y <= 0) != z3.unsat:
                    raise Unsupported("division by possibly negative symbolic divisor")
                return VInt(x / y) if isinstance(op, ast.FloorDiv) else VInt(x % y)
            if yc.as_long() <= 0:
                if yc.as_long() == 0:
                    self.ob(z3.BoolVal(False), "div-by-zero", node, fr, "divisor is not zero")
                    raise PathEnd("division by zero")
                raise Unsupported("division by negative constant")
            q, r = self.divmod_const(x, yc.as_long())
            return VInt(q) if isinstance(op, ast.FloorDiv) else VInt(r)
        if isinstance(op, ast.RShift):
            yc = z3.simplify(y)
            if z3.is_int_value(yc) and yc.as_long() >= 0:
                return VInt(self.divmod_const(x, 2 ** yc.as_long())[0])
        if isinstance(op, ast.LShift):
            yc = z3.simplify(y)
            if z3.is_int_value(yc) and yc.as_long() >= 0:
                return VInt(x * (2 ** yc.as_long()))
        if isinstance(op, ast.BitAnd):
            yc = z3.simplify(y)
            if z3.is_int_value(yc):
                k = yc.as_long()
                if k >= 0 and (k + 1) & k == 0:
                    return VInt(self.divmod_const(x, k + 1)[1])
        if isinstance(op, ast.Pow):
            xc, yc = z3.simplify(x), z3.simplify(y)
            if z3.is_int_value(xc) and z3.is_int_value(yc) and yc.as_long() >= 0:
                return VInt(xc.as_long() ** yc.as_long())
        if isinstance(op, ast.Div):
            return VFloat()
        raise Unsupported(f"binary operator {type(op).__name__}")

    def divmod_const(self, x: Any, c: int) -> Tuple[Any, Any]:
        """Floor quotient and remainder by a positive constant as fresh variables with *linear* defining
        facts  x == q*c + r, 0 <= r < c  (z3's div/mod terms are much slower)."""
        xs = z3.simplify(x)
        if z3.is_int_value(xs):
            return z3.IntVal(xs.as_long() // c), z3.IntVal(xs.as_long() % c)
        key = ("divmod", xs.sexpr(), c)
        got = self.path.cache.get(key)
        if got is None:
            q = z3.Int(self.path.fresh_name("$q"))
            r = z3.Int(self.path.fresh_name("$r"))
            self.path.add_fact(z3.And(x == q * c + r, r >= 0, r < c))
            got = (q, r)
            self.path.cache[key] = got
        return got

    def ev_Compare(self, node: ast.Compare, fr: Frame) -> V:
        left = self.ev(node.left, fr)
        acc: Any = None
        pushed = 0
        try:
            for op, rn in zip(node.ops, node.comparators):
                if acc is not None:
                    g = z3.simplify(acc)
                    if z3.is_false(g):
                        break
                    self.path.temps.append(g)
                    pushed += 1
                right = self.ev(rn, fr)
                t = self.compare(op, left, right, node, fr)
                acc = t if acc is None else z3.And(acc, t)
                left = right
        finally:
            for _ in range(pushed):
                self.path.temps.pop()
        return VBool(acc)

    def compare(self, op: ast.cmpop, a: V, b: V, node: Any, fr: Frame) -> Any:
        if isinstance(op, ast.Is):
            return self.same(a, b)
        if isinstance(op, ast.IsNot):
            return z3.Not(self.same(a, b))
        if isinstance(op, ast.Eq):
            return self.eq(a, b)
        if isinstance(op, ast.NotEq):
            return z3.Not(self.eq(a, b))
        if isinstance(op, ast.In):
            return self.contains(b, a, node, fr)
        if isinstance(op, ast.NotIn):
            return z3.Not(self.contains(b, a, node, fr))
        # ordering
        a = self.unwrap(a, node, fr, "left operand")
        b = self.unwrap(b, node, fr, "right operand")
        if isinstance(a, VTuple) and isinstance(b, VTuple) and len(a.items) == len(b.items):
            # lexicographic order
            strict = isinstance(op, (ast.Lt, ast.Gt))
            res: Any = z3.BoolVal(not strict)
            for x, y in reversed(list(zip(a.items, b.items))):
                lt = self.compare(ast.Lt() if isinstance(op, (ast.Lt, ast.LtE)) else ast.Gt(), x, y, node, fr)
                res = z3.Or(lt, z3.And(self.num_eq(x, y), res))
            return res
        inf = float("inf")
        if isinstance(a, VFloat) and a.py == inf and isinstance(b, (VInt, VFloat)):
            both = isinstance(b, VFloat) and b.py == inf
            return z3.BoolVal({ast.Lt: False, ast.LtE: both, ast.Gt: not both, ast.GtE: True}[type(op)])
        if isinstance(b, VFloat) and b.py == inf and isinstance(a, VInt):
            return z3.BoolVal({ast.Lt: True, ast.LtE: True, ast.Gt: False, ast.GtE: False}[type(op)])
        if isinstance(a, VStr) and isinstance(b, VStr):
            ca, cb = self.char_code(a), self.char_code(b)
            if ca is None or cb is None:
                if a.py is not None and b.py is not None:
                    x, y = a.py, b.py
                    r = {ast.Lt: x < y, ast.LtE: x <= y, ast.Gt: x > y, ast.GtE: x >= y}[type(op)]
                    return z3.BoolVal(r)
                raise Unsupported("ordering of symbolic strings")
            x, y = ca, cb
        elif isinstance(a, VFloat) or isinstance(b, VFloat):
            return z3.Bool(self.path.fresh_name("$floatcmp"))
        else:
            x, y = self.as_int(a, node, fr), self.as_int(b, node, fr)
        if isinstance(op, ast.Lt):
            return x < y
        if isinstance(op, ast.LtE):
            return x <= y
        if isinstance(op, ast.Gt):
            return x > y
        if isinstance(op, ast.GtE):
            return x >= y
        raise Unsupported("comparison operator")

    def num_eq(self, x: V, y: V) -> Any:
        if isinstance(x, VFloat) or isinstance(y, VFloat):
            if isinstance(x, VFloat) and isinstance(y, VFloat) and x.py is not None and y.py is not None:
                return z3.BoolVal(x.py == y.py)
            if (isinstance(x, VFloat) and x.py == float("inf")) or (isinstance(y, VFloat) and y.py == float("inf")):
                return z3.BoolVal(False)
            return z3.Bool(self.path.fresh_name("$floateq"))
        return self.eq(x, y)

    def contains(self, container: V, item: V, node: Any, fr: Frame) -> Any:
        if isinstance(container, VOpt):
            container = self.unwrap(container, node, fr, "container")
        if isinstance(container, VStr):
            s = self.as_str(item, node, fr)
            if container.py is not None and s.py is not None:
                return z3.BoolVal(s.py in container.py)
            cu = container.units()
            if cu is not None and s.py is not None and len(s.py) > 0:
                k = len(s.py)
                alts = []
                for st0 in range(0, len(cu) - k + 1):
                    conj = []
                    dead = False
                    for j in range(k):
                        u = cu[st0 + j]
                        if isinstance(u, int):
                            if u != ord(s.py[j]):
                                dead = True
                                break
                        else:
                            conj.append(u == ord(s.py[j]))
                    if not dead:
                        alts.append(z3.And(*conj) if conj else z3.BoolVal(True))
                return z3.Or(*alts) if alts else z3.BoolVal(False)
            if s.parts and all(not isinstance(p, str) for p in s.parts):
                # the needle is literally a run of parts of the rope
                ids = [p.get_id() for p in s.parts]
                hay = [None if isinstance(p, str) else p.get_id() for p in container.parts]
                for k in range(len(hay) - len(ids) + 1):
                    if hay[k:k + len(ids)] == ids:
                        return z3.BoolVal(True)
            if container.py is not None:
                cc = self.char_code(s)
                if cc is not None:
                    return z3.Or(*[cc == ord(ch) for ch in sorted(set(container.py))]) if container.py else z3.BoolVal(False)
            return z3.Contains(container.t, s.t)
        if isinstance(container, VTuple):
            if not container.items:
                return z3.BoolVal(False)
            return z3.Or(*[self.eq(item, x) for x in container.items])
        if isinstance(container, VList):
            if container.is_concrete():
                if not container.tail:
                    return z3.BoolVal(False)
                return z3.Or(*[self.eq(item, x) for x in container.tail])
            raise Unsupported("in on symbolic list")
        if isinstance(container, VSet):
            conc = [self.eq(item, x) for x in container.items]
            if container.base_has is not None:
                conc.append(container.base_has(item))
            return z3.Or(*conc) if conc else z3.BoolVal(False)
        if isinstance(container, VDict):
            conc = [self.eq(item, k) for k, _ in container.items]
            if container.base_get is not None:
                got = container.base_get(item)
                assert isinstance(got, VOpt)
                conc.append(z3.Not(got.isnone))
            return z3.Or(*conc) if conc else z3.BoolVal(False)
        raise Unsupported(f"in on {container!r}")

    # --------------------------------------------------------------------- subscripts
    def ev_Subscript(self, node: ast.Subscript, fr: Frame) -> V:
        base = self.ev(node.value, fr)
        if isinstance(base, (VBuiltin, VClassRef)) or (isinstance(base, VModuleRef)):
            return VOpaque("type-subscript")
        if isinstance(node.slice, ast.Slice):
            return self.slice(base, node.slice, node, fr)
        idx = self.ev(node.slice, fr)
        return self.index(base, idx, node, fr)

    def index(self, base: V, idx: V, node: Any, fr: Frame) -> V:
        base = self.unwrap(base, node, fr, "subscripted value")
        if isinstance(base, VOpaque):
            return VOpaque(base.hint + "[]")
        if isinstance(base, VDict):
            got = self.dict_get(base, idx, fr, node)
            if isinstance(got, VOpt):
                self.ob(z3.Not(got.isnone), "key-error", node, fr, "key is present")
                return got.val
            if isinstance(got, VNoneT):
                if fr.in_spec:
                    return VOpaque("undefined.key")  # a guarded spec reads a key that is absent on this path
                self.ob(z3.BoolVal(False), "key-error", node, fr, "key is present")
                raise PathEnd("KeyError")
            return got
        i = self.as_int(idx, node, fr)
        if isinstance(base, VTuple):
            ic = z3.simplify(i)
            n = len(base.items)
            if z3.is_int_value(ic):
                k = ic.as_long()
                if -n <= k < n:
                    return base.items[k]
                self.ob(z3.BoolVal(False), "index", node, fr, f"tuple index {k} in range of {n}")
                raise PathEnd("IndexError")
            self.ob(z3.And(i >= -n, i < n), "index", node, fr, "tuple index in range")
            for k in range(n):
                if self.path.branch(z3.Or(i == k, i == k - n)):
                    return base.items[k]
            raise PathEnd("index")
        if isinstance(base, VStr):
            ic = z3.simplify(i)
            us = base.units() if base.py is None else None
            if us is not None and z3.is_int_value(ic):
                k = ic.as_long()
                if not (-len(us) <= k < len(us)):
                    self.ob(z3.BoolVal(False), "index", node, fr, "string index in range")
                    if fr.in_spec:
                        return VOpaque("undefined.index")
                    raise PathEnd("IndexError")
                u = us[k]
                if base.is_bytes:
                    return VInt(u)
                return self.pystr(chr(u)) if isinstance(u, int) else VStr([z3.Unit(u)], is_char=True)
            ln = z3.Length(base.t) if base.py is None else z3.IntVal(len(base.py))
            self.ob(z3.And(i >= -ln, i < ln), "index", node, fr, "string index in range")
            if base.py is not None and z3.is_int_value(ic):
                ch = base.py[ic.as_long()]
                return VInt(ord(ch)) if base.is_bytes else self.pystr(ch)
            j = z3.If(i < 0, i + ln, i)
            self.register_index(i)
            el = base.t[j]
            if base.is_bytes:
                self.path.add_fact(z3.And(el >= 0, el <= 255))
                return VInt(el)
            self.path.add_fact(z3.And(el >= 0, el <= 0x10FFFF))
            return VStr([z3.Unit(el)], is_char=True)
        if isinstance(base, VList):
            return self.list_get(base, i, node, fr)
        raise Unsupported(f"subscript of {base!r}")

    def list_get(self, base: VList, i: Any, node: Any, fr: Frame) -> V:
        ln = base.length()
        self.ob(z3.And(i >= -ln, i < ln), "index", node, fr, "list index in range")
        ic = z3.simplify(i)
        if base.is_concrete() and z3.is_int_value(ic):
            return base.tail[ic.as_long()]
        if base.is_concrete() and len(base.tail) == 1:
            return base.tail[0]  # the index obligation above leaves only 0 / -1
        j = z3.simplify(z3.If(i < 0, i + ln, i))
        self.register_index(i)
        if base.is_concrete():
            res0: Optional[V] = None
            if base.tail and (fr.in_spec or self.path.temps):
                res0 = base.tail[-1]
                for k in reversed(range(len(base.tail) - 1)):
                    if res0 is None:
                        break
                    res0 = self.ite_merge(j == k, base.tail[k], res0)
                if res0 is not None:
                    return res0
            for k in range(len(base.tail)):
                if self.path.branch(j == k):
                    return base.tail[k]
            if fr.in_spec or self.path.temps:
                return VOpaque("undefined.index")
            raise PathEnd("index")
        assert base.base_get is not None
        if not base.tail:
            return base.base_get(j)
        res: Optional[V] = base.base_get(j)
        building = bool(self._qstate()["bound"])
        if not building and any(isinstance(v, VStr) for v in base.tail):
            res = None  # an if-then-else between strings is poison for the sequence solver: fork instead
        for k, v in enumerate(base.tail):
            if res is None:
                break
            res = self.ite_merge(j == base.base_len + k, v, res)
        if res is not None:
            return res
        if self.path.branch(j < base.base_len):
            return base.base_get(j)
        for k, v in enumerate(base.tail):
            if self.path.branch(j == base.base_len + k):
                return v
        raise PathEnd("index")

    def slice(self, base: V, sl: ast.Slice, node: Any, fr: Frame) -> V:
        base = self.unwrap(base, node, fr)
        if sl.step is not None:
            raise Unsupported("slice step")
        lo = self.as_int(self.ev(sl.lower, fr), node, fr) if sl.lower is not None else None
        hi = self.as_int(self.ev(sl.upper, fr), node, fr) if sl.upper is not None else None
        if isinstance(base, VStr):
            if base.py is not None:
                loc = z3.simplify(lo) if lo is not None else None
                hic = z3.simplify(hi) if hi is not None else None
                if (loc is None or z3.is_int_value(loc)) and (hic is None or z3.is_int_value(hic)):
                    r = base.py[(loc.as_long() if loc is not None else None):(hic.as_long() if hic is not None else None)]
                    return VStr(r, is_bytes=base.is_bytes)
            us = base.units()
            if us is not None:
                loc2 = z3.simplify(lo) if lo is not None else None
                hic2 = z3.simplify(hi) if hi is not None else None
                if (loc2 is None or z3.is_int_value(loc2)) and (hic2 is None or z3.is_int_value(hic2)):
                    sub = us[(loc2.as_long() if loc2 is not None else None):(hic2.as_long() if hic2 is not None else None)]
                    return VStr([chr(x) if isinstance(x, int) else z3.Unit(x) for x in sub], is_bytes=base.is_bytes)
            ln = z3.Length(base.t)
            if lo is not None and hi is not None:
                kk = z3.simplify(hi - lo)
                if z3.is_int_value(kk) and 0 < kk.as_long() <= 16:
                    # a short slice of fixed length: when it lies inside the string (decided here, by
                    # forking if necessary) it is the rope of its characters -- no sequence reasoning needed
                    k = kk.as_long()
                    inside = z3.And(lo >= 0, lo + k <= ln)
                    if self.path.branch(inside):
                        parts = []
                        for i in range(k):
                            el = base.t[z3.simplify(lo + i)]
                            if not base.is_bytes:
                                self.path.add_fact(z3.And(el >= 0, el <= 0x10FFFF))
                            parts.append(z3.Unit(el))
                        return VStr(parts, is_bytes=base.is_bytes, is_char=(k == 1))

            def norm(x: Any) -> Any:
                x = z3.If(x < 0, x + ln, x)
                return z3.If(x < 0, 0, z3.If(x > ln, ln, x))
            a = norm(lo) if lo is not None else z3.IntVal(0)
            b = norm(hi) if hi is not None else ln
            return VStr([z3.SubSeq(base.t, a, z3.If(b > a, b - a, 0))], is_bytes=base.is_bytes)
        if isinstance(base, (VList, VTuple)):
            items = base.tail if isinstance(base, VList) else base.items
            if isinstance(base, VList) and not base.is_concrete():
                raise Unsupported("slice of symbolic list")
            loc = z3.simplify(lo) if lo is not None else None
            hic = z3.simplify(hi) if hi is not None else None
            if (loc is None or z3.is_int_value(loc)) and (hic is None or z3.is_int_value(hic)):
                r = items[(loc.as_long() if loc is not None else None):(hic.as_long() if hic is not None else None)]
                return VList(r) if isinstance(base, VList) else VTuple(r)
            raise Unsupported("symbolic slice bounds on list")
        raise Unsupported("slice")

    # ------------------------------------------------------------------ dict helpers
    def dict_get(self, d: VDict, key: V, fr: Frame, node: Any) -> V:
        """Returns the value, NONE (absent) or a VOpt (symbolic presence)."""
        key = self.unwrap(key, node, fr, "dict key") if isinstance(key, VOpt) else key
        for k, v in reversed(d.items):
            c = z3.simplify(self.eq(key, k))
            if z3.is_true(c):
                return v
            if z3.is_false(c):
                continue
            if self.path.branch(c):
                return v
        if d.base_get is not None:
            return d.base_get(key)
        return NONE

    def dict_set(self, d: VDict, key: V, val: V, fr: Frame, node: Any) -> None:
        if not hasattr(d, "log"):
            d.log = []  # type: ignore
        d.log.append((key, val))  # type: ignore
        for i, (k, _) in enumerate(d.items):
            c = z3.simplify(self.eq(key, k))
            if z3.is_true(c):
                d.items[i] = (k, val)
                return
            if z3.is_false(c):
                continue
            if self.path.branch(c):
                d.items[i] = (k, val)
                return
        d.items.append((key, val))

    # ---------------------------------------------------------------- comprehensions
    def ev_ListComp(self, node: ast.ListComp, fr: Frame) -> V:
        cspec = self.comp_spec(fr, node) if not fr.in_spec else None
        if cspec is not None:
            return self.comp_as_loop(node, cspec, fr)
        if len(node.generators) == 1 and not node.generators[0].ifs and not fr.in_spec:
            g = node.generators[0]
            src = self.ev(g.iter, fr)
            if isinstance(src, VOpt):
                src = self.unwrap(src, node, fr, "iterated list")
            if isinstance(src, VList) and not src.is_concrete():
                return self.map_symbolic(node.elt, g, src, node, fr)
        return VList(self.comprehend(node.elt, node.generators, fr))

    def map_symbolic(self, elt: ast.expr, g: ast.comprehension, src: VList, node: Any, fr: Frame) -> V:
        """``[f(x) for x in xs]`` over a symbolic xs: the element expression is checked once for an
        arbitrary index (its obligations hold for every element); the result is a symbolic list of the same
        length whose i-th element is the value of the expression at xs[i] (evaluated on demand, assuming the
        callees' postconditions)."""
        k = z3.Int(self.path.fresh_name("$map"))
        n = src.length()
        child = Frame(fr.module, None, {}, fr, fr.extra_modules)
        child.depth = fr.depth
        if self.path._check(n > 0) != z3.unsat:
            self.path.temps.append(n > 0)
            try:
                self.path.add_fact(z3.And(k >= 0, k < n))  # guarded by "the list is not empty"
                self.assign_target(g.target, self.list_get(src, k, node, fr), child, node)
                self.ev(elt, child)  # obligations for an arbitrary element
            finally:
                self.path.temps.pop()

        def get(idx: Any) -> V:
            c2 = Frame(fr.module, None, {}, fr, fr.extra_modules)
            c2.in_spec = True
            c2.depth = fr.depth
            self.assign_target(g.target, self.list_get(src, idx, node, c2), c2, node)
            return self.ev(elt, c2)
        return VList([], base_len=n, base_get=get)

    def ev_GeneratorExp(self, node: ast.GeneratorExp, fr: Frame) -> V:
        try:
            return VList(self.comprehend(node.elt, node.generators, fr), kind="generator")
        except Unsupported as e:
            if "symbolic collection" not in str(e):
                raise
            # keep it lazy: all()/any()/join() know how to treat a symbolic generator
            return VLambda(node, fr)

    def ev_SetComp(self, node: ast.SetComp, fr: Frame) -> V:
        out = VSet()
        for v in self.comprehend(node.elt, node.generators, fr):
            self.set_add(out, v)
        return out

    def ev_DictComp(self, node: ast.DictComp, fr: Frame) -> V:
        d = VDict()
        tup = ast.Tuple(elts=[node.key, node.value], ctx=ast.Load())
        for kv in self.comprehend(tup, node.generators, fr):
            assert isinstance(kv, VTuple)
            self.dict_set(d, kv.items[0], kv.items[1], fr, node)
        return d

    def set_add(self, s: VSet, v: V) -> None:
        for x in s.items:
            c = z3.simplify(self.eq(v, x))
            if z3.is_true(c):
                return
            if z3.is_false(c):
                continue
            if self.path.branch(c):
                return
        s.items.append(v)

    def comprehend(self, elt: ast.expr, gens: List[ast.comprehension], fr: Frame) -> List[V]:
        out: List[V] = []
        child = Frame(fr.module, None, {}, fr, fr.extra_modules)
        child.in_spec = fr.in_spec
        child.depth = fr.depth

        def rec(k: int) -> None:
            if k == len(gens):
                out.append(self.ev(elt, child))
                return
            g = gens[k]
            for item in self.concrete_items(self.ev(g.iter, child)):
                self.assign_target(g.target, item, child, g.target)
                ok = True
                for cond in g.ifs:
                    if not self.path.branch(self.truthy(self.ev(cond, child))):
                        ok = False
                        break
                if ok:
                    rec(k + 1)

        rec(0)
        return out

    def ev_Lambda(self, node: ast.Lambda, fr: Frame) -> V:
        return VLambda(node, fr)

    def ev_Starred(self, node: ast.Starred, fr: Frame) -> V:
        raise Unsupported("starred expression")

    def ev_NamedExpr(self, node: ast.NamedExpr, fr: Frame) -> V:
        v = self.ev(node.value, fr)
        fr.env[node.target.id] = v
        return v
