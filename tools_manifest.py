"""Regenerate MANIFEST.json from contracts/manifest_entries.json (keeps the file valid at all times)."""
import json, pathlib
V = pathlib.Path(__file__).resolve().parent
entries = json.loads((V / "contracts" / "manifest_entries.json").read_text())
checks = []
for pid, e in sorted(entries["checks"].items()):
    checks.append({
        "property_id": pid,
        "quick_cmd": f"./check {pid} --tier quick",
        "thorough_cmd": f"./check {pid} --tier thorough",
        "evidence_file": f"/verif/evidence/{pid}.json",
        "replay_cmd_template": f"./check {pid} --replay {{path}}",
        "engine": "pyvc",
        "level_claimed": {"category": e.get("category", "proof"), "text": e["text"], "design_ref": e.get("design_ref", f"DESIGN.md §5 {pid}")},
        "level_note": e["note"],
        "technique": e["technique"],
    })
m = {
    "version": 1,
    "setup_cmd": "python3-vt -c 'import z3; print(z3.get_version_string())' && /venv/bin/python -c 'import aas_core_codegen'",
    "hooks": {"guard": "AAS_CORE_CODEGEN_VERIF", "enable": "no source hooks: the verifier reads /repo's source text (VERIF_REPO=/repo) and replays import the real modules",
              "baseline_off_cmd": "cd /repo && /venv/bin/python -m pytest -ra -q -p no:cacheprovider --timeout=900 --continue-on-collection-errors",
              "source_commits": [], "add_only": True},
    "engines": [{"name": "pyvc", "path": "/verif/pyvc", "serves_properties": sorted(entries["checks"]),
                 "kind_free_text": "home-made deductive verifier: verification-condition generator over Python's ast (symbolic execution per path, loop invariants, callee contracts, ghost folds) reading /repo's source on every run; obligations discharged by z3 5.1.0 (python API) with cvc5 1.0.3 / z3 4.8.12 as second opinion; native replays of counter-models on the real code under /venv/bin/python"}],
    "checks": checks,
    "notes": entries.get("notes", ""),
    "not_applicable": [{"property_id": k, "reason": v} for k, v in sorted(entries["not_applicable"].items())],
}
(V / "MANIFEST.json").write_text(json.dumps(m, indent=1) + "\n")
print("checks:", len(checks), "n/a:", len(m["not_applicable"]))
