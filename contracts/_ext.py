"""Models of library objects the code under contract touches (trusted base, listed in evidence).

* asttokens.ASTTokens: ``get_text(tree)`` is a fixed string T; ``get_text_range(node)`` is a pair
  (s, e) with 0 <= s < e <= len(T)  (a node covers at least one character of the text).
* pathlib.Path: every operation that touches the file system appends (operation, path) to a ghost
  log; paths are opaque identities, ``a / b`` and ``with_suffix`` build new identities.
* hashlib / tempfile / uuid / pickle: uninterpreted.
"""
from typing import Any, Dict, List

import z3

from pyvc.values import (SEQ, NONE, V, VBool, VExt, VInt, VList, VOpt, VStr, VTuple, VExc, VStream, VOpaque,
                         Unsupported)
from pyvc.exprs import RaiseEx

GLOBAL_FOLDS = {
    # 1-based line of the character at offset k = 1 + number of '\n' in text[:k]
    "lc_line": ("int", "1", "lambda acc, ch: (acc + 1) if ch == '\\n' else acc"),
    # number of characters after the last '\n' in text[:k]  (so the 1-based column of offset k is lc_col + 1)
    "lc_col": ("int", "0", "lambda acc, ch: 0 if ch == '\\n' else (acc + 1)"),
}


# ---------------------------------------------------------------------------------------------------------
# Python's ``ast`` nodes as opaque objects: the class of a node is a family of free predicates (mutually
# exclusive leaf classes, ast.expr / ast.stmt as unions), fields are uninterpreted functions of the node.
AST_EXPR = ["Call", "Name", "Constant", "List", "Tuple", "Attribute", "Subscript", "BinOp", "UnaryOp", "BoolOp",
            "Compare", "Lambda", "JoinedStr", "FormattedValue", "Dict", "Set", "ListComp", "GeneratorExp", "IfExp",
            "Starred", "Slice", "Index", "ExtSlice", "Num", "Str", "NameConstant", "Ellipsis", "Bytes"]
AST_STMT = ["AnnAssign", "Assign", "FunctionDef", "ClassDef", "Return", "Expr", "Pass", "If", "For", "While",
            "Import", "ImportFrom", "Assert", "Raise", "AugAssign", "With", "Try", "Delete", "Global", "Nonlocal"]
AST_OTHER = ["keyword", "arg", "arguments", "Module", "alias", "comprehension", "Load", "Store",
             "Lt", "LtE", "Gt", "GtE", "Eq", "NotEq", "In", "NotIn", "Is", "IsNot", "And", "Or", "Not", "Add", "Sub",
             "USub", "UAdd", "Mult", "Div", "Mod", "Pow"]
AST_FIELD_KIND = {
    "func": "node", "args": "list", "keywords": "list", "elts": "list", "targets": "list", "target": "node",
    "annotation": "node", "body": "list", "orelse": "list", "decorator_list": "list", "bases": "list",
    "slice": "node", "left": "node", "right": "node", "ops": "list", "comparators": "list", "operand": "node",
    "op": "node", "values": "list", "test": "node", "names": "list", "ctx": "node", "keys": "list",
    "generators": "list", "elt": "node", "iter": "node", "ifs": "list", "returns": "optnode", "exc": "optnode",
    "msg": "optnode", "lower": "optnode", "upper": "optnode", "step": "optnode", "format_spec": "optnode",
    "id": "str", "attr": "str", "name": "str", "module": "optstr", "asname": "optstr", "arg": "optstr",
    "lineno": "int", "col_offset": "int", "end_lineno": "int", "end_col_offset": "int", "level": "int",
    "conversion": "int", "kwarg": "optnode", "vararg": "optnode", "defaults": "list", "kwonlyargs": "list",
    "kw_defaults": "list", "posonlyargs": "list", "simple": "int", "type_comment": "optstr",
}


def ast_is(it: Any, v: VExt, cls: str) -> Any:
    if cls in ("AST",):
        return z3.BoolVal(True)
    if cls == "expr":
        return z3.Or(*[ast_is(it, v, c) for c in AST_EXPR])
    if cls == "stmt":
        return z3.Or(*[ast_is(it, v, c) for c in AST_STMT])
    allc = AST_EXPR + AST_STMT + AST_OTHER
    tag = z3.Function("ast_class", z3.IntSort(), z3.IntSort())(v.ident)
    if cls not in allc:
        return z3.Bool(it.path.fresh_name("$ast_is_" + cls))
    return tag == allc.index(cls)


def ast_attr(it: Any, base: VExt, name: str, node: Any, fr: Any) -> V:
    kind = AST_FIELD_KIND.get(name)
    if name == "value":
        is_const = ast_is(it, base, "Constant")
        if it.path._check(z3.Not(is_const)) == z3.unsat:
            k = z3.Function("ast_const_kind", z3.IntSort(), z3.IntSort())(base.ident)
            order = ["bool", "int", "float", "str", "bytes"]
            it.path.add_fact(z3.And(k >= 0, k < len(order)))
            from pyvc.values import VPrimUnion, VFloat
            alts = {
                "bool": VBool(z3.Function("ast_const_bool", z3.IntSort(), z3.BoolSort())(base.ident)),
                "int": VInt(z3.Function("ast_const_int", z3.IntSort(), z3.IntSort())(base.ident)),
                "float": VFloat(z3.Function("ast_const_float", z3.IntSort(), z3.IntSort())(base.ident)),
                "str": VStr([z3.Function("ast_const_str", z3.IntSort(), SEQ)(base.ident)]),
                "bytes": VStr([z3.Function("ast_const_bytes", z3.IntSort(), SEQ)(base.ident)], is_bytes=True),
            }
            return VOpt(z3.Function("ast_const_none", z3.IntSort(), z3.BoolSort())(base.ident),
                        VPrimUnion(k, order, alts))
        # AnnAssign.value / Return.value are optional, Attribute/keyword/Expr.value are not
        opt = z3.And(z3.Function("ast_value_none", z3.IntSort(), z3.BoolSort())(base.ident),
                     z3.Or(ast_is(it, base, "AnnAssign"), ast_is(it, base, "Return")))
        return VOpt(opt, VExt("ast.AST", z3.Function("ast_value", z3.IntSort(), z3.IntSort())(base.ident)))
    if kind is None:
        raise Unsupported(f"ast attribute .{name}")
    fid = lambda suffix="": "ast_" + name + suffix
    if kind == "node":
        return VExt("ast.AST", z3.Function(fid(), z3.IntSort(), z3.IntSort())(base.ident))
    if kind == "optnode":
        return VOpt(z3.Function(fid("_none"), z3.IntSort(), z3.BoolSort())(base.ident),
                    VExt("ast.AST", z3.Function(fid(), z3.IntSort(), z3.IntSort())(base.ident)))
    if kind == "list":
        n = z3.Function(fid("_len"), z3.IntSort(), z3.IntSort())(base.ident)
        it.path.add_fact(n >= 0)
        el = z3.Function(fid("_el"), z3.IntSort(), z3.IntSort(), z3.IntSort())
        return VList([], base_len=n, base_get=lambda i: VExt("ast.AST", el(base.ident, i)))
    if kind == "str":
        return VStr([z3.Function(fid(), z3.IntSort(), SEQ)(base.ident)])
    if kind == "optstr":
        return VOpt(z3.Function(fid("_none"), z3.IntSort(), z3.BoolSort())(base.ident),
                    VStr([z3.Function(fid(), z3.IntSort(), SEQ)(base.ident)]))
    if kind == "int":
        return VInt(z3.Function(fid(), z3.IntSort(), z3.IntSort())(base.ident))
    raise Unsupported(f"ast attribute kind {kind}")


def fs_log(it: Any) -> List[Any]:
    return it.path.cache.setdefault(("fs-log",), [])


def label(p: Any) -> str:
    d = getattr(p, "data", {}) or {}
    if d.get("label"):
        return d["label"]
    if "str" in d:
        return "Path(str)"
    par = d.get("parent")
    if par is not None:
        pl = label(par)
        if d.get("suffix"):
            return pl + ".tmp-suffix"
        return pl + "/x"
    t = p.ident
    if z3.is_const(t) and t.decl().kind() == z3.Z3_OP_UNINTERPRETED:
        return str(t)
    return "path"


def trace_of(it: Any) -> str:
    return "".join(f"{op}:{label(p)};" for op, p in fs_log(it))


def _touch(it: Any, op: str, p: VExt) -> None:
    fs_log(it).append((op, p))
    inv = getattr(it.unit, "fs_invariant", None)
    if inv and not it.path.temps:
        # the protocol invariant is checked after *every* file-system step (= at every crash point)
        import importlib
        from pyvc.path import Obligation
        modname, _, fname = inv.partition(":")
        ok = bool(getattr(importlib.import_module(modname), fname)(trace_of(it)))
        tgt = getattr(it.unit, "target", "?")
        o = Obligation(f"{tgt}:fs-invariant@{op}:{label(p)}", "fs-invariant", tgt, 0,
                       f"{fname}(trace) holds after the step {op}:{label(p)}")
        it.path.oblige(z3.BoolVal(ok), o)


def _path_child(it: Any, base: VExt, name: VStr, how: str = "div") -> VExt:
    f = z3.Function("path_" + how, z3.IntSort(), SEQ, z3.IntSort())
    e = VExt("pathlib.Path", f(base.ident, name.t))
    e.data = {"parent": base, "name": name}
    return e


def install(engine: Any) -> None:
    from pyvc.engine import Interp
    engine.global_folds.update(GLOBAL_FOLDS)
    em = engine.ext_methods

    def model_pairwise(it, env, node, fr):
        """common.pairwise(xs) = [(xs[0], xs[1]), (xs[1], xs[2]), ...]  (itertools.tee + zip)"""
        src = env["iterable"]
        if isinstance(src, VList) and not src.is_concrete():
            n = src.length()
            ln = z3.If(n > 0, n - 1, 0)
            return VList([], base_len=ln, base_get=lambda i: VTuple([it.list_get(src, i, node, fr),
                                                                     it.list_get(src, i + 1, node, fr)]))
        items = it.concrete_items(src)
        return VList([VTuple([a, b]) for a, b in zip(items, items[1:])])

    engine.func_models["aas_core_codegen.common:pairwise"] = model_pairwise

    def model_iterate_except_first(it, env, node, fr):
        """common.iterate_except_first(xs) = xs[1:]  (iter, next, yield from)"""
        src = env["iterable"]
        if isinstance(src, VList) and not src.is_concrete():
            n = src.length()
            ln = z3.If(n > 0, n - 1, 0)
            return VList([], base_len=ln, base_get=lambda i: it.list_get(src, i + 1, node, fr))
        return VList(list(it.concrete_items(src))[1:])

    engine.func_models["aas_core_codegen.common:iterate_except_first"] = model_iterate_except_first

    engine.ast_model = (ast_is, ast_attr)

    def bi_ast_dump(self, args, kwargs, node, fr):
        return self.opaque_str("ast.dump")

    Interp.bi_ast_dump = bi_ast_dump

    # ---- asttokens
    def get_text(it, base, args, kwargs, node, fr):
        f = z3.Function("asttokens_text", z3.IntSort(), SEQ)
        n = args[0] if args else kwargs.get("node")
        tree = z3.Function("asttokens_tree", z3.IntSort(), z3.IntSort())(base.ident)
        if isinstance(n, VExt) and not z3.eq(z3.simplify(n.ident), z3.simplify(tree)):
            g = z3.Function("asttokens_node_text", z3.IntSort(), z3.IntSort(), SEQ)
            return VStr([g(base.ident, n.ident)])
        return VStr([f(base.ident)])

    def get_text_range(it, base, args, kwargs, node, fr):
        n = args[0] if args else kwargs["node"]
        n = it.unwrap(n, node, fr, "node")
        nid = n.ident if isinstance(n, VExt) else z3.Int(it.path.fresh_name("$node"))
        s = z3.Function("asttokens_range_start", z3.IntSort(), z3.IntSort(), z3.IntSort())(base.ident, nid)
        e = z3.Function("asttokens_range_end", z3.IntSort(), z3.IntSort(), z3.IntSort())(base.ident, nid)
        text = z3.Function("asttokens_text", z3.IntSort(), SEQ)(base.ident)
        it.path.add_fact(z3.And(s >= 0, s < e, e <= z3.Length(text)))
        it.note_assumption("asttokens: get_text_range(node) = (s, e) with 0 <= s < e <= len(get_text(tree))")
        it.register_index(s)
        return VTuple([VInt(s), VInt(e)])

    em[("ASTTokens", "get_text")] = get_text
    em[("ASTTokens", "get_text_range")] = get_text_range

    def atok_tree(it, base, node, fr):
        tree = VExt("ast.Module", z3.Function("asttokens_tree", z3.IntSort(), z3.IntSort())(base.ident))
        it.path.add_fact(ast_is(it, tree, "Module"))  # ASTTokens(source, parse=True) parses a module
        return tree

    engine.ext_attrs[("ASTTokens", "tree")] = atok_tree

    def path_div(it, a, b, node, fr):
        if isinstance(b, VExt):
            f = z3.Function("path_join", z3.IntSort(), z3.IntSort(), z3.IntSort())
            e = VExt("pathlib.Path", f(a.ident, b.ident))
            e.data = {"parent": a}
            return e
        return _path_child(it, a, it.as_str(b, node, fr))

    engine.ext_binops[("Path", "Div")] = path_div

    def path_parent(it, base, node, fr):
        if "parent" in base.data:
            return base.data["parent"]
        return VExt("pathlib.Path", z3.Function("path_parent", z3.IntSort(), z3.IntSort())(base.ident))

    def path_name(it, base, node, fr):
        if "name" in base.data:
            return base.data["name"]
        return VStr([z3.Function("path_name", z3.IntSort(), SEQ)(base.ident)])

    engine.ext_attrs[("Path", "parent")] = path_parent
    engine.ext_attrs[("Path", "name")] = path_name

    # ---- pathlib: the kind of a path (absent / file / directory) is a function of the path and of the
    # number of mutations this run applied to that path; other paths are unaffected (assumption)
    def _epoch(it, base):
        return it.path.cache.setdefault(("fs-epoch", base.ident.sexpr()), 0)

    def _kind(it, base, what):
        f = z3.Function("fs_" + what, z3.IntSort(), z3.IntSort(), z3.BoolSort())
        e = _epoch(it, base)
        ex = z3.Function("fs_exists", z3.IntSort(), z3.IntSort(), z3.BoolSort())(base.ident, e)
        isf = z3.Function("fs_is_file", z3.IntSort(), z3.IntSort(), z3.BoolSort())(base.ident, e)
        isd = z3.Function("fs_is_dir", z3.IntSort(), z3.IntSort(), z3.BoolSort())(base.ident, e)
        it.path.add_fact(z3.And(z3.Implies(isf, ex), z3.Implies(isd, ex), z3.Not(z3.And(isf, isd))))
        return f(base.ident, e)

    def p_exists(it, base, args, kwargs, node, fr):
        _touch(it, "exists", base)
        return VBool(_kind(it, base, "exists"))

    def p_is_file(it, base, args, kwargs, node, fr):
        _touch(it, "is_file", base)
        return VBool(_kind(it, base, "is_file"))

    def p_is_dir(it, base, args, kwargs, node, fr):
        _touch(it, "is_dir", base)
        return VBool(_kind(it, base, "is_dir"))

    def p_read_text(it, base, args, kwargs, node, fr):
        if base.data.get("label") == "snippet":
            return p_read_text_utf8(it, base, args, kwargs, node, fr)
        _touch(it, "read", base)
        f = z3.Function("file_text", z3.IntSort(), SEQ)
        return VStr([f(base.ident)])

    def p_open(it, base, args, kwargs, node, fr):
        mode = args[0] if args else kwargs.get("mode", VStr("r"))
        m = mode.py if isinstance(mode, VStr) else "r"
        _touch(it, "open-write" if "w" in (m or "") else "open-read", base)
        return VExt("io.File", z3.Int(it.path.fresh_name("$fid")), {"path": base, "mode": m})

    def f_exit(it, base, args, kwargs, node, fr):
        if "w" in (base.data.get("mode") or ""):
            _touch(it, "close", base.data["path"])
        return NONE

    def p_mkdir(it, base, args, kwargs, node, fr):
        _touch(it, "mkdir", base)
        it.path.cache[("fs-epoch", base.ident.sexpr())] = _epoch(it, base) + 1
        it.path.add_fact(_kind(it, base, "is_dir"))
        it.note_assumption("Path.mkdir(parents=True, exist_ok=True) succeeds (OS errors are outside the contracts)")
        return NONE

    def p_rename(it, base, args, kwargs, node, fr):
        _touch(it, "rename-from", base)
        _touch(it, "rename-to", args[0])
        return args[0]

    def p_unlink(it, base, args, kwargs, node, fr):
        _touch(it, "unlink", base)
        return NONE

    def p_with_suffix(it, base, args, kwargs, node, fr):
        e = _path_child(it, base, it.as_str(args[0], node, fr), "with_suffix")
        e.data["suffix"] = True
        return e

    def p_write_text(it, base, args, kwargs, node, fr):
        _touch(it, "write", base)
        return NONE

    def p_glob(it, base, args, kwargs, node, fr):
        # an arbitrary finite enumeration of the entries below the directory, in arbitrary order
        _touch(it, "glob", base)
        n = z3.Function("glob_len", z3.IntSort(), z3.IntSort())(base.ident)
        it.path.add_fact(n >= 0)
        el = z3.Function("glob_el", z3.IntSort(), z3.IntSort(), z3.IntSort())
        it.note_assumption("Path.glob('**/*') enumerates every entry below the directory once, in an arbitrary order")

        def get(idx):
            return VExt("pathlib.Path", el(base.ident, idx), {"label": "snippet"})
        return VList([], base_len=n, base_get=get)

    def p_relative_to(it, base, args, kwargs, node, fr):
        f = z3.Function("path_relative_to", z3.IntSort(), z3.IntSort(), z3.IntSort())
        return VExt("pathlib.Path", f(base.ident, args[0].ident), {"label": "rel"})

    def p_as_posix(it, base, args, kwargs, node, fr):
        return VStr([z3.Function("path_as_posix", z3.IntSort(), SEQ)(base.ident)])

    def p_read_text_utf8(it, base, args, kwargs, node, fr):
        _touch(it, "read", base)
        ok = z3.Function("pred_file_is_utf8", z3.IntSort(), z3.BoolSort())(base.ident)
        if it.path.branch(ok):
            return VStr([z3.Function("file_text", z3.IntSort(), SEQ)(base.ident)])
        raise RaiseEx(VExc("UnicodeDecodeError", [it.opaque_str("decode-error")]), node)

    def path_parts(it, base, node, fr):
        n = z3.Function("path_parts_len", z3.IntSort(), z3.IntSort())(base.ident)
        it.path.add_fact(n >= 0)
        f = z3.Function("path_part", z3.IntSort(), z3.IntSort(), SEQ)
        lst = VList([], base_len=n, base_get=lambda idx: VStr([f(base.ident, idx)]))
        lst.kind = "tuple"
        return lst

    engine.ext_attrs[("Path", "parts")] = path_parts

    def exc_lineno(it, base, node, fr):
        """``lineno`` of an exception object of statically unknown class (SyntaxError): None or an integer"""
        fn = z3.Function("exc_lineno_is_none", z3.IntSort(), z3.BoolSort())
        fv = z3.Function("exc_lineno", z3.IntSort(), z3.IntSort())
        return VOpt(fn(base.ident), VInt(fv(base.ident)))

    for _k in ("Exception", "BaseException"):
        engine.ext_attrs[(_k, "lineno")] = exc_lineno
    em[("Path", "glob")] = p_glob
    em[("Path", "relative_to")] = p_relative_to
    em[("Path", "as_posix")] = p_as_posix
    em[("File", "__exit__")] = f_exit

    for nm, fn in (("exists", p_exists), ("is_file", p_is_file), ("is_dir", p_is_dir), ("read_text", p_read_text),
                   ("open", p_open), ("mkdir", p_mkdir), ("rename", p_rename), ("unlink", p_unlink),
                   ("with_suffix", p_with_suffix), ("write_text", p_write_text)):
        em[("Path", nm)] = fn

    # ---- builtins of external modules
    def bi_hashlib_sha256(self, args, kwargs, node, fr):
        f = z3.Function("sha256", SEQ, z3.IntSort())
        return VExt("hashlib.Hash", f(self.as_str(args[0], node, fr).t))

    def hexdigest(it, base, args, kwargs, node, fr):
        f = z3.Function("hexdigest", z3.IntSort(), SEQ)
        return VStr([f(base.ident)])

    em[("Hash", "hexdigest")] = hexdigest

    def bi_tempfile_gettempdir(self, args, kwargs, node, fr):
        return VStr([z3.Const("tempdir", SEQ)])

    def bi_pathlib_Path(self, args, kwargs, node, fr):
        s = self.as_str(args[0], node, fr)
        f = z3.Function("path_of_str", SEQ, z3.IntSort())
        return VExt("pathlib.Path", f(s.t), {"str": s})

    def bi_uuid_uuid4(self, args, kwargs, node, fr):
        self.note_assumption("uuid.uuid4() values are unique (fresh) across runs")
        return VExt("uuid.UUID", z3.Int(self.path.fresh_name("$uuid")))

    def bi_pickle_load(self, args, kwargs, node, fr):
        fid = args[0]
        self.note_assumption("pickle.load of a complete cache entry written by this program yields a _Cached "
                             "equal to what was dumped (pickle fidelity; no foreign files in the cache directory)")
        cls = self.engine.loader.cls("aas_core_codegen.run:_Cached")
        return self.mk_instance(cls, self.path.fresh_name("unpickled"), ())

    def bi_pickle_dump(self, args, kwargs, node, fr):
        fid = args[1]
        if self.path.choose():
            # the write may fail half way (disk full, unpicklable object): the file stays partial
            raise RaiseEx(VExc("OSError", [self.opaque_str("dump-failed")]), node)
        if isinstance(fid, VExt) and "path" in fid.data:
            _touch(self, "dump-complete", fid.data["path"])
        return NONE

    def bi_asttokens_ASTTokens(self, args, kwargs, node, fr):
        src = self.as_str(args[0], node, fr)
        if self.path.choose():
            # any exception type: SyntaxError for invalid Python, ValueError e.g. for NUL bytes, ...
            kind = "SyntaxError" if self.path.choose() else "ValueError"
            raise RaiseEx(VExc(kind, [self.opaque_str("parse-error")]), node)
        a = VExt("asttokens.ASTTokens", z3.Function("asttokens_of", SEQ, z3.IntSort())(src.t))
        text = z3.Function("asttokens_text", z3.IntSort(), SEQ)(a.ident)
        self.path.add_fact(text == src.t)
        self.note_assumption("asttokens.ASTTokens(source, parse=True) raises or returns tokens whose text is the source")
        return a

    Interp.bi_asttokens_ASTTokens = bi_asttokens_ASTTokens

    def h_fs_trace(it, node, fr):
        return VStr(trace_of(it))

    from pyvc.builtins import HELPERS
    HELPERS["fs_trace"] = h_fs_trace

    Interp.bi_hashlib_sha256 = bi_hashlib_sha256
    Interp.bi_tempfile_gettempdir = bi_tempfile_gettempdir
    Interp.bi_pathlib_Path = bi_pathlib_Path
    Interp.bi_uuid_uuid4 = bi_uuid_uuid4
    Interp.bi_pickle_load = bi_pickle_load
    Interp.bi_pickle_dump = bi_pickle_dump
