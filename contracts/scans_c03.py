"""C03: syntactic obligations about the *form* of what is written on a failure and about the module entry points.

* failure-report-format: in ``main.execute`` and in every ``<target>/main.py:execute`` each ``return <non-zero>`` is
  preceded, in its block, by a call of ``run.write_error_report(..., stderr=stderr)`` (the function whose contract is the
  report format: one headline line ending in ':' followed by '* ' entries) -- a bare ``stderr.write(...)`` of a
  one-line message is not a report.  One exception is decided structurally: ``stderr.write(<name>)`` where ``<name>`` is
  the report returned by ``run.load_model`` (whose every ``return None, <text>`` is in turn the value of a writer
  filled by ``write_error_report``: obligation ``load-model-returns-a-report``).
* one-line-headline: no literal piece of a ``message=`` of ``write_error_report`` contains a line break.
* module-entry-propagates-the-status: ``python -m aas_core_codegen`` / ``python aas_core_codegen/main.py`` /
  the console scripts hand the status of ``main()`` to ``sys.exit`` (a discarded status makes every run exit with 0).
"""
import ast
from typing import Any, Dict, List, Optional

from pyvc.units import Scan

from contracts.scans import TARGETS, _blocks


def _call_name(c: ast.Call) -> str:
    f = c.func
    return f.attr if isinstance(f, ast.Attribute) else (f.id if isinstance(f, ast.Name) else "")


def _is_report_call(st: ast.stmt, sink: str) -> bool:
    if not (isinstance(st, ast.Expr) and isinstance(st.value, ast.Call) and _call_name(st.value) == "write_error_report"):
        return False
    for kw in st.value.keywords:
        if kw.arg == "stderr" and isinstance(kw.value, ast.Name) and kw.value.id == sink:
            return True
    return len(st.value.args) >= 3 and isinstance(st.value.args[2], ast.Name) and st.value.args[2].id == sink


def _names_bound_to_load_model_report(fn: ast.FunctionDef) -> List[str]:
    out: List[str] = []
    for n in ast.walk(fn):
        if isinstance(n, ast.Assign) and isinstance(n.value, ast.Call) and _call_name(n.value) == "load_model":
            for t in n.targets:
                if isinstance(t, ast.Tuple) and len(t.elts) == 2 and isinstance(t.elts[1], ast.Name):
                    out.append(t.elts[1].id)
    return out


def _is_forwarded_report(st: ast.stmt, names: List[str]) -> bool:
    if not (isinstance(st, ast.Expr) and isinstance(st.value, ast.Call)):
        return False
    c = st.value
    f = c.func
    return (isinstance(f, ast.Attribute) and f.attr == "write" and isinstance(f.value, ast.Name) and f.value.id == "stderr"
            and len(c.args) == 1 and isinstance(c.args[0], ast.Name) and c.args[0].id in names)


def _block_reports(stmts: List[ast.stmt], names: List[str]) -> bool:
    """Every path through the block calls write_error_report(stderr=stderr) or forwards load_model's report."""
    for st in stmts:
        if _is_report_call(st, "stderr") or _is_forwarded_report(st, names):
            return True
        if isinstance(st, ast.If) and st.orelse and _block_reports(st.body, names) and _block_reports(st.orelse, names):
            return True
    return False


def scan_failure_report_format(loader: Any) -> List[Dict[str, Any]]:
    res: List[Dict[str, Any]] = []
    mods = ["aas_core_codegen.main"] + [f"aas_core_codegen.{t}.main" for t in TARGETS]
    for mn in mods:
        m = loader.module(mn)
        fi = m.funcs.get("execute") if m is not None else None
        if fi is None:
            res.append({"key": f"{mn}:execute:found", "ok": False, "desc": "execute() exists", "detail": "contract-anchor-lost"})
            continue
        names = _names_bound_to_load_model_report(fi.node)
        n = 0
        for block in _blocks(fi.node):
            for k, st in enumerate(block):
                if not isinstance(st, ast.Return):
                    continue
                val = st.value
                if not (isinstance(val, ast.Constant) and isinstance(val.value, int) and val.value != 0):
                    continue
                n += 1
                ok = _block_reports(block[:k], names)
                res.append({"key": f"{mn}:execute:return@+{st.lineno - fi.node.lineno}:failure-report-format", "ok": ok,
                            "func": fi.qualname, "line": st.lineno,
                            "desc": "a non-zero status is returned only after run.write_error_report(..., stderr=stderr) "
                                    "(headline ending in ':' + '* ' entries) or after forwarding load_model's report",
                            "detail": None if ok else f"line {st.lineno}: the failure is not written through "
                                                      f"write_error_report"})
        if n == 0:
            res.append({"key": f"{mn}:execute:failure-returns", "ok": False, "desc": "execute has failure returns",
                        "detail": "none found (vacuous)"})
    # run.load_model: the text handed back as the report is what write_error_report wrote to a fresh writer
    m = loader.module("aas_core_codegen.run")
    fi = m.funcs.get("load_model") if m is not None else None
    if fi is None:
        res.append({"key": "aas_core_codegen.run:load_model:found", "ok": False, "desc": "load_model exists",
                    "detail": "contract-anchor-lost"})
        return res
    n = 0
    for block in _blocks(fi.node):
        for k, st in enumerate(block):
            if not (isinstance(st, ast.Return) and isinstance(st.value, ast.Tuple) and len(st.value.elts) == 2):
                continue
            first, second = st.value.elts
            if not (isinstance(first, ast.Constant) and first.value is None):
                continue
            n += 1
            ok = False
            detail: Optional[str] = f"line {st.lineno}: {ast.unparse(second)[:60]} is not the value of a writer filled by " \
                                    f"write_error_report"
            if isinstance(second, ast.Call) and isinstance(second.func, ast.Attribute) and second.func.attr == "getvalue" \
                    and isinstance(second.func.value, ast.Name):
                w = second.func.value.id
                before = block[:k]
                fresh = [i for i, b in enumerate(before) if isinstance(b, ast.Assign) and len(b.targets) == 1
                         and isinstance(b.targets[0], ast.Name) and b.targets[0].id == w
                         and isinstance(b.value, ast.Call) and ast.unparse(b.value) == "io.StringIO()"]
                if fresh:
                    after = before[fresh[-1] + 1:]
                    reports = [b for b in after if _is_report_call(b, w)]
                    others = [b for b in after if not _is_report_call(b, w)]
                    ok = len(reports) == 1 and not others
                    if ok:
                        detail = None
            res.append({"key": f"aas_core_codegen.run:load_model:return@+{st.lineno - fi.node.lineno}:returns-a-report",
                        "ok": ok, "func": fi.qualname, "line": st.lineno,
                        "desc": "the report returned by load_model is exactly what one write_error_report call wrote to "
                                "a fresh writer", "detail": detail})
    if n == 0:
        res.append({"key": "aas_core_codegen.run:load_model:failure-returns", "ok": False,
                    "desc": "load_model has failure returns", "detail": "none found (vacuous)"})
    return res


def _literal_pieces(e: ast.expr) -> List[str]:
    if isinstance(e, ast.Constant) and isinstance(e.value, str):
        return [e.value]
    if isinstance(e, ast.JoinedStr):
        return [v.value for v in e.values if isinstance(v, ast.Constant) and isinstance(v.value, str)]
    if isinstance(e, ast.BinOp) and isinstance(e.op, ast.Add):
        return _literal_pieces(e.left) + _literal_pieces(e.right)
    return []


def scan_one_line_headlines(loader: Any) -> List[Dict[str, Any]]:
    res: List[Dict[str, Any]] = []
    root = loader.repo / "aas_core_codegen"
    for p in sorted(root.rglob("*.py")):
        rel = p.relative_to(loader.repo)
        try:
            tree = ast.parse(p.read_text(encoding="utf-8"))
        except SyntaxError:
            continue
        n = 0
        for node in ast.walk(tree):
            if not (isinstance(node, ast.Call) and _call_name(node) == "write_error_report"):
                continue
            msg = next((kw.value for kw in node.keywords if kw.arg == "message"), node.args[0] if node.args else None)
            if msg is None:
                continue
            n += 1
            bad = [x for x in _literal_pieces(msg) if "\n" in x or "\r" in x]
            res.append({"key": f"{rel}:write_error_report#{n}:one-line-headline", "ok": not bad, "line": node.lineno,
                        "func": str(rel), "desc": "no literal piece of the report headline contains a line break",
                        "detail": None if not bad else f"line {node.lineno}: {bad[0][-40:]!r}"})
    if not res:
        res.append({"key": "write_error_report:calls", "ok": False, "desc": "write_error_report is called", "detail": "vacuous"})
    return res


def scan_module_entries(loader: Any) -> List[Dict[str, Any]]:
    res: List[Dict[str, Any]] = []
    files = ["aas_core_codegen/__main__.py", "aas_core_codegen/main.py", "aas_core_codegen/smoke/main.py"]
    for rel in files:
        p = loader.repo / rel
        if not p.exists():
            res.append({"key": f"{rel}:found", "ok": False, "desc": "module exists", "detail": "contract-anchor-lost"})
            continue
        tree = ast.parse(p.read_text(encoding="utf-8"))
        guards = [st for st in tree.body if isinstance(st, ast.If) and ast.unparse(st.test) in
                  ("__name__ == '__main__'", '__name__ == "__main__"')]
        if not guards:
            res.append({"key": f"{rel}:entry-guard", "ok": False, "desc": "the module has an `if __name__ == '__main__'` "
                                                                          "block", "detail": "contract-anchor-lost"})
            continue
        for g in guards:
            body = g.body
            ok = False
            if len(body) == 1 and isinstance(body[0], ast.Expr) and isinstance(body[0].value, ast.Call):
                c = body[0].value
                if ast.unparse(c.func) == "sys.exit" and len(c.args) == 1 and isinstance(c.args[0], ast.Call) \
                        and _call_name(c.args[0]) == "main":
                    ok = True
            res.append({"key": f"{rel}:module-entry-propagates-the-status", "ok": ok, "line": g.lineno, "func": rel,
                        "desc": "run as a program, the module ends with sys.exit(main(...)): the process status is the "
                                "status returned by execute",
                        "detail": None if ok else f"line {g.lineno}: {ast.unparse(g)[:120]}"})
        # the console scripts call entry_point(): it has to return main()'s status
        for fn in tree.body:
            if isinstance(fn, ast.FunctionDef) and fn.name == "entry_point":
                last = fn.body[-1]
                ok = isinstance(last, ast.Return) and isinstance(last.value, ast.Call) and _call_name(last.value) == "main"
                res.append({"key": f"{rel}:entry_point-returns-the-status", "ok": ok, "line": fn.lineno, "func": rel,
                            "desc": "entry_point() returns the status of main(...)",
                            "detail": None if ok else ast.unparse(last)[:100]})
            if isinstance(fn, ast.FunctionDef) and fn.name == "main":
                last = fn.body[-1]
                ok = isinstance(last, ast.Return) and isinstance(last.value, ast.Call) and _call_name(last.value) == "execute"
                res.append({"key": f"{rel}:main-returns-the-status-of-execute", "ok": ok, "line": fn.lineno, "func": rel,
                            "desc": "main() ends with `return execute(...)`",
                            "detail": None if ok else ast.unparse(last)[:100]})
    return res


UNITS = [
    Scan("failure-report-format", ["C03"], scan_failure_report_format),
    Scan("one-line-headlines", ["C03"], scan_one_line_headlines),
    Scan("module-entries", ["C03"], scan_module_entries),
]
