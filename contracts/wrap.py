"""C27: common.wrap_text_into_lines.

Bounded stand-in only (NOT counted as proved): the function chains three loops over lists produced by
``str.split`` and a list comprehension; its inductive invariants need sequence-of-sequence reasoning
(join of a mapped list) that the home-made verifier does not discharge.  The function's own
``@ensure text == "".join(result)`` and its ``assert "".join(tokens) == text`` make clause 1 a run-time
checked contract: a violation surfaces as an exception, never as silently changed text.
"""
from pyvc.units import Native

UNITS = [
    Native("wrap_text_into_lines: all small texts", ["C27"], "native.c27:bounded", kind="bounded",
           bound="all texts of <= 5 (thorough: <= 6) space-separated parts from {a, an, the, x, word, "
                 "looooooooong, ''(doubled space)} x widths {1,4,7,12,60}; exhaustive within the bound",
           args={"max_tokens": 5}, thorough_args={"max_tokens": 6}),
]
