"""C27: common.wrap_text_into_lines.

Proved (for every text and every width >= 0), on the real function:

 1. text preservation: ``"".join(result) == text`` -- three cut points carry it: the token loop keeps "the tokens
    (plus the pending article) joined by blanks are the parts seen so far joined by blanks"; the list comprehension
    that appends the blanks is cut like a loop ("the new tokens concatenated are the old tokens joined by blanks");
    the segment loop keeps "segments + accumulation concatenated are the tokens seen so far concatenated".  The
    function's own ``assert "".join(tokens) == text`` and ``@ensure`` are obligations, not assumptions.
 2. width: every segment fits the width or is one token by itself (a word, or an article glued to the word that
    follows it); ``one_token`` is a ghost predicate that holds of the tokens only (introduced per iteration).

Clause 3 (an article never ends a segment while a word follows) relates positions in the text to token boundaries
across all three loops; it stays with the bounded unit (exhaustive small texts, NOT counted as proved), which also
checks 1 and 2 again on the running code and that equal arguments give equal results whatever was called before.
"""
from pyvc.contract import Contract, Loop
from pyvc.units import Native

FN = "aas_core_codegen.common:wrap_text_into_lines"

UNITS = [
    Contract(
        FN, ["C27"], specs=["specs.wrap"],
        requires=[("width-not-negative", "line_width >= 0")],
        loops={
            # for part in parts
            1: Loop(join_prefixes={"parts_joined": " "},
                    invariants=[
                        ("tokens-stand-for-the-parts-so-far", "pending_join(tokens, article) == parts_joined(_i)"),
                        ("nothing-collected-only-at-the-start",
                         "(len(tokens) == 0 and article is None) == (_i == 0)")]),
            # for token in tokens
            2: Loop(join_prefixes={"tokens_joined": ""},
                    list_folds={"segments": {
                        "all_fit_or_single": "lambda acc, s: acc and (len(s) <= line_width or one_token(s))"}},
                    elem_facts=["one_token(token)"],
                    invariants=[
                        ("text-so-far-kept", "''.join(segments) + ''.join(accumulation) == tokens_joined(_i)"),
                        ("length-of-the-accumulation", "accumulation_len == len(''.join(accumulation))"),
                        ("accumulation-fits", "accumulation_len <= line_width"),
                        ("segments-fit-or-single", "all_fit_or_single(segments)")]),
        },
        comps={
            # tokens = [f"{token} " if i < len(tokens) - 1 else token for i, token in enumerate(tokens)]
            1: Loop(acc="_spaced", acc_type="List[str]", join_prefixes={"old_joined": " "},
                    invariants=[
                        ("as-many", "len(_spaced) == _i"),
                        ("blanks-moved-into-the-tokens",
                         "''.join(_spaced) == (old_joined(_i) if (_i == 0 or _i == len(tokens)) "
                         "else old_joined(_i) + ' ')")]),
        },
        ensures=[
            ("text-preserved", "''.join(result) == text"),
            ("single-part-is-returned-as-it-is", "implies(len(text.split(' ')) == 1, len(result) == 1)"),
            ("every-segment-fits-or-is-a-single-token",
             "implies(len(text.split(' ')) > 1, all_fit_or_single(result))"),
        ],
        twins=[("never-fits", "implies(len(text.split(' ')) > 1, not all_fit_or_single(result))")],
        pure=["specs.wrap:one_token"], use_as_callee=False, replay="native.c27:replay"),
    Native("wrap_text_into_lines: all small texts", ["C27"], "native.c27:bounded", kind="bounded",
           bound="all texts of <= 5 (thorough: <= 6) space-separated parts from {a, an, the, x, word, "
                 "looooooooong, ''(doubled space)} x widths {1,4,7,12,60}, each text called with the widths "
                 "descending-then-ascending or ascending-then-descending; all three clauses on every call and equal "
                 "results for equal arguments; exhaustive within the bound",
           args={"max_tokens": 5}, thorough_args={"max_tokens": 6}),
]
