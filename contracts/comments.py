"""C20 (partial): text taken from descriptions cannot terminate a docstring or comment early.

Only the wrapper functions that put description text into a docstring / comment are under contract
(whole generated files parsing in six languages is out of reach).  Each wrapper is executed symbolically
on every text of length 0..K with fully symbolic characters (K = 6 for the Python docstring so that runs
of up to six quotes and a run of four or five quotes followed by another character are covered, plus 1..5 free
characters at either end of a 66-letter text for the multi-line form; K = 3 for the comments); str.replace / splitlines / strip are computed
exactly on such texts.  The step to arbitrary lengths is the same locality argument as for C19.
"""
import z3

from pyvc.contract import Contract
from pyvc.values import VStr

S = ["specs.comments"]


def sym_text(k: int):
    def build(it, fr):
        parts = []
        for i in range(k):
            c = z3.Int(f"text.{i}")
            it.path.add_fact(z3.And(c >= 0, c <= 0x10FFFF, z3.Or(c < 0xD800, c > 0xDFFF)))
            it.path.model_terms.append((f"text.{i}", c))
            parts.append(z3.Unit(c))
        # Stripped as its producers build it (``Stripped(x.strip())``): no leading / trailing white space
        if k:
            from pyvc.builtins import Builtins
            for c in (parts[0].arg(0), parts[-1].arg(0)):
                it.path.add_fact(z3.And(*[c != w for w in Builtins.SPACES], z3.Or(c < 0x2000, c > 0x200A)))
        return VStr(parts)
    return build


def sym_text_padded(k: int, pad: str, sym_first: bool):
    """k symbolic characters before / after a fixed run of letters (texts beyond the one-line limit of 70)."""
    inner = sym_text(k)

    def build(it, fr):
        v = inner(it, fr)
        return VStr(list(v.parts) + [pad]) if sym_first else VStr([pad] + list(v.parts))
    return build


UNITS = []
# lengths 0..6: every run of up to six quotes, a run of four or five followed by another character, two adjacent triples
for k in range(0, 7):
    UNITS.append(Contract(
        "aas_core_codegen.python.description:docstring", ["C20"], specs=S, name=f"python.docstring[len={k}]",
        args={"text": sym_text(k)}, requires=["0 not in [ord(c) for c in text]"],
        ensures=[("one-string-literal-with-the-text", "py_triple(result) == [ord(c) for c in text]")],
        twins=[("not-a-literal", "py_triple(result) is None")],
        use_as_callee=False, max_paths=20000, replay="native.c20:replay_docstring"))
# the multi-line form (texts of 64 characters and more): hostile characters at the start and at the end of the text
for k in range(1, 6):
    for sym_first in (True, False):
        UNITS.append(Contract(
            "aas_core_codegen.python.description:docstring", ["C20"], specs=S,
            name=f"python.docstring[multi-line, {k} free characters at the {'start' if sym_first else 'end'}]",
            args={"text": sym_text_padded(k, "x" * 66, sym_first)}, requires=["0 not in [ord(c) for c in text]"],
            ensures=[("one-string-literal-with-the-text-on-its-own-lines",
                      "py_triple(result) == [10] + [ord(c) for c in text] + [10]")],
            twins=[("not-a-literal", "py_triple(result) is None")],
            use_as_callee=False, max_paths=20000, replay="native.c20:replay_docstring"))

for tgt, kind, prefix in (("java", "block", ""), ("typescript", "block", ""), ("cpp", "line", "///"),
                          ("golang", "line", "//"), ("python", "line", "#:")):
    for k in range(0, 4):
        post = ("block_comment_ok(result)" if kind == "block" else f"line_comment_ok(result, {prefix!r})")
        if tgt == "cpp":
            # C++ only: a // comment whose line ends in a backslash swallows the next line
            post += " and no_line_continuation(result)"
        variants = [("", [])]
        if kind == "block" and k >= 2:
            # (a) texts without "*/": proved; (b) all texts: "*/" is the recorded finding, anything else is new
            variants = [(", text without */", ["'*/' not in text"]), (", all texts", [])]
        for suffix, req in variants:
            UNITS.append(Contract(
                f"aas_core_codegen.{tgt}.description:documentation_comment", ["C20"], specs=S,
                name=f"{tgt}.documentation_comment[len={k}{suffix}]", args={"text": sym_text(k)},
                loops={}, requires=req,
                ensures=[("text-cannot-end-the-comment", post)],
                twins=[("never-a-comment", f"not {post}")] if k > 0 or kind == "block" else [],
                use_as_callee=False, max_paths=20000, replay="native.c20:replay_comment"))

# whole files: bounded, Python target only (the other targets' compilers are not available)
from pyvc.units import Native  # noqa: E402

UNITS.append(Native(
    "every file of the Python SDK generated for hostile texts parses", ["C20"], "native.c20sdk:python_sdk_parses",
    kind="examples",
    bound="one meta-model with 26 hostile values (quotes, triple quotes, backslashes, '*/', line breaks, U+2028, NUL, "
          "braces, format directives) as enumeration literal values, string constants and invariant descriptions, and 11 "
          "reStructuredText descriptions whose rendering is hostile for a docstring or comment; every generated *.py "
          "file must parse with ast.parse.  Python target only", args={}, timeout_s=600))

UNITS.append(Native(
    "every generated Java file parses (JDK parser); library-free files compile", ["C20"], "native.c20java:bounded",
    kind="examples",
    bound="10 meta-models (hostile texts with and without the description containing */, constants of every primitive "
          "type, a model with inheritance and invariants, methods / constructors with 0, 2, 3 arguments, with and without "
          "a descendant) through the Java target: every generated *.java file (~470, the generated tests included) is "
          "parsed with JavacTask.parse(); the files that import neither Jackson nor JUnit are compiled with javac (compile "
          "errors are recorded in the evidence only: the property says 'parses')", args={}, timeout_s=1500))

UNITS.append(Native(
    "generated C++ sources without third-party includes pass g++ -fsyntax-only", ["C20"], "native.c20cpp:bounded",
    kind="examples",
    bound="the 10 meta-models of the Java unit restricted to ASCII texts (the C++ generator refuses non-ASCII literals: "
          "recorded finding of C02) through the C++ target: every src/*.cpp except jsonization.cpp and xmlization.cpp "
          "(~90 files) against the generated headers with g++ -std=c++17 -fsyntax-only; tl/expected.hpp (third-party) is "
          "replaced by declarations; lexical and syntactic errors are reported, semantic ones (a redefinition for a class "
          "without properties) recorded in the evidence only; the generated tests (Catch2) are not checked",
    args={}, timeout_s=1500))

UNITS.append(Native(
    "every file of the Python SDK generated for the other harness meta-models parses", ["C20"],
    "native.c20sdk:python_sdk_parses_for_models", kind="examples",
    bound="the meta-models of the Java unit (constants, inheritance, a class without properties, constructors with 0, 2, "
          "3 arguments, ...) through the Python target: every generated *.py (~80 files of ~10 models) parses with "
          "CPython's ast.parse", args={}, timeout_s=600))
