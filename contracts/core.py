"""common.py / run.py / main.py: error locations (C04), report format (C03), cache flag (C23),
cache write protocol (C24), front-end plumbing (C01)."""
from pyvc.contract import Contract, Lemma, Loop
from pyvc.units import Native, Scan

COMMON = "aas_core_codegen.common"
RUN = "aas_core_codegen.run"
MAIN = "aas_core_codegen.main"
S = ["specs.report"]

def _with(c, **attrs):
    for k, v in attrs.items():
        setattr(c, k, v)
    return c


TEXT = "atok.get_text(atok.tree)"
STEXT = "self.atok.get_text(self.atok.tree)"

UNITS = [
    # ------------------------------------------------------------------ C04
    # positions[j] == (1-based line of offset j, 1-based column of offset j) for every character, a line break
    # included (it belongs to the line that it ends: the module of a file that begins with an empty line starts
    # on one).  lc_line / lc_col are the recursive
    # definitions in contracts/_ext.py (global prefix folds): line = 1 + #'\n' before j, col = #chars since
    # the last '\n' before j.
    Contract(f"{COMMON}:LinenoColumner.__init__", ["C04"], specs=S,
             loops={1: Loop(
                 use_gfolds=["lc_line", "lc_col"],
                 invariants=[
                     ("len", "len(positions) == _i"),
                     ("line", f"lineno == lc_line({TEXT}, _i)"),
                     ("col", f"column == lc_col({TEXT}, _i)"),
                     ("table", f"forall(0, _i, lambda j: positions[j] == "
                               f"(lc_line({TEXT}, j), lc_col({TEXT}, j) + 1))"),
                 ])},
             ensures=[
                 ("table-size", f"len(self.positions) == len({TEXT})"),
                 ("one-based-line-and-column",
                  f"forall(0, len({TEXT}), lambda q: self.positions[q] == "
                  f"(lc_line({TEXT}, q), lc_col({TEXT}, q) + 1))"),
                 ("atok-kept", "self.atok is atok"),
             ],
             twins=[("zero-based-column",
                     f"forall(0, len({TEXT}), lambda q: implies({TEXT}[q] != '\\n', self.positions[q] == "
                     f"(lc_line({TEXT}, q), lc_col({TEXT}, q))))")],
             replay="native.c04:replay_positions"),

    # error_message: located prefix is the 1-based (line, column) of the node's first character.
    # deep_ok(e) is the data invariant of Error trees established by the scan of every Error(...)
    # construction (C03 scan): each message can be used as a report entry.
    Contract(f"{COMMON}:LinenoColumner.error_message", ["C04", "C03", "C01"], specs=S,
             requires=[
                 ("table-size", f"len(self.positions) == len({STEXT})"),
                 ("table", f"forall(0, len({STEXT}), lambda j: self.positions[j] == "
                           f"(lc_line({STEXT}, j), lc_col({STEXT}, j) + 1))"),
                 ("error-tree-invariant", "pred('deep_ok', error)"),
             ],
             facts=["implies(pred('deep_ok', error), entry_ok(error.message) and (error.underlying is None or "
                    "forall(0, len(error.underlying), lambda k: pred('deep_ok', error.underlying[k]))))"],
             loops={1: Loop(invariants=[
                 ("header", "written(writer).startswith(prefix + error.message + '\\n')"),
                 ("no-trailing-newline", "implies(_i > 0, not written(writer).endswith('\\n'))"),
             ])},
             ensures=[
                 # the printed pair is the table entry of the node's first character ...
                 ("located-prefix",
                  "implies(error.node is not None, result.startswith('At line ' + "
                  "str(self.positions[self.atok.get_text_range(error.node)[0]][0]) + ' and column ' + "
                  "str(self.positions[self.atok.get_text_range(error.node)[0]][1]) + ': ' + error.message))"),
                 # ... and that entry is the 1-based (line, column) of that character
                 ("printed-position-is-one-based",
                  "implies(error.node is not None, self.positions[self.atok.get_text_range(error.node)[0]] == "
                  f"(lc_line({STEXT}, self.atok.get_text_range(error.node)[0]), "
                  f"lc_col({STEXT}, self.atok.get_text_range(error.node)[0]) + 1))"),
                 ("unlocated", "implies(error.node is None, result.startswith(error.message))"),
                 ("usable-as-report-entry", "entry_ok(result)"),
             ],
             twins=[("zero-based", "implies(error.node is not None, self.positions[self.atok.get_text_range(error.node)[0]] == "
                                   f"(lc_line({STEXT}, self.atok.get_text_range(error.node)[0]), "
                                   f"lc_col({STEXT}, self.atok.get_text_range(error.node)[0])))"),
                    ("column-printed-first", "implies(error.node is not None, result.startswith('At line ' + "
                                             "str(self.positions[self.atok.get_text_range(error.node)[0]][1]) + ' and'))")],
             ),

    # write_error_report: headline + ':' then one '* '-bulleted entry per error, none dropped.
    Contract(f"{RUN}:write_error_report", ["C03", "C01"], specs=S,
             loops={1: Loop(
                 invariants=[("headline-kept", "written(stderr).startswith(old(written(stderr)) + message + ':\\n')")],
                 body_ensures=[
                     ("one-entry-per-error", "appended_count(stderr) == 1"),
                     ("bulleted", "appended(stderr).startswith('* ')"),
                     ("terminated", "appended(stderr).endswith('\\n')"),
                     ("content-kept", "len(appended(stderr)) >= len(error) + 1"),
                 ],
                 body_twins=[("two-entries", "appended_count(stderr) == 2")])},
             ensures=[("headline", "written(stderr).startswith(old(written(stderr)) + message + ':\\n')"),
                      ("non-empty", "len(written(stderr)) > len(old(written(stderr)))")],
             modifies=["stderr"],
             ),

    # ------------------------------------------------------------------ front end entry (C01, C03, C23, C24)
    Contract("aas_core_codegen.parse._translate:source_to_atok", ["C01"],
             ensures=[("exactly-one", "(result[0] is None) != (result[1] is None)")],
             twins=[("always-ok", "result[1] is None")]),
    # trusted contracts of the front-end stages called by load_model (their bodies: parse/_translate.py 4 000 lines,
    # intermediate/_translate.py 5 000 lines are outside the verifier's reach; their crash-freedom is C01's
    # sweep + the unverified remainder)
    Contract("aas_core_codegen.parse._translate:check_expected_imports", ["C01"], specs=S,
             ensures=[("entries", "forall(0, len(result), lambda k: entry_ok(result[k]))")],
             assumed=True, justification="ast.NodeVisitor based; every message there is a non-empty f-string starting with a letter"),
    Contract("aas_core_codegen.parse._translate:atok_to_symbol_table", ["C01"], specs=S,
             ensures=[("error-tree", "implies(result[1] is not None, pred('deep_ok', result[1]))")],
             assumed=True, justification="Error trees: see the C03 scan of every Error(...) construction"),
    Contract("aas_core_codegen.intermediate._translate:translate", ["C01"], specs=S,
             ensures=[("error-tree", "implies(result[1] is not None, pred('deep_ok', result[1]))")],
             assumed=True, justification="Error trees: see the C03 scan of every Error(...) construction"),

    _with(Contract(f"{RUN}:load_model", ["C01", "C03", "C23", "C24"], specs=S,
                   ensures=[
                       ("report-non-empty", "implies(result[1] is not None, len(result[1]) > 0)"),
                       ("no-cache-access-unless-asked",
                        "implies(not cache_model, only_model_touched(fs_trace()))"),
                       ("cache-protocol", "cache_trace_ok(fs_trace())"),
                   ],
                   twins=[("never-touches-cache", "only_model_touched(fs_trace())")],
                   raises={"OSError": None},
                   note="OSError from a failed cache write may propagate (outside C01: not caused by the meta-model); "
                        "the protocol invariant is checked after every file-system step incl. the exceptional exits",
                   replay="native.c23:replay_load_model"),
          fs_invariant="specs.report:cache_trace_ok"),

    # main.execute: exit status <-> stderr/stdout; the flag is handed to load_model unchanged (C23)
    Contract(f"{MAIN}:execute", ["C03", "C01", "C23", "C25"], specs=S,
             ensures=[
                 ("status", "result == 0 or result == 1"),
                 ("success-is-silent", "implies(result == 0, written(stderr) == old(written(stderr)))"),
                 ("success-announced", "implies(result == 0, written(stdout).endswith("
                                       "'Code generated to: ' + str(params.output_dir) + '\\n'))"),
                 ("failure-reported", "implies(result != 0, len(written(stderr)) > len(old(written(stderr))))"),
             ],
             twins=[("never-fails", "result == 0")]),
]

TARGETS = ["cpp", "csharp", "golang", "java", "jsonschema", "python", "typescript", "xsd"]
for _t in TARGETS:
    UNITS.append(Contract(
        f"aas_core_codegen.{_t}.main:execute", ["C03", "C01", "C23", "C25"], specs=S,
        ensures=[("status", "result == 0 or result == 1"),
                 ("success-is-silent", "implies(result == 0, written(stderr) == old(written(stderr)))"),
                 ("success-announced", "implies(result == 0, written(stdout).endswith("
                                       "'Code generated to: ' + str(context.output_dir) + '\\n'))"),
                 ("failure-reported", "implies(result != 0, len(written(stderr)) > len(old(written(stderr))))")],
        modifies=["stdout", "stderr"], assumed=True,
        justification="checked syntactically by the scan unit 'target-execute-skeleton' (every return of a non-zero "
                      "status is preceded by a write to stderr, the return of 0 by the announcement on stdout)"))

UNITS += [
    # ------------------------------------------------------------------ C23 (flag plumbing)
    Contract(f"{MAIN}:Parameters.__init__", ["C23"],
             ensures=[("cache-flag-is-the-argument", "self.cache_model == cache_model"),
                      ("model-path", "self.model_path is model_path"),
                      ("snippets-dir", "self.snippets_dir is snippets_dir"),
                      ("output-dir", "self.output_dir is output_dir"),
                      ("target", "self.target is target")],
             twins=[("always-on", "self.cache_model")],
             use_as_callee=False, replay="native.c23:replay_parameters"),
]
