"""common.py / run.py / main.py: error locations (C04), report format (C03), cache flag (C23),
cache write protocol (C24), front-end plumbing (C01)."""
from pyvc.contract import Contract, Lemma, Loop
from pyvc.units import Native, Scan

COMMON = "aas_core_codegen.common"
RUN = "aas_core_codegen.run"
MAIN = "aas_core_codegen.main"
S = ["specs.report"]

TEXT = "atok.get_text(atok.tree)"
STEXT = "self.atok.get_text(self.atok.tree)"

UNITS = [
    # ------------------------------------------------------------------ C04
    # positions[j] == (1-based line of offset j, 1-based column of offset j) for every character that is
    # not itself a line break (no construct starts on a '\n').  lc_line / lc_col are the recursive
    # definitions in contracts/_ext.py (global prefix folds): line = 1 + #'\n' before j, col = #chars since
    # the last '\n' before j.
    Contract(f"{COMMON}:LinenoColumner.__init__", ["C04"], specs=S, ghost={"q": "int"},
             loops={1: Loop(
                 use_gfolds=["lc_line", "lc_col"],
                 invariants=[
                     ("len", "len(positions) == _i"),
                     ("line", f"lineno == lc_line({TEXT}, _i)"),
                     ("col", f"column == lc_col({TEXT}, _i)"),
                     ("table", f"forall(0, _i, lambda j: implies({TEXT}[j] != '\\n', positions[j] == "
                               f"(lc_line({TEXT}, j), lc_col({TEXT}, j) + 1)))"),
                 ])},
             requires=[f"0 <= q < len({TEXT})"],
             ensures=[
                 ("table-size", f"len(self.positions) == len({TEXT})"),
                 ("one-based-line-and-column",
                  f"implies({TEXT}[q] != '\\n', self.positions[q] == (lc_line({TEXT}, q), lc_col({TEXT}, q) + 1))"),
                 ("atok-kept", "self.atok is atok"),
             ],
             twins=[("zero-based-column",
                     f"implies({TEXT}[q] != '\\n', self.positions[q] == (lc_line({TEXT}, q), lc_col({TEXT}, q)))")],
             use_as_callee=False, replay="native.c04:replay_positions"),

    # error_message: located prefix is the 1-based (line, column) of the node's first character.
    # deep_ok(e) is the data invariant of Error trees established by the scan of every Error(...)
    # construction (C03 scan): each message can be used as a report entry.
    Contract(f"{COMMON}:LinenoColumner.error_message", ["C04", "C03", "C01"], specs=S,
             requires=[
                 ("table-size", f"len(self.positions) == len({STEXT})"),
                 ("table", f"forall(0, len({STEXT}), lambda j: implies({STEXT}[j] != '\\n', self.positions[j] == "
                           f"(lc_line({STEXT}, j), lc_col({STEXT}, j) + 1)))"),
                 ("error-tree-invariant", "pred('deep_ok', error)"),
             ],
             facts=["implies(pred('deep_ok', error), entry_ok(error.message) and (error.underlying is None or "
                    "forall(0, len(error.underlying), lambda k: pred('deep_ok', error.underlying[k]))))"],
             loops={1: Loop(invariants=[
                 ("header", "written(writer).startswith(prefix + error.message + '\\n')"),
                 ("no-trailing-newline", "implies(_i > 0, not written(writer).endswith('\\n'))"),
             ])},
             ensures=[
                 ("located-prefix",
                  "implies(error.node is not None, result.startswith('At line ' + "
                  f"str(lc_line({STEXT}, self.atok.get_text_range(error.node)[0])) + ' and column ' + "
                  f"str(lc_col({STEXT}, self.atok.get_text_range(error.node)[0]) + 1) + ': ' + error.message))"),
                 ("unlocated", "implies(error.node is None, result.startswith(error.message))"),
                 ("usable-as-report-entry", "entry_ok(result)"),
             ],
             twins=[("zero-based", "implies(error.node is not None, result.startswith('At line ' + "
                                   f"str(lc_line({STEXT}, self.atok.get_text_range(error.node)[0])) + ' and column ' + "
                                   f"str(lc_col({STEXT}, self.atok.get_text_range(error.node)[0])) + ': '))")],
             ),

    # write_error_report: headline + ':' then one '* '-bulleted entry per error, none dropped.
    Contract(f"{RUN}:write_error_report", ["C03", "C01"], specs=S,
             loops={1: Loop(
                 invariants=[("headline-kept", "written(stderr).startswith(old(written(stderr)) + message + ':\\n')")],
                 body_ensures=[
                     ("one-entry-per-error", "appended_count(stderr) == 1"),
                     ("bulleted", "appended(stderr).startswith('* ')"),
                     ("terminated", "appended(stderr).endswith('\\n')"),
                     ("content-kept", "len(appended(stderr)) >= len(error) + 1"),
                 ],
                 body_twins=[("two-entries", "appended_count(stderr) == 2")])},
             ensures=[("headline", "written(stderr).startswith(old(written(stderr)) + message + ':\\n')"),
                      ("non-empty", "len(written(stderr)) > len(old(written(stderr)))")],
             modifies=["stderr"],
             ),

    # ------------------------------------------------------------------ C23 (flag plumbing)
    Contract(f"{MAIN}:Parameters.__init__", ["C23"],
             ensures=[("cache-flag-is-the-argument", "self.cache_model == cache_model"),
                      ("model-path", "self.model_path is model_path"),
                      ("snippets-dir", "self.snippets_dir is snippets_dir"),
                      ("output-dir", "self.output_dir is output_dir"),
                      ("target", "self.target is target")],
             twins=[("always-on", "self.cache_model")],
             use_as_callee=False, replay="native.c23:replay_parameters"),
]
