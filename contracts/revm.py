"""C18 (the part within reach): the data invariant of the set instructions of the regex virtual machine.

``InstructionSet`` / ``InstructionNotSet`` carry ``@require(check_ranges_sorted_and_non_overlapping(ranges) is None)``;
the generated C++ matcher (``cpp/lib/_generate_revm.py``) and every other implementation of the documented
instruction semantics may rely on the ranges being strictly increasing and disjoint.  ``check_ranges_sorted_and_
non_overlapping`` is the function that decides this; it is put under contract against the property's own wording:
it answers ``None`` *exactly* when every range lies wholly before its successor.  A checker that lets an overlapping
or unsorted list through (an off-by-one in either comparison, a skipped last pair, an early ``return None``) fails
``none-exactly-when-strictly-increasing``.

The language clause of C18 (the program accepts exactly the strings of the pattern) stays with the bounded units in
contracts/rules.py; ``transform_char_set`` (``list.sort(key=...)``) is outside pyvc's reach and is reached by those
units only.
"""
from pyvc.contract import Contract, Loop

R = "aas_core_codegen.intermediate.revm"

# range j lies wholly before range j + 1 (with the data invariant first <= last of Range this is equivalent to the
# two comparisons the repository makes)
BEFORE = "ord(ranges[{j}].last) < ord(ranges[{j} + 1].first) and ord(ranges[{j}].first) < ord(ranges[{j} + 1].last)"

UNITS = [
    Contract(f"{R}:check_ranges_sorted_and_non_overlapping", ["C18"],
             loops={1: Loop(invariants=[
                 ("pairs-so-far-are-in-order", "forall(0, _i, lambda j: " + BEFORE.format(j="j") + ")")],
                 modifies=[])},
             ensures=[
                 ("none-only-when-strictly-increasing",
                  "implies(result is None, forall(0, len(ranges) - 1, lambda j: " + BEFORE.format(j="j") + "))"),
                 ("a-message-only-when-some-pair-is-out-of-order",
                  "implies(result is not None, exists(0, len(ranges) - 1, lambda j: not (" + BEFORE.format(j="j")
                  + ")))"),
                 # what a matcher that searches the ranges may rely on (follows with first <= last of every Range)
                 ("none-only-when-firsts-and-lasts-strictly-increase",
                  "implies(result is None, forall(0, len(ranges) - 1, lambda j: "
                  "ord(ranges[j].first) < ord(ranges[j + 1].first) and ord(ranges[j].last) < ord(ranges[j + 1].last)))"),
                 ("a-message-is-never-empty", "result is None or len(result) > 0")],
             twins=[("never-none", "result is not None"), ("always-none", "result is None")],
             use_as_callee=False, replay="native.c18ranges:replay_check_ranges"),
]
