"""C15 / C02: inference of length constraints (aas_core_codegen/infer_for_schema/_len.py, _inline.py).

``n`` is the skolemised "for all lengths n": every postcondition holds for an arbitrary n.
"""
from pyvc.contract import Contract, Lemma, Loop
from pyvc.units import Native

LEN = "aas_core_codegen.infer_for_schema._len"
INL = "aas_core_codegen.infer_for_schema._inline"
TYPES = "aas_core_codegen.infer_for_schema._types"
S = ["specs.lengths"]

UNITS = [
    # ---- value specs of the None-aware min/max helpers (all argument lists, all lengths)
    # spec = the recursive definition "fold opt_min over the arguments": (allnone(k), val(k)) for the first k
    Contract(f"{LEN}:min_with_none", ["C15"], specs=S,
             loops={1: Loop(
                 prefix_folds={"allnone": ("bool", "True", "lambda acc, x: acc and x is None"),
                               "val": ("int", "0", "lambda acc, x, k: acc if x is None else"
                                                   " ((x + 0) if allnone(k) else ((x + 0) if x < acc else acc))")},
                 invariants=["(minimum is None) == allnone(_i)",
                             "implies(minimum is not None, minimum == val(_i))"])},
             ensures=[("none-iff-all-none", "(result is None) == allnone(len(args))"),
                      ("value", "implies(result is not None, result == val(len(args)))")],
             twins=[("never-none", "result is not None")],
             use_as_callee=False),
    Contract(f"{LEN}:max_with_none", ["C15"], specs=S,
             loops={1: Loop(
                 prefix_folds={"allnone": ("bool", "True", "lambda acc, x: acc and x is None"),
                               "val": ("int", "0", "lambda acc, x, k: acc if x is None else"
                                                   " ((x + 0) if allnone(k) else ((x + 0) if x > acc else acc))")},
                 invariants=["(maximum is None) == allnone(_i)",
                             "implies(maximum is not None, maximum == val(_i))"])},
             ensures=[("none-iff-all-none", "(result is None) == allnone(len(args))"),
                      ("value", "implies(result is not None, result == val(len(args)))")],
             twins=[("never-none", "result is not None")],
             use_as_callee=False),
    Contract(f"{INL}:_min_or_none", ["C15", "C12", "C14"], specs=S,
             ensures=[("value", "result == opt_min(that, other)")],
             twins=[("swapped", "result == opt_max(that, other)")], use_as_callee=False),
    Contract(f"{INL}:_max_or_none", ["C15", "C12", "C14"], specs=S,
             ensures=[("value", "result == opt_max(that, other)")],
             twins=[("swapped", "result == opt_min(that, other)")], use_as_callee=False),

    # ---- one comparison `len(x) op c` / `c op len(x)` is read as the constraint it states
    Contract(f"{LEN}:_match_len_constraint_on_member_or_name", ["C15"], specs=S, ghost={"n": "int"},
             ensures=[
                 ("reads-comparison-exactly",
                  "implies(result is not None, sat(result.constraint, n) == comparison_holds(node, n))"),
                 ("same-operand",
                  "implies(result is not None, result.member_or_name is len_operand(node))"),
                 ("unrecognised-ignored",
                  "implies(not is_len_comparison(node), result is None)"),
                 ("recognised-not-dropped",
                  "implies(is_len_comparison(node) and node.op is not parse_tree.Comparator.NE, result is not None)"),
             ],
             twins=[("off-by-one", "implies(result is not None, sat(result.constraint, n) == comparison_holds(node, n + 1))")],
             use_as_callee=False, replay="native.c15:replay_match"),

    # ---- optional guards: exactly `self.p is None or C` and `not (self.p is not None) or C` are recognised
    Contract("aas_core_codegen.infer_for_schema.match:try_conditional_on_prop", ["C15"], specs=S,
             ensures=[
                 ("only-guarded-forms", "implies(result is not None, is_guarded_form(node))"),
                 ("guard-property", "implies(result is not None, result.prop_name == guard_prop(node))"),
                 ("consequent", "implies(result is not None, result.consequent is guarded_consequent(node))"),
                 ("guarded-forms-recognised", "implies(is_guarded_form(node), result is not None)"),
             ],
             twins=[("always-matches", "result is not None")],
             use_as_callee=False, replay="native.c15:replay_conditional"),
    Contract("aas_core_codegen.infer_for_schema.match:try_property", ["C15"], specs=S,
             ensures=[("iff-self-member", "(result is not None) == is_self_prop(node)"),
                      ("name", "implies(result is not None, result == node.name)")],
             twins=[("any-member", "(result is not None) == is_kind(node, parse_tree.Member)")],
             use_as_callee=False),

    # ---- reduction of a list of constraints to one range
    Contract(f"{LEN}:_reduce_constraints", ["C15", "C02", "C12", "C14"], specs=S, ghost={"n": "int"},
             loops={1: Loop(
                 prefix_folds={"allsat": ("bool", "True", "lambda acc, c: acc and sat(c, n)")},
                 invariants=["implies(len(errors) == 0, allsat(_i) == (admits(min_len, max_len, n)"
                             " and (exact_len is None or n == exact_len)))"])},
             ensures=[
                 ("range-equals-conjunction",
                  "implies(result[0] is not None, admits(result[0].min_value, result[0].max_value, n)"
                  " == allsat(len(constraints)))"),
                 ("unsatisfiable-reported",
                  "implies(result[0] is not None, result[0].min_value is None or result[0].max_value is None"
                  " or result[0].min_value <= result[0].max_value)"),
                 ("errors-non-empty", "implies(result[1] is not None, len(result[1]) > 0)"),
             ],
             twins=[("off-by-one", "implies(result[0] is not None, admits(result[0].min_value, result[0].max_value, n + 1)"
                                   " == allsat(len(constraints)))")],
             use_as_callee=False, replay="native.c15:replay_reduce"),

    # ---- merge of two ranges = intersection; an empty intersection must not crash
    # (a) whenever the two ranges intersect: proved without exception;
    # (b) all inputs: the disjoint case is the recorded finding (known_findings.json), anything else is new.
    # (the tightest merged range is what the schema generators enforce: also part of C12 / C14)
    Contract(f"{INL}:_merge_len_constraints", ["C15", "C02", "C12", "C14"], specs=S, ghost={"n": "int"},
             name="merge_len[ranges intersect]",
             args={"that": lambda it, fr: mk_len_constraint(it, "that"),
                   "other": lambda it, fr: mk_len_constraint(it, "other")},
             requires=["that is None or other is None or ranges_intersect(that, other)"],
             ensures=[("intersection",
                       "admits_c(result, n) == (admits_c(that, n) and admits_c(other, n))")],
             twins=[("union", "admits_c(result, n) == (admits_c(that, n) or admits_c(other, n))")],
             use_as_callee=False, replay="native.c15:replay_merge_len"),
    Contract(f"{INL}:_merge_len_constraints", ["C15", "C02"], specs=S, ghost={"n": "int"},
             name="merge_len[all inputs]",
             args={"that": lambda it, fr: mk_len_constraint(it, "that"),
                   "other": lambda it, fr: mk_len_constraint(it, "other")},
             ensures=[("intersection",
                       "admits_c(result, n) == (admits_c(that, n) and admits_c(other, n))")],
             twins=[("union", "admits_c(result, n) == (admits_c(that, n) or admits_c(other, n))")],
             use_as_callee=False, replay="native.c15:replay_merge_len"),
]


def mk_len_constraint(it, name):
    """Optional[LenConstraint] satisfying the class's own precondition (its data invariant)."""
    import z3
    from pyvc.values import VOpt, VInt
    v = it.mk_sym("Optional[LenConstraint]", it.engine.loader.module(INL), name)
    o = v.val
    mn = it.getattr(o, "min_value", None, _FR(it))
    mx = it.getattr(o, "max_value", None, _FR(it))
    assert isinstance(mn, VOpt) and isinstance(mx, VOpt)
    # data invariant established by LenConstraint.__init__'s @require (read from the repo on every run)
    fi = it.engine.loader.func(f"{TYPES}:LenConstraint.__init__")
    from pyvc.exprs import Frame
    for lam, _ in fi.requires:
        lfr = Frame(fi.module, None, {"min_value": mn, "max_value": mx}, None)
        lfr.in_spec = True
        it.path.add_fact(it.truthy(it.ev(lam.body, lfr)))
    it.register_model_terms(name + ".min_value", mn)
    it.register_model_terms(name + ".max_value", mx)
    it.register_model_terms(name, VOpt(v.isnone, VInt(0)))
    return v


def _FR(it):
    from pyvc.exprs import Frame
    fr = Frame(it.engine.loader.module(INL))
    fr.in_spec = True
    return fr

# the propagation along ancestors and constrained primitives (incl. topological processing) is not under contract:
# examples-bounded check on the real pipeline
from pyvc.units import Native  # noqa: E402

UNITS.append(Native(
    "constraints inferred for the harness meta-model equal the conjunction of its invariants", ["C15", "C12", "C14"],
    "native.c15:inferred_for_harness_model", kind="examples",
    bound="the meta-model of native/c11.py: 11 (class, property) pairs with length bounds and patterns from the class "
          "itself, an ancestor, constrained primitives, a descendant primitive tightening both bounds and a chain of "
          "primitives declared child-first; expected values worked out by hand from the invariants", args={}))

# ---- the gluing loop: a constraint found behind an optional guard is only taken if the guard is on the very same
# property ("if the property is set, then ...") -- a guard on another property cannot be represented in a schema
UNITS.append(Contract(
    f"{LEN}:len_constraints_from_invariants", ["C15", "C11", "C13"], specs=S,
    loops={1: Loop(body_ensures=[
        ("guard-and-constraint-on-the-same-property",
         "implies(invariant.specified_for is cls and conditional_on_prop is not None "
         "and len_constraint_on_prop is not None, "
         "len_constraint_on_prop.prop_name == conditional_on_prop.prop_name)")])},
    opaque=["aas_core_codegen.infer_for_schema.match:try_conditional_on_prop",
            f"{LEN}:_match_len_constraint_on_property", f"{LEN}:_reduce_constraints"],
    use_as_callee=False))
# only the iteration of the first loop is under contract (the second loop needs "every key of the map is a property of
# the class", a quantified invariant over the keys of a dict)
UNITS[-1].loops[1].skip_exit = True
UNITS[-1].partial = True  # no path of this unit reaches the end of the function, by construction
