"""C13 / C14 (bounded): the pattern translation of the XSD generator keeps the language of the pattern.

``xsd.main._translate_pattern`` works on ``re.finditer`` matches and on the regex tree (visitors, renderer); no
contract of pyvc reaches "the translated pattern accepts the same strings".  Bounded stand-in on the real functions,
judged by Python's ``re`` (original) and the XSD validator ``xmlschema`` (translation); NOT counted as proved.
Found on the pinned tree: ``\\xHH`` escapes of meta-characters were pasted verbatim into the pattern (``^a\\x2a$``
became ``a*``, ``[a\\x2dz]`` became ``[a-z]``): repaired.
"""
from pyvc.units import Native

UNITS = [
    Native("XSD pattern translation keeps the language (one pattern)", ["C13", "C14"], "native.c13:bounded", kind="bounded",
           bound="982 anchored patterns: each of the 95 printable ASCII characters, TAB, U+0080, U+00E9, U+00FF written "
                 "as \\xHH in 10 positions (alone, between letters, quantified, alone / in the middle of a set, "
                 "complemented set, after an escaped backslash, in an alternation, as start / end of a range), those "
                 "that the repository's regex parser accepts; every string of length <= 2 over a 13-letter alphabet "
                 "(~170 000 cases); judges: re on the original, xmlschema on the translation; exhaustive within the "
                 "bound.  Ranges starting at an escape are read differently by xmlschema 4.3.2 than by the XSD "
                 "grammar: such disagreements are recorded in the evidence, not reported", args={}, timeout_s=900),
    Native("XSD pattern translation keeps the language (two patterns merged)", ["C13", "C14"], "native.c13:merged",
           kind="bounded",
           bound="255 accepted patterns (24 characters incl. every regex meta-character, as \\xHH in the 10 positions) "
                 "each on a property that also carries the pattern ^.*$: the whole XSD generator (merge by greenery) must "
                 "produce a schema whose pattern accepts exactly what the original accepts; strings of length <= 2; "
                 "exhaustive within the bound", args={}, timeout_s=900),
]
