"""C25 (and the error-order part of C22): specific_implementations.read_from_directory.

The directory is the ghost enumeration behind ``Path.glob`` (contracts/_ext.py).  The contract is stated
per processed entry (loop-body lemma) plus the exit postcondition; by induction over the enumeration the
returned mapping is exactly {relative POSIX key -> stripped UTF-8 content | regular, not hidden}.
"""
from pyvc.contract import Contract, Loop
from pyvc.units import Native

SI = "aas_core_codegen.specific_implementations"
S = ["specs.snippets", "specs.report"]

KEY = "(pth.relative_to(snippets_dir).parent / pth.name).as_posix()"

UNITS = [
    Contract(f"{SI}:read_from_directory", ["C25"], specs=S,
             loops={1: Loop(
                 invariants=[("errors-usable-as-report-entries",
                              "forall(0, len(errors), lambda k: entry_ok(errors[k]))")],
                 modifies=["mapping", "errors", "pth", "maybe_key", "key", "value"],
                 body_ensures=[
                     ("hidden-or-directory-ignored",
                      "implies(hidden(pth.relative_to(snippets_dir)) or pth.is_dir(), "
                      "dict_writes(mapping) == 0 and appended_count(errors) == 0)"),
                     ("regular-file-loaded",
                      f"implies(not hidden(pth.relative_to(snippets_dir)) and not pth.is_dir() and valid_key({KEY}) "
                      "and pred('file_is_utf8', pth), dict_writes(mapping) == 1 and appended_count(errors) == 0 "
                      f"and dict_written(mapping, 0)[0] == {KEY} "
                      "and dict_written(mapping, 0)[1] == pth.read_text(encoding='utf-8').strip())"),
                     ("invalid-key-reported",
                      f"implies(not hidden(pth.relative_to(snippets_dir)) and not pth.is_dir() and not valid_key({KEY}), "
                      f"dict_writes(mapping) == 0 and appended_count(errors) == 1 "
                      f"and ({KEY} in appended(errors) or repr({KEY}) in appended(errors)))"),
                     ("non-utf8-reported",
                      f"implies(not hidden(pth.relative_to(snippets_dir)) and not pth.is_dir() and valid_key({KEY}) "
                      "and not pred('file_is_utf8', pth), dict_writes(mapping) == 0 and appended_count(errors) == 1 "
                      "and str(pth) in appended(errors))"),
                 ],
                 body_twins=[("everything-loaded", "dict_writes(mapping) == 1")])},
             ensures=[
                 ("errors-returned", "(result[1] is not None) == (len(final('errors')) > 0)"),
                 ("errors-are-the-collected-ones", "implies(result[1] is not None, result[1] is final('errors'))"),
                 ("mapping-returned", "implies(result[0] is not None, result[0] is final('mapping'))"),
                 ("errors-non-empty", "implies(result[1] is not None, len(result[1]) > 0)"),
                 ("errors-usable-as-report-entries",
                  "implies(result[1] is not None, forall(0, len(result[1]), lambda k: entry_ok(result[1][k])))"),
             ],
             twins=[("never-fails", "result[1] is None")],
             replay="native.c25:replay_read"),
    Native("read_from_directory on real trees (bounded stand-in for the pathlib model)", ["C25"],
           "native.c25:bounded", kind="bounded",
           bound="all sub-sets of size <= 2 (thorough: <= 3) of 12 representative entries: hidden files/dirs, nested "
                 "dirs, invalid keys, non-UTF-8, a name ending in a line break, surrounding whitespace",
           args={"max_size": 2}, thorough_args={"max_size": 3}),
]
