"""Syntactic obligations (discharged by walking the AST of /repo on every run; no solver).

* target-execute-skeleton (C03, C02): in every ``<target>/main.py:execute`` (and smoke's), each
  ``return`` of a non-zero status is preceded, in its block, by a write to stderr; ``return 0`` is
  preceded by the announcement on stdout and by no write to stderr; no other value is returned.
* report-headlines (C03): the ``message=`` of every ``write_error_report`` call is a headline
  (no trailing ':' / line break, no leading '*' / line break) as far as its literal parts decide it.
* error-messages (C03): every ``Error(node, message, ...)`` construction in the package has a message
  whose first literal piece is non-empty and does not start with '*' or a line break and whose last
  literal piece does not end with a line break  (this is the data invariant ``deep_ok`` assumed by
  ``LinenoColumner.error_message``).
"""
import ast
from typing import Any, Dict, List, Optional, Tuple

from pyvc.units import Scan

TARGETS = ["cpp", "csharp", "golang", "java", "jsonschema", "python", "typescript", "xsd"]


def _is_stderr_call(st: ast.stmt) -> bool:
    if not isinstance(st, ast.Expr) or not isinstance(st.value, ast.Call):
        return False
    f = st.value.func
    if isinstance(f, ast.Attribute) and f.attr == "write" and isinstance(f.value, ast.Name) and f.value.id == "stderr":
        return True
    name = f.attr if isinstance(f, ast.Attribute) else (f.id if isinstance(f, ast.Name) else "")
    if name == "write_error_report":
        for kw in st.value.keywords:
            if kw.arg == "stderr" and isinstance(kw.value, ast.Name) and kw.value.id == "stderr":
                return True
    return False


def _block_writes(stmts: List[ast.stmt]) -> bool:
    """Every path through the block writes to stderr."""
    for st in stmts:
        if _is_stderr_call(st):
            return True
        if isinstance(st, ast.If) and st.orelse and _block_writes(st.body) and _block_writes(st.orelse):
            return True
    return False


def _is_announcement(st: ast.stmt) -> bool:
    if not isinstance(st, ast.Expr) or not isinstance(st.value, ast.Call):
        return False
    f = st.value.func
    if not (isinstance(f, ast.Attribute) and f.attr == "write" and isinstance(f.value, ast.Name) and f.value.id == "stdout"):
        return False
    a = st.value.args[0] if st.value.args else None
    if not isinstance(a, ast.JoinedStr) or len(a.values) != 3:
        return False
    first, mid, last = a.values
    return (isinstance(first, ast.Constant) and first.value == "Code generated to: "
            and isinstance(mid, ast.FormattedValue) and ast.unparse(mid.value) in ("context.output_dir", "params.output_dir")
            and isinstance(last, ast.Constant) and last.value == "\n")


def _blocks(fn: ast.FunctionDef) -> List[List[ast.stmt]]:
    out: List[List[ast.stmt]] = []

    def rec(body: List[ast.stmt]) -> None:
        out.append(body)
        for st in body:
            for fld in ("body", "orelse", "finalbody"):
                sub = getattr(st, fld, None)
                if isinstance(sub, list) and sub and isinstance(sub[0], ast.stmt) and not isinstance(st, (ast.FunctionDef, ast.ClassDef)):
                    rec(sub)
            if isinstance(st, ast.Try):
                for h in st.handlers:
                    rec(h.body)
    rec(fn.body)
    return out


def scan_execute_skeleton(loader: Any) -> List[Dict[str, Any]]:
    res: List[Dict[str, Any]] = []
    mods = [f"aas_core_codegen.{t}.main" for t in TARGETS] + ["aas_core_codegen.smoke.main"]
    for mn in mods:
        m = loader.module(mn)
        fi = m.funcs.get("execute") if m is not None else None
        if fi is None:
            res.append({"key": f"{mn}:execute:found", "ok": False, "desc": "execute() exists", "detail": "contract-anchor-lost"})
            continue
        n_ret = 0
        is_smoke = mn.endswith("smoke.main")
        for block in _blocks(fi.node):
            for k, st in enumerate(block):
                if not isinstance(st, ast.Return):
                    continue
                n_ret += 1
                rel = st.lineno - fi.node.lineno
                before = block[:k]
                # statements since the last compound statement in this block
                tail: List[ast.stmt] = []
                for b in reversed(before):
                    tail.insert(0, b)
                val = st.value
                key = f"{mn}:execute:return@+{rel}"
                if isinstance(val, ast.Constant) and val.value == 0:
                    ann = any(_is_announcement(b) for b in tail)
                    quiet = not any(_is_stderr_call(b) for b in tail)
                    ok = (ann or is_smoke) and quiet
                    res.append({"key": key, "ok": ok, "func": fi.qualname, "line": st.lineno,
                                "desc": "return 0 is preceded by the 'Code generated to: <output dir>' line on stdout "
                                        "and by no write to stderr", "detail": None if ok else ast.unparse(st)})
                elif isinstance(val, ast.Constant) and isinstance(val.value, int) and val.value != 0:
                    ok = _block_writes(tail)
                    res.append({"key": key, "ok": ok, "func": fi.qualname, "line": st.lineno,
                                "desc": "a non-zero status is returned only after a write to stderr in the same block",
                                "detail": None if ok else f"line {st.lineno}: no stderr write before return {val.value}"})
                else:
                    res.append({"key": key, "ok": False, "func": fi.qualname, "line": st.lineno,
                                "desc": "execute returns the literal 0 or a literal non-zero status",
                                "detail": ast.unparse(st)})
        if n_ret == 0:
            res.append({"key": f"{mn}:execute:returns", "ok": False, "desc": "execute has return statements", "detail": "none"})
        # falling off the end would return None
        last = fi.node.body[-1]
        res.append({"key": f"{mn}:execute:ends-with-return", "ok": isinstance(last, ast.Return), "func": fi.qualname,
                    "line": last.lineno, "desc": "the function body ends with a return statement",
                    "detail": None if isinstance(last, ast.Return) else ast.unparse(last)[:80]})
    return res


def _const_edges(e: ast.expr) -> Tuple[Optional[str], Optional[str], bool]:
    """(literal prefix, literal suffix, fully_literal) of a string expression; None = not literal."""
    if isinstance(e, ast.Constant) and isinstance(e.value, str):
        return e.value, e.value, True
    if isinstance(e, ast.JoinedStr):
        vals = e.values
        if not vals:
            return "", "", True
        first = vals[0].value if isinstance(vals[0], ast.Constant) else None
        last = vals[-1].value if isinstance(vals[-1], ast.Constant) else None
        return first, last, all(isinstance(v, ast.Constant) for v in vals)
    if isinstance(e, ast.BinOp) and isinstance(e.op, ast.Add):
        a = _const_edges(e.left)
        b = _const_edges(e.right)
        return a[0], b[1], a[2] and b[2]
    return None, None, False


_ONE_SHOT_CALLS = ("map", "filter", "iter", "reversed", "zip", "enumerate", "chain")


def _one_shot_reason(e: Optional[ast.expr], tree: ast.AST) -> Optional[str]:
    """Why ``e`` may be a one-shot iterator (None: it is a list / tuple / name bound only to such)."""
    if e is None:
        return "no entries argument"
    if isinstance(e, ast.GeneratorExp):
        return "a generator expression is exhausted by the first iteration"
    if isinstance(e, ast.Call):
        f = e.func
        name = f.attr if isinstance(f, ast.Attribute) else (f.id if isinstance(f, ast.Name) else "")
        if name in _ONE_SHOT_CALLS:
            return f"{name}(...) is a one-shot iterator"
        return None
    if isinstance(e, ast.Name):
        for n in ast.walk(tree):
            if isinstance(n, (ast.Assign, ast.AnnAssign)):
                targets = n.targets if isinstance(n, ast.Assign) else [n.target]
                if any(isinstance(t, ast.Name) and t.id == e.id for t in targets) and n.value is not None \
                        and not isinstance(n.value, ast.Name):
                    why = _one_shot_reason(n.value, tree)
                    if why is not None:
                        return f"{e.id} is bound (line {n.lineno}) to a one-shot iterator: {why}"
    return None


def scan_report_headlines(loader: Any) -> List[Dict[str, Any]]:
    import pathlib
    res: List[Dict[str, Any]] = []
    root = loader.repo / "aas_core_codegen"
    for p in sorted(root.rglob("*.py")):
        rel = p.relative_to(loader.repo)
        try:
            tree = ast.parse(p.read_text(encoding="utf-8"))
        except SyntaxError:
            continue
        n = 0
        for node in ast.walk(tree):
            if not isinstance(node, ast.Call):
                continue
            f = node.func
            name = f.attr if isinstance(f, ast.Attribute) else (f.id if isinstance(f, ast.Name) else "")
            if name != "write_error_report":
                continue
            msg = next((kw.value for kw in node.keywords if kw.arg == "message"), node.args[0] if node.args else None)
            if msg is None:
                continue
            n += 1
            # the entries are iterated twice (by the @require of write_error_report and by its body): they have to
            # be a re-iterable sequence, never a one-shot iterator
            ent = next((kw.value for kw in node.keywords if kw.arg == "errors"),
                       node.args[1] if len(node.args) > 1 else None)
            one_shot = _one_shot_reason(ent, tree)
            res.append({"key": f"{rel}:write_error_report#{n}:entries-are-a-sequence", "ok": one_shot is None,
                        "line": node.lineno, "func": str(rel),
                        "desc": "the entries passed to write_error_report are a re-iterable sequence (no entry is "
                                "dropped by iterating them twice)",
                        "detail": None if one_shot is None else f"line {node.lineno}: {one_shot}"})
            first, last, full = _const_edges(msg)
            key = f"{rel}:write_error_report#{n}:headline"
            problems = []
            if first is None:
                problems.append("starts with a formatted value")
            elif first.startswith("\n") or first.startswith("*") or first == "":
                problems.append("bad start")
            if last is not None and (last.endswith(":") or last.endswith("\n")):
                problems.append("ends with ':' or a line break")
            ok = not problems
            desc = "the report headline is a non-empty line without trailing ':'"
            res.append({"key": key, "ok": ok, "line": node.lineno, "func": str(rel), "desc": desc,
                        "detail": None if ok else f"line {node.lineno}: {'; '.join(problems)}"})
            if last is None:
                # ends with a formatted value: decided only under an assumption on that value
                tailv = msg.values[-1] if isinstance(msg, ast.JoinedStr) else None
                what = ast.unparse(tailv.value) if isinstance(tailv, ast.FormattedValue) else "?"
                allowed = ("context.model_path", "model_path", "pth", "pth.parent")
                res.append({"key": f"{rel}:write_error_report#{n}:headline-tail[{what}]", "ok": what in allowed,
                            "line": node.lineno, "func": str(rel),
                            "desc": "the headline ends with a path taken from the command line (model path / output "
                                    "path); ASSUMED not to end in ':' or a line break -- recorded finding when it does",
                            "detail": None if what in allowed else f"line {node.lineno}: ends with {{{what}}}"})
    return res


def scan_error_messages(loader: Any) -> List[Dict[str, Any]]:
    res: List[Dict[str, Any]] = []
    root = loader.repo / "aas_core_codegen"
    for p in sorted(root.rglob("*.py")):
        rel = p.relative_to(loader.repo)
        try:
            tree = ast.parse(p.read_text(encoding="utf-8"))
        except SyntaxError:
            continue
        n = 0
        for node in ast.walk(tree):
            if not (isinstance(node, ast.Call) and isinstance(node.func, ast.Name) and node.func.id == "Error"):
                continue
            msg = None
            if len(node.args) >= 2:
                msg = node.args[1]
            for kw in node.keywords:
                if kw.arg == "message":
                    msg = kw.value
            if msg is None:
                continue
            n += 1
            first, last, full = _const_edges(msg)
            key = f"{rel}:Error#{n}"
            if first is None and last is None and not isinstance(msg, (ast.JoinedStr, ast.Constant, ast.BinOp)):
                # a variable / call: cannot be decided syntactically
                res.append({"key": key + ":opaque", "ok": True, "line": node.lineno, "func": str(rel),
                            "desc": "message is not a literal (assumed to be a report entry)", "detail": ast.unparse(msg)[:60]})
                continue
            problems = []
            if first is not None and (first == "" or first[0] in "*\n"):
                problems.append(f"starts with {first[:1]!r}")
            if last is not None and last.endswith("\n"):
                problems.append("ends with a line break")
            ok = not problems
            res.append({"key": key, "ok": ok, "line": node.lineno, "func": str(rel),
                        "desc": "Error message can be used as a report entry (non-empty literal start, no leading "
                                "'*'/line break, no trailing line break)",
                        "detail": None if ok else f"line {node.lineno}: {'; '.join(problems)}"})
    return res


def _parents(tree: ast.AST) -> Dict[int, ast.AST]:
    out: Dict[int, ast.AST] = {}
    for n in ast.walk(tree):
        for c in ast.iter_child_nodes(n):
            out[id(c)] = n
    return out


ENUMERATORS = {"glob", "rglob", "iterdir", "listdir", "scandir", "walk"}


def scan_unordered_sources(loader: Any) -> List[Dict[str, Any]]:
    """C22: order-sensitive sinks.  (1) every enumeration of the file system is consumed through
    ``sorted(...)``; (2) no ``set`` / ``frozenset`` / set display / set comprehension is converted to text
    (f-string, str(), repr(), join, format) without ``sorted(...)``; (3) set-typed expressions (displays, comprehensions,
    set()/frozenset(), names and attributes ending in ``_set``, results of difference/union/intersection and of the
    set operators on them) are not iterated by a ``for`` statement or by a comprehension, unless the comprehension
    feeds an order-insensitive consumer (all, any, set, frozenset, sorted, sum, min, max, len, a set comprehension)."""
    res: List[Dict[str, Any]] = []
    root = loader.repo / "aas_core_codegen"
    for p in sorted(root.rglob("*.py")):
        rel = str(p.relative_to(loader.repo))
        try:
            tree = ast.parse(p.read_text(encoding="utf-8"))
        except SyntaxError:
            continue
        par = _parents(tree)
        n_enum = n_fmt = 0

        def is_sorted_wrapped(node: ast.AST) -> bool:
            q = par.get(id(node))
            hops = 0
            while q is not None and hops < 3:
                if isinstance(q, ast.Call) and isinstance(q.func, ast.Name) and q.func.id in ("sorted", "len", "bool"):
                    return True
                if isinstance(q, (ast.stmt,)):
                    return False
                q = par.get(id(q))
                hops += 1
            return False

        def is_set_expr(e: ast.AST) -> bool:
            if isinstance(e, (ast.Set, ast.SetComp)):
                return True
            if isinstance(e, ast.Call) and isinstance(e.func, ast.Name) and e.func.id in ("set", "frozenset"):
                return True
            if isinstance(e, ast.Name) and e.id.endswith("_set") and not e.id.endswith("_id_set"):
                return True
            if isinstance(e, ast.Attribute) and e.attr.endswith("_set") and not e.attr.endswith("_id_set"):
                return True
            if isinstance(e, ast.Call) and isinstance(e.func, ast.Attribute) and e.func.attr in (
                    "difference", "union", "intersection", "symmetric_difference"):
                return True
            if isinstance(e, ast.BinOp) and isinstance(e.op, (ast.BitOr, ast.BitAnd, ast.Sub, ast.BitXor)) and (
                    is_set_expr(e.left) or is_set_expr(e.right)):
                return True
            return False

        def order_insensitive_consumer(comp: ast.AST) -> bool:
            """The comprehension feeds all/any/set/sorted/...: hash order cannot reach the output."""
            if isinstance(comp, ast.SetComp):
                return True
            q = par.get(id(comp))
            return isinstance(q, ast.Call) and isinstance(q.func, ast.Name) and q.func.id in (
                "all", "any", "set", "frozenset", "sorted", "sum", "min", "max", "len")

        for node in ast.walk(tree):
            if isinstance(node, ast.Call) and isinstance(node.func, ast.Attribute) and node.func.attr in ENUMERATORS:
                base = node.func.value
                if node.func.attr == "walk" and not (isinstance(base, ast.Name) and base.id == "os"):
                    continue
                if node.func.attr in ("glob",) and isinstance(base, ast.Name) and base.id in ("glob",):
                    pass
                n_enum += 1
                ok = is_sorted_wrapped(node)
                res.append({"key": f"{rel}:enumeration#{n_enum}:sorted", "ok": ok, "line": node.lineno, "func": rel,
                            "desc": f"the result of .{node.func.attr}(...) is consumed through sorted(...)",
                            "detail": None if ok else f"line {node.lineno}: {ast.unparse(node)[:80]}"})
                # the order has to be total: distinct paths never tie.  A ``key=`` may only project with injective
                # operations (attribute access, as_posix, str, tuples); lower()/len()/slicing/... make ties, and a
                # tie is broken by the order of the enumeration again (sorted() is stable)
                q = par.get(id(node))
                hops = 0
                while q is not None and hops < 3 and not (
                        isinstance(q, ast.Call) and isinstance(q.func, ast.Name) and q.func.id == "sorted"):
                    q = par.get(id(q))
                    hops += 1
                if isinstance(q, ast.Call) and isinstance(q.func, ast.Name) and q.func.id == "sorted":
                    keyarg = next((kw.value for kw in q.keywords if kw.arg == "key"), None)
                    lossy = None
                    if keyarg is not None:
                        for sub in ast.walk(keyarg):
                            if isinstance(sub, ast.Call):
                                f = sub.func
                                nm = f.attr if isinstance(f, ast.Attribute) else (f.id if isinstance(f, ast.Name) else "?")
                                if nm not in ("as_posix", "str", "relative_to", "tuple", "resolve", "absolute"):
                                    lossy = f"{nm}(...)"
                            elif isinstance(sub, ast.Subscript) or isinstance(sub, ast.Attribute) and sub.attr in (
                                    "name", "stem", "suffix", "parent"):
                                lossy = ast.unparse(sub)[:40]
                    res.append({"key": f"{rel}:enumeration#{n_enum}:total-order", "ok": lossy is None,
                                "line": node.lineno, "func": rel,
                                "desc": "the sort order over the enumerated paths is total (no key that lets distinct "
                                        "paths tie)",
                                "detail": None if lossy is None else f"line {q.lineno}: the key uses {lossy}"})
            sinks: List[ast.AST] = []
            if isinstance(node, ast.FormattedValue):
                sinks.append(node.value)
            elif isinstance(node, ast.Call) and isinstance(node.func, ast.Name) and node.func.id in ("str", "repr") and node.args:
                sinks.append(node.args[0])
            elif isinstance(node, ast.Call) and isinstance(node.func, ast.Attribute) and node.func.attr in ("join", "format"):
                sinks.extend(node.args)
            elif isinstance(node, ast.For):
                if is_set_expr(node.iter):
                    sinks.append(node.iter)
            elif isinstance(node, (ast.ListComp, ast.GeneratorExp, ast.DictComp, ast.SetComp)):
                if not order_insensitive_consumer(node):
                    sinks.extend(g.iter for g in node.generators)
            for sk in sinks:
                if is_set_expr(sk):
                    n_fmt += 1
                    res.append({"key": f"{rel}:set-to-text#{n_fmt}", "ok": False, "line": getattr(sk, "lineno", 0),
                                "func": rel, "desc": "a set is never rendered / iterated in hash order",
                                "detail": f"line {getattr(sk, 'lineno', 0)}: {ast.unparse(sk)[:80]}"})
        res.append({"key": f"{rel}:no-set-rendered-in-hash-order", "ok": True, "func": rel, "line": 0,
                    "desc": "no set-typed expression flows into text or a for statement without sorted(...)"})
    return res


from pyvc.units import Native  # noqa: E402

UNITS = [
    Scan("unordered-sources", ["C22"], scan_unordered_sources),
    Native("same output under different hash seeds (bounded)", ["C22"], "native.c22:bounded", kind="bounded",
           bound="4 runs (3 valid models on jsonschema/xsd/python + 1 rejected model) x PYTHONHASHSEED in {0,1,2} "
                 "(thorough: 0..5): exit status, stdout, stderr and every output file compared",
           args={"seeds": ["0", "1", "2"]}, thorough_args={"seeds": ["0", "1", "2", "3", "4", "5"]}, timeout_s=1500),
    Scan("target-execute-skeleton", ["C03", "C02", "C28"], scan_execute_skeleton),
    Scan("report-headlines", ["C03", "C02"], scan_report_headlines),
    Scan("error-messages", ["C03", "C01"], scan_error_messages),
]


# ---------------------------------------------------------------------------------------------------------------
# C04: the node of an ``Error(node, message)`` has to be the offending construct.  Which construct is "offending" is
# not decidable syntactically; one robust symptom of a wrong node is: the node expression reads a for-loop variable
# outside every loop that binds it (a leaked loop variable: it then refers to the last element of an earlier loop).

def _plain_targets(t: ast.AST) -> List[str]:
    if isinstance(t, ast.Name):
        return [t.id]
    if isinstance(t, (ast.Tuple, ast.List)):
        out: List[str] = []
        for e in t.elts:
            out.extend(_plain_targets(e))
        return out
    if isinstance(t, ast.Starred):
        return _plain_targets(t.value)
    return []


def _root_name(e: ast.AST) -> Optional[str]:
    while isinstance(e, (ast.Attribute, ast.Subscript, ast.Call)):
        e = e.value if not isinstance(e, ast.Call) else e.func
    return e.id if isinstance(e, ast.Name) else None


def scan_error_locations(loader: Any) -> List[Dict[str, Any]]:
    res: List[Dict[str, Any]] = []
    root = loader.repo / "aas_core_codegen"
    for p in sorted(root.rglob("*.py")):
        rel = str(p.relative_to(loader.repo))
        try:
            tree = ast.parse(p.read_text(encoding="utf-8"))
        except SyntaxError:
            continue
        n_err = 0
        for fn in ast.walk(tree):
            if not isinstance(fn, ast.FunctionDef):
                continue
            fors = [n for n in ast.walk(fn) if isinstance(n, ast.For)]
            bound_otherwise = {a.arg for a in fn.args.args + fn.args.kwonlyargs}
            for n in ast.walk(fn):
                if isinstance(n, (ast.Assign, ast.AnnAssign, ast.AugAssign)):
                    for t in (n.targets if isinstance(n, ast.Assign) else [n.target]):
                        bound_otherwise.update(_plain_targets(t))
                elif isinstance(n, ast.With):
                    for it in n.items:
                        if it.optional_vars is not None:
                            bound_otherwise.update(_plain_targets(it.optional_vars))
                elif isinstance(n, ast.NamedExpr):
                    bound_otherwise.update(_plain_targets(n.target))
            for n in ast.walk(fn):
                if not (isinstance(n, ast.Call) and isinstance(n.func, ast.Name) and n.func.id == "Error" and n.args):
                    continue
                r = _root_name(n.args[0])
                if r is None or r in bound_otherwise:
                    continue
                loops = [f for f in fors if r in _plain_targets(f.target)]
                if not loops:
                    continue
                n_err += 1
                inside = any(any(n is y for y in ast.walk(f)) for f in loops)
                res.append({"key": f"{rel}:{fn.name}:Error@{r}#{n_err}:location-bound-by-an-enclosing-loop", "ok": inside,
                            "line": n.lineno, "func": rel,
                            "desc": "the node of the error is read from a loop variable only inside a loop that binds it "
                                    "(not a leaked variable of an earlier loop)",
                            "detail": None if inside else f"line {n.lineno}: Error({ast.unparse(n.args[0])}, ...) reads "
                                                          f"the variable {r!r} of a loop that has already ended"})
    return res


UNITS.append(Scan("error-locations", ["C04"], scan_error_locations))


# ---------------------------------------------------------------------------------------------------------------
# C19 at the call sites: a literal body emitted *without* its enclosing quotes is only correct for the quotes that
# the caller then writes around it.  TypeScript: such bodies go between backticks (template literals for f-strings
# and patterns) and need the backtick escaping; Python: the caller fixes the quoting it will write.

def scan_literal_call_sites(loader: Any) -> List[Dict[str, Any]]:
    res: List[Dict[str, Any]] = []
    root = loader.repo / "aas_core_codegen"
    for target, needed in (("typescript", "in_backticks"), ("python", "quoting")):
        n_site = 0
        for p in sorted((root / target).rglob("*.py")):
            rel = str(p.relative_to(loader.repo))
            try:
                tree = ast.parse(p.read_text(encoding="utf-8"))
            except SyntaxError:
                continue
            for n in ast.walk(tree):
                if not (isinstance(n, ast.Call) and isinstance(n.func, (ast.Attribute, ast.Name))):
                    continue
                name = n.func.attr if isinstance(n.func, ast.Attribute) else n.func.id
                if name != "string_literal":
                    continue
                kws = {kw.arg: kw.value for kw in n.keywords}
                we = kws.get("without_enclosing")
                if not (isinstance(we, ast.Constant) and we.value is True):
                    continue
                n_site += 1
                val = kws.get(needed)
                if needed == "in_backticks":
                    ok = isinstance(val, ast.Constant) and val.value is True
                else:
                    ok = val is not None and not (isinstance(val, ast.Constant) and val.value is None)
                res.append({"key": f"{rel}:string_literal#{n_site}:escaping-matches-the-enclosing-written-by-the-caller",
                            "ok": ok, "line": n.lineno, "func": rel,
                            "desc": f"a {target} literal body emitted without enclosing quotes is escaped for the "
                                    f"quotes the caller writes around it ({needed} is given)",
                            "detail": None if ok else f"line {n.lineno}: {ast.unparse(n)[:100]}"})
    return res


UNITS.append(Scan("literal-call-sites", ["C19"], scan_literal_call_sites))

UNITS.append(Native(
    "all eight targets give the same output under different hash seeds", ["C22"], "native.c22:all_targets", kind="bounded",
    bound="three meta-models: two with inheritance, enumerations, constrained primitives, patterns, constant sets and "
          "invariants (the second one without the C++ and Java targets, which do not support its list of primitives), one "
          "with a child adding three patterns to a property on which its parent imposes one x 8 targets "
          "x PYTHONHASHSEED in {0, 1, 12345}: exit status, stdout, stderr and every output file compared",
    args={}, timeout_s=1500))
