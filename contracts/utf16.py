"""C17 (and the C02 crash obligations of parse/retree/_fix.py): rewriting of patterns for UTF-16 engines.

``c`` is the skolemised "for all code points" (scalar values).  Term shapes are built with symbolic
characters: a character set with one range, with a single character, and with two ranges (so that the
BMP part and an astral part interact); literals with and without quantifier.  The induction over whole
patterns (concatenation / union / groups are mapped homomorphically by ``visit_concatenation``) is the
meta-argument in DESIGN.md §5 C17.
"""
import z3

from pyvc.contract import Contract
from pyvc.values import VInt

FIX = "aas_core_codegen.parse.retree._fix"
S = ["specs.utf16"]
SCALAR = "0 <= {0} <= 0x10FFFF and not (0xD800 <= {0} <= 0xDFFF)"


def term_builder(expr, ints):
    def build(it, fr):
        for nm in ints:
            v = z3.Int(nm)
            fr.env[nm] = VInt(v)
            it.path.model_terms.append((nm, v))
            it.path.add_fact(z3.And(v >= 0, v <= 0x10FFFF, z3.Or(v < 0xD800, v > 0xDFFF)))
        q = it.mk_sym("Optional[retree_types.Quantifier]", fr.module, "quantifier")
        fr.env["Q"] = q
        it.register_model_terms("quantifier", q)
        return it.eval_spec(expr, fr)
    return build


def charset(comp, ranges):
    rs = ", ".join(
        f"retree_types.Range(start=retree_types.Char(character=chr({s})), end="
        + (f"retree_types.Char(character=chr({e}))" if e else "None") + ")" for s, e in ranges)
    return f"retree_types.Term(value=retree_types.CharSet(complementing={comp}, ranges=[{rs}]), quantifier=Q)"


POST = [("same-language-on-utf16",
         "set_admits(term.value, c) == terms_match_units(result, units(c))"),
        ("quantifier-kept", "len(result) == 1 and result[0].quantifier is term.quantifier")]
TWIN = [("off-by-one-unit", "set_admits(term.value, c) == terms_match_units(result, units(c + 1))")]

UNITS = [
    Contract(f"{FIX}:_FixForUTF16Regex._convert_to_surrogates", ["C17", "C11"], specs=S,
             ensures=[("pair-decodes-to-the-code-point", "decode_pair(result[0], result[1]) == code"),
                      ("is-the-utf16-pair", "result[0] == hi(code) and result[1] == lo(code)")],
             twins=[("swapped", "decode_pair(result[1], result[0]) == code")]),

    # one range s-e (s <= e), not complementing
    Contract(f"{FIX}:_FixForUTF16Regex._expand_char_set_to_surrogates_if_necessary", ["C17", "C02", "C11"], specs=S,
             name="expand_char_set[one range]", ghost={"c": "int"},
             args={"term": term_builder(charset("False", [("s0", "e0")]), ["s0", "e0"])},
             requires=[SCALAR.format("c"), "s0 <= e0"],
             ensures=POST, twins=TWIN, use_as_callee=False, inline=[f"{FIX}:_FixForUTF16Regex._convert_to_surrogates"],
             replay="native.c17:replay_charset"),
    # a single character
    Contract(f"{FIX}:_FixForUTF16Regex._expand_char_set_to_surrogates_if_necessary", ["C17", "C02", "C11"], specs=S,
             name="expand_char_set[single character]", ghost={"c": "int"},
             args={"term": term_builder(charset("False", [("s0", None)]), ["s0"])},
             requires=[SCALAR.format("c")],
             ensures=POST, twins=TWIN, use_as_callee=False, inline=[f"{FIX}:_FixForUTF16Regex._convert_to_surrogates"],
             replay="native.c17:replay_charset"),
    # two ranges
    Contract(f"{FIX}:_FixForUTF16Regex._expand_char_set_to_surrogates_if_necessary", ["C17", "C02", "C11"], specs=S,
             name="expand_char_set[two ranges]", ghost={"c": "int"},
             args={"term": term_builder(charset("False", [("s0", "e0"), ("s1", "e1")]), ["s0", "e0", "s1", "e1"])},
             requires=[SCALAR.format("c"), "s0 <= e0", "s1 <= e1"],
             ensures=POST, twins=TWIN, use_as_callee=False, inline=[f"{FIX}:_FixForUTF16Regex._convert_to_surrogates"],
             replay="native.c17:replay_charset", max_paths=20000),
    # complementing sets: recorded finding (one astral character is two units for a UTF-16 engine)
    Contract(f"{FIX}:_FixForUTF16Regex._expand_char_set_to_surrogates_if_necessary", ["C17", "C02", "C11"], specs=S,
             name="expand_char_set[complementing]", ghost={"c": "int"},
             args={"term": term_builder(charset("True", [("s0", "e0")]), ["s0", "e0"])},
             # the regex parser rejects complementing sets with characters above the BMP (C16 lemma)
             requires=[SCALAR.format("c"), "s0 <= e0", "e0 < 0x10000"],
             ensures=POST, twins=TWIN, use_as_callee=False, inline=[f"{FIX}:_FixForUTF16Regex._convert_to_surrogates"],
             replay="native.c17:replay_charset"),

    # character literals
    Contract(f"{FIX}:_FixForUTF16Regex._character_literal_to_surrogates_if_necessary", ["C17", "C02", "C11"], specs=S,
             name="character_literal", ghost={"c": "int"},
             args={"term": term_builder("retree_types.Term(value=retree_types.Char(character=chr(s0)), quantifier=Q)",
                                        ["s0"])},
             requires=[SCALAR.format("c")],
             ensures=[("same-language-on-utf16", "(s0 == c) == terms_match_units(result, units(c))"),
                      ("quantifier-applies-to-the-whole-pair",
                       "implies(term.quantifier is not None, len(result) == 1 and result[0].quantifier is term.quantifier)")],
             twins=[("matches-next-code-point", "(s0 == c) == terms_match_units(result, units(c + 1))")],
             use_as_callee=False, inline=[f"{FIX}:_FixForUTF16Regex._convert_to_surrogates"],
             replay="native.c17:replay_literal"),
]

# the language postconditions belong to C17 only; for C02 these units contribute their crash obligations
for _u in UNITS:
    if "C02" in _u.props:
        _u.ensures_only_for = ["C17", "C11"]  # C11: the JSON schema patterns are these rewritings (anchor parse/retree/_fix.py)
