"""C01 (and parts of C06): functions of the meta-model front end (parse/_translate.py) over Python ``ast``
nodes.  Nodes are opaque objects (contracts/_ext.py): the proof holds for every shape of the syntax tree.
Crash obligations: subscripts, unpacking, asserts, reachable raises, call-site preconditions.
"""
from pyvc.contract import Contract, Loop

PT = "aas_core_codegen.parse._translate"

UNITS = [
    Contract(f"{PT}:_ast_constant_string_to_description", ["C01"],
             ensures=[("exactly-one", "(result[0] is None) != (result[1] is None)")],
             assumed=True, justification="docutils based; its body is outside the verifier's reach"),

    Contract(f"{PT}:_parse_constant_set", ["C01"],
             loops={1: Loop(invariants=[("nothing", "True")]),
                    2: Loop(invariants=[("nothing", "True")]),
                    3: Loop(invariants=[("nothing", "True")])},
             ensures=[("exactly-one", "(result[0] is None) != (result[1] is None)")],
             twins=[("never-an-error", "result[1] is None")],
             use_as_callee=False, replay="native.c01:replay_constant_set"),
]
