"""C01 (and parts of C06): functions of the meta-model front end (parse/_translate.py) over Python ``ast``
nodes.  Nodes are opaque objects (contracts/_ext.py): the proof holds for every shape of the syntax tree.
Crash obligations: subscripts, unpacking, asserts, reachable raises, call-site preconditions.
"""
from pyvc.contract import Contract, Loop

PT = "aas_core_codegen.parse._translate"

UNITS = [
    Contract(f"{PT}:_ast_constant_string_to_description", ["C01"],
             ensures=[("exactly-one", "(result[0] is None) != (result[1] is None)")],
             assumed=True, justification="docutils based; its body is outside the verifier's reach"),

    Contract(f"{PT}:_parse_constant_set", ["C01"],
             loops={1: Loop(invariants=[("nothing", "True")]),
                    2: Loop(invariants=[("nothing", "True")]),
                    3: Loop(invariants=[("nothing", "True")])},
             ensures=[("exactly-one", "(result[0] is None) != (result[1] is None)")],
             twins=[("never-an-error", "result[1] is None")],
             use_as_callee=False, replay="native.c01:replay_constant_set"),

    # C01: no IndexError / assertion while looking at the parsed pattern; C06: a pattern function that passes
    # without an error is non-empty and anchored (one alternative, '^' first and '$' last)
    Contract("aas_core_codegen.intermediate._translate:_verify_patterns_anchored_at_start_and_end", ["C01", "C06"],
             loops={1: Loop(invariants=[("nothing", "True")],
                            body_ensures=[
                                ("accepted-pattern-is-anchored",
                                 "implies(appended_count(errors) == 0 and is_kind(verification, PatternVerification), "
                                 "len(regex.union.uniates) == 1 and len(regex.union.uniates[0].concatenants) >= 1 "
                                 "and is_kind(regex.union.uniates[0].concatenants[0].value, parse_retree.Symbol) "
                                 "and regex.union.uniates[0].concatenants[0].value.kind is parse_retree.SymbolKind.START "
                                 "and is_kind(regex.union.uniates[0].concatenants[-1].value, parse_retree.Symbol) "
                                 "and regex.union.uniates[0].concatenants[-1].value.kind is parse_retree.SymbolKind.END)")],
                            body_twins=[("every-pattern-is-reported", "appended_count(errors) == 1")])},
             opaque=["aas_core_codegen.parse.retree._parse:render_pointer"],
             use_as_callee=False, replay="native.c01:replay_pattern_function"),
]
UNITS[-1].assume_preconditions = ["aas_core_codegen.parse.retree._parse:render_pointer"]
UNITS[-1].assume_preconditions_why = ("the cursor of the returned error is the parser's own cursor over the one-element "
                                      "list [verification.pattern]; the contract of parse() does not carry that identity")

# C06, rule "names of our types are unique": the whole rule function, for every list of types
NAMES = "symbol_table.our_types"
UNITS.append(Contract(
    "aas_core_codegen.intermediate._translate:_verify_there_are_no_duplicate_names_of_our_types", ["C06"],
    ghost={"gi": "int", "gj": "int"},
    loops={1: Loop(
        invariants=[("recorded", f"forall(0, _i, lambda k: {NAMES}[k].name in observed_names)"),
                    ("distinct-while-no-error",
                     f"implies(len(errors) == 0 and 0 <= gi and gi < gj and gj < _i, {NAMES}[gi].name != {NAMES}[gj].name)")],
        body_ensures=[("every-name-reported-or-recorded", "appended_count(errors) + dict_writes(observed_names) == 1")],
        body_twins=[("nothing-happens", "appended_count(errors) + dict_writes(observed_names) == 0")])},
    ensures=[("no-error-means-distinct-names",
              f"implies(len(result) == 0 and 0 <= gi and gi < gj and gj < len({NAMES}), "
              f"{NAMES}[gi].name != {NAMES}[gj].name)")],
    twins=[("never-reports", "len(result) == 0")],
    use_as_callee=False))

# C06, rule "optional constructor arguments default to None": per argument (body lemma of the inner loop)
UNITS.append(Contract(
    "aas_core_codegen.intermediate._translate:_verify_optional_constructor_arguments_default_to_none", ["C06"],
    loops={1: Loop(),
           2: Loop(body_ensures=[
               ("an-optional-argument-passes-only-with-the-default-None",
                "implies(is_kind(arg.type_annotation, OptionalTypeAnnotation) and appended_count(errors) == 0, "
                "arg.default is not None and is_kind(arg.default, DefaultPrimitive) and arg.default.value is None)"),
               ("at-most-one-error-per-argument", "appended_count(errors) <= 1"),
               ("the-default-None-is-accepted",
                "implies(arg.default is not None and is_kind(arg.default, DefaultPrimitive) and arg.default.value is None, "
                "appended_count(errors) == 0)")],
               body_twins=[("every-argument-is-reported", "appended_count(errors) == 1")])},
    ensures=[("returns-the-collected-errors", "result is final('errors')")],
    use_as_callee=False))

# C06, rule "invariant descriptions are unique within a type": per invariant, the description is reported as
# conflicting or recorded (body lemma of the inner loop; the map is created anew for every type)
UNITS.append(Contract(
    "aas_core_codegen.intermediate._translate:_verify_invariant_descriptions_unique", ["C06"],
    loops={1: Loop(),
           2: Loop(body_ensures=[("every-description-reported-or-recorded",
                                  "appended_count(errors) + dict_writes(description_map) == 1")],
                   body_twins=[("nothing-happens", "appended_count(errors) + dict_writes(description_map) == 0")])},
    ensures=[("returns-the-collected-errors", "result is final('errors')")],
    use_as_callee=False))

# C05 / C06, rule "with_model_type is set wherever a class with concrete descendants is used as a property type": per
# concrete descendant, an unset flag is reported
UNITS.append(Contract(
    "aas_core_codegen.intermediate._translate:_verify_with_model_type_for_classes_with_at_least_one_concrete_descendant",
    ["C06", "C05"],
    loops={1: Loop(), 2: Loop(),
           3: Loop(body_ensures=[("a-descendant-without-the-flag-is-reported",
                                  "appended_count(errors) == (0 if descendant.serialization.with_model_type else 1)")],
                   body_twins=[("always-reported", "appended_count(errors) == 1")])},
    ensures=[("returns-the-collected-errors", "result is final('errors')")],
    opaque=["aas_core_codegen.intermediate._types:collect_ids_of_our_types_in_properties"],
    use_as_callee=False))
