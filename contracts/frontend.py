"""C01 (and parts of C06): functions of the meta-model front end (parse/_translate.py) over Python ``ast``
nodes.  Nodes are opaque objects (contracts/_ext.py): the proof holds for every shape of the syntax tree.
Crash obligations: subscripts, unpacking, asserts, reachable raises, call-site preconditions.
"""
from pyvc.contract import Contract, Loop

PT = "aas_core_codegen.parse._translate"

UNITS = [
    Contract(f"{PT}:_ast_constant_string_to_description", ["C01"],
             ensures=[("exactly-one", "(result[0] is None) != (result[1] is None)")],
             assumed=True, justification="docutils based; its body is outside the verifier's reach"),

    Contract(f"{PT}:_parse_constant_set", ["C01"],
             loops={1: Loop(invariants=[("nothing", "True")]),
                    2: Loop(invariants=[("nothing", "True")]),
                    3: Loop(invariants=[("nothing", "True")])},
             ensures=[("exactly-one", "(result[0] is None) != (result[1] is None)")],
             twins=[("never-an-error", "result[1] is None")],
             use_as_callee=False, replay="native.c01:replay_constant_set"),

    # C01: no IndexError / assertion while looking at the parsed pattern; C06: a pattern function that passes
    # without an error is non-empty and anchored (one alternative, '^' first and '$' last)
    Contract("aas_core_codegen.intermediate._translate:_verify_patterns_anchored_at_start_and_end", ["C01", "C06"],
             loops={1: Loop(invariants=[("nothing", "True")],
                            body_ensures=[
                                ("accepted-pattern-is-anchored",
                                 "implies(appended_count(errors) == 0 and is_kind(verification, PatternVerification), "
                                 "len(regex.union.uniates) == 1 and len(regex.union.uniates[0].concatenants) >= 1 "
                                 "and is_kind(regex.union.uniates[0].concatenants[0].value, parse_retree.Symbol) "
                                 "and regex.union.uniates[0].concatenants[0].value.kind is parse_retree.SymbolKind.START "
                                 "and is_kind(regex.union.uniates[0].concatenants[-1].value, parse_retree.Symbol) "
                                 "and regex.union.uniates[0].concatenants[-1].value.kind is parse_retree.SymbolKind.END)")],
                            body_twins=[("every-pattern-is-reported", "appended_count(errors) == 1")])},
             opaque=["aas_core_codegen.parse.retree._parse:render_pointer"],
             use_as_callee=False, replay="native.c01:replay_pattern_function"),
]
UNITS[-1].assume_preconditions = ["aas_core_codegen.parse.retree._parse:render_pointer"]
UNITS[-1].assume_preconditions_why = ("the cursor of the returned error is the parser's own cursor over the one-element "
                                      "list [verification.pattern]; the contract of parse() does not carry that identity")
