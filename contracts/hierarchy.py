"""C05 (bounded stand-in only): inheritance resolution of the intermediate model.

The resolving passes (``_hierarchy._UnverifiedOntology.__init__``, ``_second_pass_to_resolve_ancestors_and_
descendants_in_place``, ``_second_pass_to_stack_*_in_place``) build lists of lists keyed by class objects and mutate
the classes of the symbol table in topological order.  Their correctness statement is a closure/inverse-relation
property over a heap of mutually referring objects; pyvc has no set/relation theory with closure and no
object-graph invariants, so no contract within its reach states it.  What stands in is exhaustive enumeration of
small DAG hierarchies through the *real* front end (native/c05.py), labelled bounded.
"""
from pyvc.units import Native

UNITS = [
    Native("all small class hierarchies through parse + translate", ["C05"], "native.c05:bounded", kind="bounded",
           bound="every DAG hierarchy of <= 3 classes (ordered base lists accepted by CPython's MRO) x every "
                 "abstract/concrete assignment x 2 naming schemes x with_model_type settings {none, roots, one class, "
                 "contradicting} x {with, without methods}; hierarchies of 4 (thorough: 4 in every variant, 5 reduced) "
                 "classes in the reduced variants {leaves concrete, all concrete} x {none, roots}; chains of "
                 "constrained primitives of depth <= 3; exhaustive within the bound",
           args={"full_upto": 3, "reduced_upto": 4}, thorough_args={"full_upto": 4, "reduced_upto": 5},
           timeout_s=3000),
]
