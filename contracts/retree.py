"""C16 / C01 / C02: the regex parser (parse/retree/_parse.py) never raises.

Patterns are modelled as one string (``values == [pattern]``; interleaved formatted values are not
covered).  The cursor is a concrete object with symbolic position; ``cursor_ok`` (specs/retree.py) is its
representation invariant.  Every function gets crash obligations (asserts, reachable raises, call-site
preconditions incl. the repository's own ``@require``s of Char/Term/Quantifier/_parse_range_char) and
keeps ``cursor_ok``.  Mutual recursion (_parse_concatenation <-> _parse_union) goes through contracts.
"""
import z3

from pyvc.contract import Contract, Loop
from pyvc.values import ConcObj, VInt, VList, VOpt, VStr

P = "aas_core_codegen.parse.retree._parse"
S = ["specs.retree"]
MOD = ["cursor._major_cursor", "cursor._minor_cursor"]
SELF_MOD = ["self._major_cursor", "self._minor_cursor"]


def cursor_builder(name="cursor"):
    def build(it, fr):
        cls = it.engine.loader.cls(f"{P}:Cursor")
        c = ConcObj(cls)
        s = VStr([z3.Const("pattern", z3.SeqSort(z3.IntSort()))])
        it.path.model_terms.append(("pattern", s.t))
        c.fields["values"] = VList([s])
        m = z3.Int(name + "._major_cursor")
        mi = z3.Int(name + "._minor_cursor")
        mn = z3.Bool(name + "._minor_cursor?none")
        it.path.add_fact(z3.Or(m == 0, m == 1))
        it.path.model_terms += [(name + "._major_cursor", m), (name + "._minor_cursor", mi),
                                (name + "._minor_cursor?none", mn)]
        c.fields["_major_cursor"] = VInt(m)
        c.fields["_minor_cursor"] = VOpt(mn, VInt(mi))
        return c
    return build


def values_builder(it, fr):
    s = VStr([z3.Const("pattern", z3.SeqSort(z3.IntSort()))])
    it.path.model_terms.append(("pattern", s.t))
    return VList([s])


KEEP = [("cursor-invariant-kept", "cursor_ok(cursor)"),
        ("cursor-never-moves-back", "pos(cursor) >= old(pos(cursor))")]
ADV = [("success-consumes-input", "implies(result[0] is not None, pos(cursor) > old(pos(cursor)))")]
INV = [("cursor-invariant", "cursor_ok(cursor)"), ("cursor-never-moves-back", "pos(cursor) >= old(pos(cursor))")]
NOT_HANDLED_BEFORE = " and ".join(f"not cursor.peek_literal({c!r})" for c in ("^", "$", "*", "+", "?", "{"))

UNITS = [
    Contract(f"{P}:Cursor.try_positive_integer_without_sign", ["C16", "C01"], specs=S,
             requires=["cursor_ok(self)"],
             ensures=[("cursor-invariant-kept", "cursor_ok(self)"), ("non-negative", "result is None or result >= 0"),
                      ("cursor-never-moves-back", "pos(self) >= old(pos(self))")],
             modifies=SELF_MOD, args={"self": cursor_builder("self")},
             loops={1: Loop(invariants=[
                 ("only-digits-accumulated", "forall(0, len(accumulator), lambda j: accumulator[j].isdecimal())"),
                 ("accumulator-within-the-value",
                  "len(accumulator) == _i")],
                 modifies=["accumulator"])},
             replay="native.c16:replay_parse"),
    Contract(f"{P}:Cursor.try_spaces_or_tabs", ["C16", "C01"], specs=S,
             args={"self": cursor_builder("self")},
             requires=["cursor_ok(self)"],
             loops={1: Loop(invariants=[("cursor-invariant", "cursor_ok(self)"),
                                        ("cursor-never-moves-back", "pos(self) >= old(pos(self))")],
                            also_modifies=SELF_MOD)},
             ensures=[("cursor-invariant-kept", "cursor_ok(self)"),
                      ("cursor-never-moves-back", "pos(self) >= old(pos(self))")], modifies=SELF_MOD,
             twins=[("always-found", "result")]),

    Contract(f"{P}:_parse_range_char", ["C16", "C01"], specs=S, args={"cursor": cursor_builder()},
             requires=["cursor_ok(cursor)"], ensures=KEEP + ADV, modifies=MOD,
             twins=[("never-an-error", "result[1] is None")], replay="native.c16:replay_parse"),

    Contract(f"{P}:_parse_char_literal", ["C16", "C01"], specs=S, args={"cursor": cursor_builder()},
             requires=["cursor_ok(cursor)",
                       ("symbols-and-quantifiers-handled-by-the-caller", NOT_HANDLED_BEFORE)],
             ensures=KEEP + ADV + [("at-most-one-result", "result[0] is None or result[1] is None")], modifies=MOD,
             twins=[("never-an-error", "result[1] is None")], replay="native.c16:replay_parse"),

    Contract(f"{P}:_parse_ranges_and_closing", ["C16", "C01"], specs=S, args={"cursor": cursor_builder()},
             requires=["cursor_ok(cursor)"],
             loops={1: Loop(invariants=INV + [("every-range-has-a-position",
                                               "forall(0, len(ranges), lambda k: ranges[k] in cursor_by_range)")],
                            also_modifies=MOD),
                    2: Loop(invariants=[("nothing", "True")])},
             ensures=KEEP + ADV, modifies=MOD,
             twins=[("never-an-error", "result[1] is None")], replay="native.c16:replay_parse"),


    Contract(f"{P}:_parse_union", ["C16", "C01"], specs=S, args={"cursor": cursor_builder()},
             requires=["cursor_ok(cursor)"],
             loops={1: Loop(invariants=INV, also_modifies=MOD)},
             ensures=KEEP, modifies=MOD,
             twins=[("never-an-error", "result[1] is None")], replay="native.c16:replay_parse"),

    Contract(f"{P}:_parse_regex", ["C16", "C01"], specs=S, args={"cursor": cursor_builder()},
             requires=["cursor_ok(cursor)"], ensures=KEEP, modifies=MOD,
             twins=[("never-an-error", "result[1] is None")], replay="native.c16:replay_parse"),

    Contract(f"{P}:parse", ["C16", "C01"], specs=S, args={"values": values_builder},
             twins=[("never-an-error", "result[1] is None")], replay="native.c16:replay_parse"),
]

# The "faithful" half of C16 (the rendering is a valid Python regex with the same language and parses back to the
# same tree) relates the parser to the renderer (a Transformer over the tree) and to the semantics of Python's
# ``re``: no contract within pyvc's reach states language equality with ``re``.  Bounded stand-in on the real code.
from pyvc.units import Native  # noqa: E402

UNITS.append(Native(
    "render(parse(p)): valid Python regex, same language, same tree again", ["C16"], "native.c16:faithful",
    kind="bounded",
    bound="every pattern of <= 1 term, and of one term followed by one atom, from 41 atoms (literals, escapes, sets "
          "with carets / dashes / brackets, groups, separators) x 16 quantifiers (greedy, non-greedy, counted, "
          "counted with blanks, malformed) + anchored variants + 44 near-misses (~28 000 patterns); language compared "
          "with re.fullmatch on every string over 'abc^-]}{ .\\\\' of length <= 2 (thorough: 3); exhaustive within "
          "the bound",
    args={"max_terms": 2, "max_len": 2}, thorough_args={"max_terms": 2, "max_len": 3}, timeout_s=3000))

# _parse_concatenation: the loop body is verified in a case split over what the cursor points at when an
# iteration starts (the cases are exhaustive: the last one is the negation of all others).  Each case is
# one unit so that the cases run in parallel; only the last case also follows the loop's exit path.
_LEADS = ["^", "$", ".", "(", "[^", "[", "*", "+", "?", "{"]
_CASES = [("end-or-bar", "cursor.done() or cursor.peek_literal('|')")]
for _l in _LEADS:
    _cond = f"not cursor.done() and cursor.peek_literal({_l!r})"
    if _l == "[":
        _cond += " and not cursor.peek_literal('[^')"
    _CASES.append((_l, _cond))
_CASES.append(("anything-else", "not cursor.done() and not cursor.peek_literal('|') and "
               + " and ".join(f"not cursor.peek_literal({_l!r})" for _l in _LEADS)))
for _k, (_name, _cond) in enumerate(_CASES):
    _lp = Loop(invariants=INV, also_modifies=MOD, elem_facts=[_cond])
    _lp.skip_exit = _name != "anything-else"
    _c = Contract(f"{P}:_parse_concatenation", ["C16", "C01", "C02"], specs=S, args={"cursor": cursor_builder()},
                  name=f"_parse_concatenation[iteration starts at {_name}]",
                  requires=["cursor_ok(cursor)"],
                  loops={1: _lp, 2: Loop(invariants=[("nothing", "True")])},
                  ensures=KEEP, modifies=MOD,
                  twins=[("never-an-error", "result[1] is None")] if _name == "anything-else" else [],
                  replay="native.c16:replay_parse", max_paths=30000)
    _c.partial = _name != "anything-else"  # no path of a partial unit needs to reach the function's end
    # the case that also covers entry + exit is the one callers see
    if _name == "anything-else":
        UNITS.insert(0, _c)
    else:
        UNITS.append(_c)
