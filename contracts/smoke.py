"""C28 (and C02/C03 for the smoke entry point): smoke/main.py.

The stages (front end, schema-constraint inference, C# type and verification generation) are called through
contracts; ``last_call(name)`` is the ghost result of the stage on the path.  ``execute`` returns 0 only if
every stage was run and reported no error, and 1 with a non-empty report otherwise.
"""
from pyvc.contract import Contract, Loop
from pyvc.units import Native

SM = "aas_core_codegen.smoke.main"
S = ["specs.report"]

ERRS = "implies(result[1] is not None, len(result[1]) > 0 and forall(0, len(result[1]), lambda k: pred('deep_ok', result[1][k])))"

UNITS = [
    Contract("aas_core_codegen.infer_for_schema._inline:infer_constraints_by_class", ["C28", "C02"], specs=S,
             ensures=[("errors-are-error-trees", ERRS)], assumed=True,
             justification="its building blocks are under contract in contracts/infer_len.py; the propagation along "
                           "the hierarchy is not (see C15)"),
    Contract("aas_core_codegen.csharp.lib._generate_types:verify", ["C28"], specs=S,
             ensures=[("errors-are-error-trees", ERRS)], assumed=True,
             justification="C# generator; the collision part is under contract in contracts/naming.py"),
    Contract("aas_core_codegen.csharp.lib._generate_types:generate", ["C28"], specs=S,
             ensures=[("exactly-one", "(result[0] is None) != (result[1] is None)"),
                      ("errors-are-error-trees", ERRS)], assumed=True,
             justification="C# generator body (string templating) is outside the verifier's reach"),
    Contract("aas_core_codegen.csharp.lib._generate_verification:generate", ["C28"], specs=S,
             ensures=[("exactly-one", "(result[0] is None) != (result[1] is None)"),
                      ("errors-are-error-trees", ERRS)], assumed=True,
             justification="C# generator body (string templating) is outside the verifier's reach"),

    Contract(f"{SM}:_smoke_transpile_to_csharp", ["C28", "C02"], specs=S,
             loops={1: Loop(invariants=[("nothing", "True")]), 2: Loop(invariants=[("nothing", "True")]),
                    3: Loop(invariants=[("nothing", "True")])},
             ensures=[
                 ("no-error-means-every-csharp-stage-succeeded",
                  "implies(len(result) == 0, last_call('_generate_types:verify')[1] is None and "
                  "last_call('_generate_types:generate')[1] is None and "
                  "last_call('_generate_verification:generate')[1] is None)"),
                 ("errors-are-error-trees", "forall(0, len(result), lambda k: pred('deep_ok', result[k]))"),
             ],
             twins=[("never-an-error", "len(result) == 0")]),

    Contract(f"{SM}:execute", ["C28", "C02", "C03"], specs=S,
             requires=[("model-path-can-end-a-headline",
                        "not str(model_path).endswith(':') and not str(model_path).endswith('\\n')")],
             ensures=[
                 ("status", "result == 0 or result == 1"),
                 ("zero-means-every-stage-succeeded",
                  "implies(result == 0, last_call('source_to_atok')[1] is None and "
                  "len(last_call('check_expected_imports')) == 0 and "
                  "last_call('atok_to_symbol_table')[1] is None and last_call('_translate:translate')[1] is None and "
                  "last_call('infer_constraints_by_class')[1] is None and "
                  "len(last_call('_smoke_transpile_to_csharp')) == 0)"),
                 ("success-is-silent", "implies(result == 0, written(stderr) == old(written(stderr)))"),
                 ("failure-reported", "implies(result != 0, len(written(stderr)) > len(old(written(stderr))))"),
             ],
             twins=[("never-fails", "result == 0")], use_as_callee=False),

    Native("recorded smoke cases", ["C28"], "native.c28:recorded", kind="examples",
           bound="the 5 recorded cases under dev/test_data/smoke: exit status 1 and stderr equal to the recorded "
                 "expectation up to the model path", args={}),
]
for _u in UNITS:
    if getattr(_u, "target", "").endswith("_smoke_transpile_to_csharp"):
        _u.assume_preconditions = ["aas_core_codegen.specific_implementations:ImplementationKey.__new__",
                                   "aas_core_codegen.csharp.common:NamespaceIdentifier.__new__"]
        _u.assume_preconditions_why = ("'Types/<Identifier>/<Identifier>.cs' matches the key pattern: needs language "
                                       "inclusion between two regular expressions, not decided by the solver")

# beyond the driver: the smoke tool against the stages it stands for, on mutants (bounded differential)
UNITS.append(Native(
    "smoke tool against the stages it stands for, on mutants", ["C28"], "native.c28:differential", kind="bounded",
    bound="three valid meta-models, every 3rd single-edit mutant of two of them (~2 700 meta-models) and 48 models with "
          "one candidate invariant each: the smoke tool exits 0 iff the front end, the constraint inference and C# type "
          "and verification generation (called directly, with the documented dummy snippets) all succeed; exit 1 comes "
          "with a non-empty report", args={"stride": 3}, thorough_args={"stride": 1}, timeout_s=3000))
