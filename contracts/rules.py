"""C06 / C01 / C26: units that are bounded stand-ins (examples or exhaustive small scope), never counted as proved.

C06: the structural rules live in ~9 000 lines of parse/_translate.py and intermediate/_translate.py over Python
``ast`` nodes; only ``_verify_patterns_anchored_at_start_and_end`` (contracts/frontend.py) is under a contract.
The rest is exercised by single-rule mutants of one valid meta-model (native/c06.py).

C26: the linearizer is a recursion over trees of flow nodes producing lists of mutable statement objects that are
renumbered in place three times; the statement "the state machine simulates the structured flow" is a
bisimulation over all condition-outcome sequences -- no contract within pyvc's reach expresses it.  The property
itself quantifies over flows up to a size bound; native/c26.py enumerates them exhaustively.
"""
from pyvc.units import Native

UNITS = [
    Native("single-rule mutants of a valid meta-model are rejected, without a crash", ["C06", "C01"],
           "native.c06:bounded", kind="examples",
           bound="41 mutants over 18 rules (inheritance, unique / reserved / non-ASCII names, re-declared members, "
                 "constructor vs properties, optional defaults, type shapes, invariant descriptions, documentation "
                 "references, pattern anchoring, constant sets) of one base meta-model; the base model must be accepted",
           args={}),
    # C04 beyond LinenoColumner: which node an error carries is decided in hundreds of Error(...) constructions; the
    # corpus checks that the reported line lies in the mutated top-level statement (examples)
    Native("locations reported for single-rule mutants lie in the mutated statement", ["C04"], "native.c06:locations",
           kind="examples",
           bound="the 49 rejected mutants of native/c06.py: at least one reported line (wrappers at line 1 aside) lies in "
                 "the top-level statement that was mutated; two cycle mutants are exempt (a cycle is reported at another "
                 "class of the cycle)", args={}),
    # C03, clause "no error is silently dropped": decided inside the 9 000 lines of the front end; examples
    Native("independent errors of one phase are all reported", ["C03"], "native.c06:multi_errors", kind="examples",
           bound="4 meta-models with 2-3 independent errors of the same phase (three unsupported elements in one "
                 "docstring, two unknown types, two dangling parents, two reserved names): every error must be mentioned "
                 "in the report, which must be a headline ending in ':' followed by '* ' entries", args={}),
    # C03 over *configurations* (snippet directories, arguments, targets): the target mains are outside the verifier's
    # reach (skeleton scans in contracts/scans.py, contracts/scans_c03.py); this unit runs them
    Native("exit status and report format over snippet directories, arguments and targets", ["C03", "C02"],
           "native.c03cli:bounded", kind="bounded",
           bound="the 8 targets x (complete snippet set; each of the 8 snippets removed; each snippet replaced by each of "
                 "8 (quick) / 27 (thorough) unusable contents; empty snippet directory; a model with a method that is "
                 "not implementation-specific) + 7 argument cases of main.execute (missing / misplaced model, snippet "
                 "and output paths, a path ending in a line break): every run must either announce the output and exit "
                 "with 0 and an empty stderr, or exit with 1 and write one headline line ending in ':' followed by "
                 "'* ' entries -- never raise; 9 of the cases are repeated through `python -m aas_core_codegen` in a "
                 "child process, whose exit status has to be that of execute",
           args={"garbage": 8}, thorough_args={"garbage": 27}, timeout_s=1800),
    # C01 as a whole: parse/_translate.py (4 000 lines) and intermediate/_translate.py (5 000 lines) are covered only by
    # *assumed* contracts at the level of load_model (contracts/core.py); this sweep is the bounded evidence behind
    # that assumption: it found 18 crashes on the pinned tree (all repaired, see known_findings.json).
    Native("line- and token-level mutants of valid meta-models never crash the front end", ["C01", "C03"],
           "native.c01:mutation_sweep", kind="bounded",
           bound="every single-edit mutant (delete / duplicate / swap adjacent lines; replace each NAME, STRING, NUMBER, "
                 "OP token by 2-8 alternatives) of the base meta-model of native/c06.py and of the 120 recorded "
                 "meta-models under dev/test_data (< 6 kB each): ~39 000 mutants through run.load_model; exhaustive "
                 "for that edit set", args={"with_recorded": True}, timeout_s=1800),
    # C02 as a whole: the generators are tens of thousands of lines of text emission of which a few functions are under
    # contract.  The sweep is the bounded evidence for the rest; it found 10 generator crashes on the pinned tree: 5
    # repaired, 5 recorded as open findings (unimplemented features and front-end gaps reported by assertion).
    Native("accepted meta-models never make a generator raise", ["C02", "C03"], "native.c02:sweep", kind="bounded",
           bound="all eight targets on: two base meta-models (optional list of primitives / of classes) and every 4th "
                 "(thorough: every) single-edit mutant of them that the front end accepts, every hierarchy of <= 3 classes "
                 "of native/c05.py, the small recorded common meta-models (~1 700 / ~3 450 meta-models x 8 targets); a "
                 "generator may report errors but must not raise",
           args={"stride": 4}, thorough_args={"stride": 1}, timeout_s=3000),
    # C11-C14 beyond the facet emission (contracts/schemas.py): what validators do with the generated schemas is not
    # decidable by a contract on the generator; this harness executes the generated artefacts on a list of examples.
    Native("generated JSON schema and XSD against documents written by the generated Python SDK",
           ["C11", "C12", "C13", "C14"], "native.c11:bounded", kind="examples",
           bound="one meta-model (enumeration; a chain of constrained primitives declared child-first; a concrete class with a concrete descendant and an abbreviation in its name; constrained primitives with length and pattern constraints and a descendant "
                 "primitive tightening both bounds; a byte-array primitive with both bounds; an abstract parent with a "
                 "length invariant and two concrete children, one tightening the inherited property; optional list with "
                 "size bounds; all primitive types): both schemas must be valid schemas with resolving $refs; 10 valid "
                 "instances (incl. values at every bound, astral characters) must validate; 14 instances with one "
                 "constraint broken and 13 structurally wrong documents must be rejected; judges: jsonschema "
                 "Draft 2019-09 and xmlschema", args={}, timeout_s=900),
    # C07: soundness of the invariant type inference ("accepted invariants do not go wrong") needs a formal semantics
    # of the invariant language as specification; bounded: small expressions evaluated with Python itself.
    Native("accepted invariants evaluate to a boolean on type-conforming instances", ["C07"], "native.c07:bounded",
           kind="bounded",
           bound="2 381 invariant expressions over one class with properties str, int, bool, List[str], an enumeration, "
                 "their Optional forms and a list of items with an optional value: 200 quantified invariants that check "
                 "items[E1].value for None and use items[E2].value, E1 / E2 from 10 index expressions differing in "
                 "bracket placement; all comparisons (== < >=) between properties, constants and len(...); "
                 "is None / is not None / not / bare operands; guarded forms (implication, conjunction, wrong guard, "
                 "guard under and/or) x 12 bodies; all(...) over lists; arithmetic.  Accepted ones (by the real type "
                 "inference, run through the Python generator) are evaluated as Python on all 1 728 instances from small "
                 "value sets (None only where Optional); exhaustive within the bound", args={}, timeout_s=900),
    # C08 / C10 / C29: run-time behaviour of the generated Python SDK -- decided by executing it, on a list of examples
    Native("behaviour of the generated Python SDK: verification, round trips, traversal", ["C08", "C10", "C29"],
           "native.c10:bounded", kind="examples",
           bound="the meta-model of native/c11.py: 288 value combinations of a class with 18 arithmetic / boolean invariants (operator precedence and nesting); 17 instances (valid, one or several invariants broken, abbreviated class names, values at and "
                 "beyond every bound, floats, 62-bit integers, carriage returns, astral characters, empty list / bytes / "
                 "string): verify() must report exactly the invariants that are false when evaluated directly in Python "
                 "(descriptions verbatim, paths through the offending property); JSON and XML round trips field by "
                 "field; 17 malformed JSON and 13 malformed XML documents must fail with DeserializationException "
                 "only; descend_once / descend order, visitor and transformer dispatch, over_X_or_empty",
           args={}, timeout_s=900),
    Native("traversal of the generated types.py over nested lists", ["C29"], "native.c29:bounded", kind="examples",
           bound="one meta-model with properties C, List[C], List[List[C]], Optional[List[List[List[C]]]], Optional[C] "
                 "and optional lists of str / int / bool / float / bytearray / classes / enumeration literals "
                 "(types.py only, through verify_for_types + generate_types, because the complete Python target asserts "
                 "on nested lists): descend_once order, descend pre-order, PassThroughVisitor on one nested instance; "
                 "over_<property>_or_empty exists for every optional list and yields the items / nothing",
           args={}, timeout_s=600),
    Native("every small structured flow against its linearization", ["C26"], "native.c26:bounded", kind="bounded",
           bound="every flow of <= 4 (thorough: 5) nodes, nesting <= 3, over Command / Yield / IfTrue / IfFalse (with, "
                 "without and with empty else) / For (with, without init) / While (bodies may be empty) x all 2^5 "
                 "(thorough: 2^6) condition-outcome sequences; well-formedness of the subroutines (labels 0..n-1, "
                 "label only first, every target exists, a yield ends its subroutine); exhaustive within the bound",
           args={"max_size": 4, "n_outcomes": 5}, thorough_args={"max_size": 5, "n_outcomes": 6}, timeout_s=3000),
    # C18: the translator is a recursive Transformer over the regex tree that emits labelled leaves, relabels and
    # removes no-ops in place; "the program accepts exactly the language of the pattern" is a statement about an
    # NFA simulation -- outside pyvc's reach.  Bounded: small patterns x short strings on the real translator.
    # C30: the Python generator returns program text; its run-time meaning is CPython's.  Bounded: a family of values.
    Native("constants, constant sets and enumerations of the generated Python SDK", ["C30"], "native.c30:bounded",
           kind="bounded",
           bound="one meta-model: 14 string constants (quotes, backslashes, NUL, control and line-boundary characters, "
                 "astral characters, triple quotes), 6 integers up to 10^20, 6 floats, 2 booleans; 3 string sets in a "
                 "superset_of chain, 1 integer set, 2 sets of enumeration literals (one a superset of the other); 1 "
                 "enumeration with 10 literal values; 8 texts that are no literal value.  A list of examples",
           args={}, timeout_s=600),
    # C18, first alternative of the statement ("run by the generated C++ matcher"): the emitted common.*, revm.* and the
    # emitted program definitions compiled with g++ and run
    Native("the generated C++ matcher, compiled and run on the generated programs", ["C18"], "native.c18cpp:bounded",
           kind="bounded",
           bound="every 41st (thorough: 7th) two-term pattern and all one-term patterns of the unit below + 23 hand-picked "
                 "ones (astral characters, \\x / \\u escapes, empty alternatives, comments with */ and trailing "
                 "backslashes): ~750 (thorough ~3 700) programs emitted by _generate_program_definition_for_regex, "
                 "compiled together with the emitted common.cpp and revm.cpp (g++ -std=c++17, 32-bit wchar_t: the "
                 "UTF-32 branch) and run on 165 strings (all over 'abcd.' up to length 3 + 9 with astral / Latin-1 "
                 "characters); answers compared with re.fullmatch; a program that prints no answer for 5 s (thorough: 3 s) "
                 "counts as not terminating", args={"stride": 41, "hang_s": 5}, thorough_args={"stride": 7, "hang_s": 3},
           timeout_s=3000),
    Native("small anchored patterns: the VM program against re.fullmatch", ["C18"], "native.c18:bounded", kind="bounded",
           bound="every pattern ^t1 t2$ with <= 2 terms from 14 atoms (chars, escapes, '.', sets, complemented and range "
                 "sets, groups with alternation / nesting / empty alternative) x 11 quantifiers (none * + ? {2} {1,2} "
                 "{2,} {,2} {0} {0,1} {3}) + 13 hand-picked patterns, run on every string over 'abcd.' of length <= 3 "
                 "(thorough: <= 5) by a reference Pike VM; labels must equal instruction indices; exhaustive within "
                 "the bound",
           args={"max_terms": 2, "max_len": 3}, thorough_args={"max_terms": 2, "max_len": 5}, timeout_s=3000),
]

# C09: agreement between generated SDKs is a statement about programs in four languages; what this sandbox can run
# without third-party libraries is the Java SDK's types / verification / constants / stringification (javac, java)
UNITS.append(Native(
    "generated Java and C++ SDKs against the generated Python SDK: verdicts, constants, enumeration texts, traversal",
    ["C09", "C26"],
    "native.c09:bounded", kind="examples",
    bound="one meta-model (enumeration with a quoted literal; Formula with 18 invariants; Item with length / pattern / "
          "optional-guarded / enumeration invariants; Carton with a list of items and an optional formula; str / int "
          "(> 2^32) / bool constants) through the Python, Java and C++ targets; 72 formulas + 10 items + 5 cartons = 87 "
          "instances built in all three SDKs (javac / g++ -std=c++17, generated sources without third-party "
          "libraries); (path, description) sets of the verification must be equal (message prefix and leading dot of "
          "the path normalised); constants and literal texts equal; descend / descend_once of 4 nested cartons (depth "
          "<= 4, empty lists) yield the same instances in the same order -- the C++ side runs the generated iterator "
          "state machines (C26).  JSON, XML and TypeScript not covered",
    args={}, timeout_s=1200))

# C08, both layouts of one emitted loop (the layout depends on the length of the generated line)
UNITS.append(Native(
    "lists of constrained primitives in the generated Python verification (both layouts of the loop)", ["C08"],
    "native.c08x:bounded", kind="examples",
    bound="one meta-model: two constrained primitives (a short and a 33-letter name; a length and a pattern invariant "
          "each) x a class with four List[...] properties of it: verification.py must contain the loop in both "
          "layouts (one line / broken over lines: the loop variable grows with the position of the property); an "
          "offending value at each of 3 positions of each list (48 instances) + 2 valid ones: verify() must report "
          "exactly the false invariants, descriptions verbatim, path .prop[i]", args={}, timeout_s=600))

UNITS.append(Native(
    "the schemas generated for a variety of meta-models are valid schemas", ["C11", "C13"], "native.c11x:bounded",
    kind="examples",
    bound="18 meta-models (hostile texts with / without the */ description, constants of every primitive type, two "
          "models with inheritance and invariants, a child adding three patterns to an inherited property, methods / "
          "constructors with 0, 2, 3 arguments) through the JSON Schema and the XSD target: the 36 schemas that are "
          "generated must be well-formed and valid for jsonschema (Draft 2019-09 meta-schema, every pattern compiles) "
          "resp. xmlschema (XSD 1.0)", args={}, timeout_s=900))

UNITS.append(Native(
    "generated schemas against SDK documents, second (recursive) model", ["C11", "C12", "C13", "C14"], "native.c11y:bounded",
    kind="examples",
    bound="the meta-model of native/c09.py (a container with a list of itself, optional enumeration / integer / string "
          "properties, a class of integers and booleans): 23 instances written by the generated Python SDK; those without "
          "a verification error must validate against both generated schemas (8), those whose only violations are length "
          "/ pattern / list-size constraints must be rejected by both (8); the rest is not judged (the schemas cannot "
          "express arithmetic invariants)", args={}, timeout_s=600))

UNITS.append(Native(
    "constructor arguments of the generated Python SDK reach the right properties", ["C10", "C29"], "native.c10x:bounded",
    kind="examples",
    bound="one meta-model: a parent with three constructor arguments, two children and a grandchild that list the "
          "inherited arguments in another order (defaults move an argument behind the others) and add their own, a "
          "container: 7 instances built by keyword -- every property holds the value passed for it (or its default) -- "
          "and the JSON / XML round trips of each and of the container keep every field", args={}, timeout_s=600))

UNITS.append(Native(
    "optional-returning methods in invariants: generated Java SDK against the generated Python SDK", ["C09"],
    "native.c09:methods", kind="examples",
    bound="one meta-model with an implementation-specific method returning Optional[str] used in three invariants (is not "
          "None, guard of an implication, is None or ...), with a Python and a Java snippet for it: 6 instances built in "
          "both SDKs, (path, description) sets of the verification equal.  The C++ generator does not support methods",
    args={}, timeout_s=900))
