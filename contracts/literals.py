"""C19: emitted string literals denote the original values.

Each literal function is executed symbolically on texts of length 0, 1 and 2 whose characters are
arbitrary code points (full domain, symbolic) -- a loop-free harness, hence complete for these lengths.
Length 2 covers every interaction between the emission of one character and the next one / the closing
quote (e.g. a greedy hex escape swallowing the following character).  The step to all lengths is the
locality argument in DESIGN.md §5 C19: each function emits character by character without context
(checked syntactically: the loop body reads only the loop variable), and every decoder looks ahead at
most into the next emission.

The postcondition compares against the *target language's* reading of the literal (specs/literals.py).
Domain: Unicode scalar values (lone surrogates D800-DFFF excluded: they cannot be written to a UTF-8
source file at all).
"""
import z3

from pyvc.contract import Contract, Loop
from pyvc.values import VStr, VInt

S = ["specs.literals"]


def sym_text(k: int):
    def build(it, fr):
        parts = []
        for i in range(k):
            c = z3.Int(f"text.{i}")
            it.path.add_fact(z3.And(c >= 0, c <= 0x10FFFF, z3.Or(c < 0xD800, c > 0xDFFF)))
            it.path.model_terms.append((f"text.{i}", c))
            parts.append(z3.Unit(c))
        return VStr(parts)
    return build


CODES = "[ord(ch) for ch in text]"

UNITS = []


def _add(target, decoder, name, extra_args=None, requires=None, lengths=(0, 1, 2), prop=("C19",), ensures_extra=None,
         replay_kind="", var="text"):
    CODES = f"[ord(ch) for ch in {var}]"
    for k in lengths:
        args = {var: sym_text(k)}
        args.update(extra_args or {})
        UNITS.append(Contract(
            target, list(prop), specs=S, name=f"{name}[len={k}]", args=args,
            requires=requires or [],
            ensures=[("literal-denotes-the-text", f"{decoder} == {CODES}"),
                     ("survives-line-wise-indentation", "no_line_boundary(result)")] + (ensures_extra or []),
            twins=[("denotes-something-else", f"{decoder} != {CODES}")] if k > 0 else
                  [("not-a-literal", f"{decoder} is None")],
            use_as_callee=False, max_paths=20000,
            replay=f"native.c19:replay_{replay_kind}" if replay_kind else None))


# ---- Python
for q, qname in (("None", "auto"), ("StringQuoting.SINGLE_QUOTES", "single"), ("StringQuoting.DOUBLE_QUOTES", "double")):
    _add("aas_core_codegen.python.common:string_literal", "python_str(result)", f"python.string_literal[{qname}]",
         extra_args={"quoting": (lambda qq: (lambda it, fr: it.eval_spec(qq, fr)))(q),
                     "without_enclosing": lambda it, fr: it.eval_spec("False", fr),
                     "duplicate_curly_brackets": lambda it, fr: it.eval_spec("False", fr)},
         # also C30: the constants, string sets and from-string maps of the Python SDK are written with this function
         prop=("C19", "C30"), replay_kind="python")

# ---- C++
_add("aas_core_codegen.cpp.common:wstring_literal", "cpp_wide(result)", "cpp.wstring_literal", replay_kind="cpp_wide")
_add("aas_core_codegen.cpp.common:string_literal", "cpp_narrow(result)", "cpp.string_literal", replay_kind="cpp_narrow")
_add("aas_core_codegen.cpp.common:wchar_literal", "cpp_wchar(result)", "cpp.wchar_literal", lengths=(1,),
     var="character", replay_kind="cpp_wchar")

# ---- C#, Java, Go
_add("aas_core_codegen.csharp.common:string_literal", "double_quoted(result, 'csharp')", "csharp.string_literal",
     replay_kind="csharp")
_add("aas_core_codegen.java.common:string_literal", "double_quoted(result, 'java')", "java.string_literal",
     replay_kind="java")
_add("aas_core_codegen.golang.common:string_literal", "double_quoted(result, 'go')", "golang.string_literal",
     replay_kind="go")

# ---- TypeScript: quoted and template
_add("aas_core_codegen.typescript.common:string_literal", "double_quoted(result, 'ts')", "typescript.string_literal[quoted]",
     extra_args={"without_enclosing": lambda it, fr: it.eval_spec("False", fr),
                 "in_backticks": lambda it, fr: it.eval_spec("False", fr)}, replay_kind="ts")
_add("aas_core_codegen.typescript.common:string_literal", "ts_template(result)", "typescript.string_literal[template]",
     extra_args={"without_enclosing": lambda it, fr: it.eval_spec("False", fr),
                 "in_backticks": lambda it, fr: it.eval_spec("True", fr)}, replay_kind="ts_template")
