"""C21: name collisions are reported (six targets' ``_verify_intra_structure_collisions``).

The naming functions (``<target>/naming.py``) are *uninterpreted*: the proof does not depend on how a
meta-model name is converted, only on the collision check around it.

Per loop: (count) every generated name is either reported as colliding or recorded -- never dropped;
(recorded) every processed element's name is in the map; (distinct) while no error was found, the names
of any two processed elements (ghost indices gi < gj) differ.  Exit: the function returns an error
exactly when at least one collision error was collected, and that error carries the collected errors.
Hence ``result is None`` implies pairwise distinct generated names within the structure.
"""
from pyvc.contract import Contract, Loop

UNITS = []

CFG = {
    # target: (naming alias, literal map / fn (or None), [prop fns], method fn)
    "python": ("python_naming", ("enum_literal_map", "enum_literal_name"), ["property_name"], "method_name"),
    "typescript": ("typescript_naming", ("enum_literal_map", "enum_literal_name"), ["property_name"], "method_name"),
    "cpp": ("cpp_naming", ("observed_literal_names", "enum_literal_name"),
            ["getter_name", "mutable_getter_name", "setter_name", "private_property_name"], "method_name"),
    "csharp": ("csharp_naming", None, ["property_name"], "method_name"),
    "java": ("java_naming", None, ["property_name"], "method_name"),
    "golang": ("golang_naming", None, ["getter_name", "setter_name"], "method_name"),
}


def _loop(alias, fn, mapvar, seq, k_names, with_distinct, extra_inv=None):
    n_at = lambda idx: f"{alias}.{fn}({seq}[{idx}].name)"
    inv = [("recorded", f"forall(0, _i, lambda k: {n_at('k')} in {mapvar})")] if k_names == 1 else []
    if with_distinct and k_names == 1:
        inv.append(("distinct-while-no-error",
                    f"implies(len(errors) == 0 and 0 <= gi and gi < gj and gj < _i, {n_at('gi')} != {n_at('gj')})"))
    inv += extra_inv or []
    return Loop(
        invariants=inv,
        body_ensures=[("every-name-reported-or-recorded",
                       f"appended_count(errors) + dict_writes({mapvar}) == {k_names}")],
        body_twins=[("nothing-happens", f"appended_count(errors) + dict_writes({mapvar}) == 0")])


for tgt, (alias, lit, prop_fns, method_fn) in CFG.items():
    mod = f"aas_core_codegen.{tgt}.lib._generate_types"
    loops = {}
    n = 0
    ensures = [
        ("error-returned-iff-collisions-found", "(result is not None) == (len(final('errors')) > 0)"),
        ("error-carries-the-collisions", "implies(result is not None, result.underlying is final('errors'))"),
    ]
    if lit is not None:
        n += 1
        loops[n] = _loop(alias, lit[1], lit[0], "our_type.literals", 1, True)
        ensures.append(("no-error-means-distinct-literal-names",
                        f"implies(is_kind(our_type, intermediate.Enumeration) and result is None and 0 <= gi and gi < gj "
                        f"and gj < len(our_type.literals), {alias}.{lit[1]}(our_type.literals[gi].name) != "
                        f"{alias}.{lit[1]}(our_type.literals[gj].name))"))
    elif tgt in ("csharp", "java"):
        # there is no loop over the literals at all in these two targets: recorded finding
        ensures.append(("no-error-means-distinct-literal-names",
                        f"implies(is_kind(our_type, intermediate.Enumeration) and result is None and 0 <= gi and gi < gj "
                        f"and gj < len(our_type.literals), {alias}.enum_literal_name(our_type.literals[gi].name) != "
                        f"{alias}.enum_literal_name(our_type.literals[gj].name))"))
    n += 1
    props_single = len(prop_fns) == 1
    loops[n] = _loop(alias, prop_fns[0], "observed_member_names", "our_type.properties", len(prop_fns), props_single)
    n += 1
    carried = [("property-names-stay-recorded",
                f"forall(0, len(our_type.properties), lambda k: {alias}.{prop_fns[0]}(our_type.properties[k].name) "
                f"in observed_member_names)")] if props_single else []
    carried_distinct = [("method-differs-from-properties-while-no-error",
                         f"implies(len(errors) == 0 and 0 <= gi and gi < len(our_type.properties) and 0 <= gj and gj < _i, "
                         f"{alias}.{prop_fns[0]}(our_type.properties[gi].name) != "
                         f"{alias}.{method_fn}(our_type.methods[gj].name))"),
                        ("properties-stay-distinct-while-no-error",
                         f"implies(len(errors) == 0 and 0 <= gi and gi < gj and gj < len(our_type.properties), "
                         f"{alias}.{prop_fns[0]}(our_type.properties[gi].name) != "
                         f"{alias}.{prop_fns[0]}(our_type.properties[gj].name))")] if props_single else []
    loops[n] = _loop(alias, method_fn, "observed_member_names", "our_type.methods", 1, False,
                     extra_inv=carried + carried_distinct)
    if props_single:
        ensures.append(("no-error-means-distinct-property-names",
                        f"implies(is_kind(our_type, intermediate.Class) and result is None and 0 <= gi and gi < gj "
                        f"and gj < len(our_type.properties), {alias}.{prop_fns[0]}(our_type.properties[gi].name) != "
                        f"{alias}.{prop_fns[0]}(our_type.properties[gj].name))"))
        ensures.append(("no-error-means-methods-differ-from-properties",
                        f"implies(is_kind(our_type, intermediate.Class) and result is None and 0 <= gi and "
                        f"gi < len(our_type.properties) and 0 <= gj and gj < len(our_type.methods), "
                        f"{alias}.{prop_fns[0]}(our_type.properties[gi].name) != "
                        f"{alias}.{method_fn}(our_type.methods[gj].name))"))
    if tgt == "golang":
        # the Go names keep abbreviations in upper case (some_URL / some_url differ), the JSON and XML names do not:
        # a third loop checks the names by which the properties are (de)serialised
        ser = lambda fn, k: f"naming.{fn}(our_type.properties[{k}].name)"  # noqa: E731
        n += 1
        loops[n] = Loop(
            invariants=[
                ("json-recorded", f"forall(0, _i, lambda k: {ser('json_property', 'k')} in observed_json_names)"),
                ("xml-recorded", f"forall(0, _i, lambda k: {ser('xml_property', 'k')} in observed_xml_names)"),
                ("json-distinct-while-no-error",
                 f"implies(len(errors) == 0 and 0 <= gi and gi < gj and gj < _i, "
                 f"{ser('json_property', 'gi')} != {ser('json_property', 'gj')})"),
                ("xml-distinct-while-no-error",
                 f"implies(len(errors) == 0 and 0 <= gi and gi < gj and gj < _i, "
                 f"{ser('xml_property', 'gi')} != {ser('xml_property', 'gj')})"),
            ],
            body_ensures=[("every-serialised-name-reported-or-recorded",
                           "appended_count(errors) + dict_writes(observed_json_names) + "
                           "dict_writes(observed_xml_names) == 2")],
            body_twins=[("nothing-happens", "appended_count(errors) + dict_writes(observed_json_names) + "
                                            "dict_writes(observed_xml_names) == 0")])
        for fn in ("json_property", "xml_property"):
            ensures.append((f"no-error-means-distinct-{fn.split('_')[0]}-names",
                            f"implies(is_kind(our_type, intermediate.Class) and result is None and 0 <= gi and gi < gj "
                            f"and gj < len(our_type.properties), {ser(fn, 'gi')} != {ser(fn, 'gj')})"))
    UNITS.append(Contract(
        f"{mod}:_verify_intra_structure_collisions", ["C21"], name=f"{tgt}._verify_intra_structure_collisions",
        ghost={"gi": "int", "gj": "int"}, loops=loops, ensures=ensures,
        twins=[("never-reports", "result is None")],
        pure=[f"aas_core_codegen.{tgt}.naming:", "aas_core_codegen.naming:"], use_as_callee=False,
        replay=f"native.c21:replay_intra"))

# collisions *between* types: which names a target compares is checked on examples (the loops are under contract below)
from pyvc.units import Native  # noqa: E402

UNITS.append(Native(
    "colliding names of two types are reported by every SDK target", ["C21"], "native.c21x:bounded", kind="examples",
    bound="7 meta-models with two types whose names differ only in letter case / an underscore (abstract vs concrete "
          "class with descendants, two classes, class vs enumeration, two enumerations) x the 6 SDK targets: if the "
          "target's own naming functions map both names to one identifier, the run must fail with a collision error "
          "(and must not raise); if they do not, no collision may be reported.  Schemas, constants and functions are "
          "not covered", args={}, timeout_s=900))

UNITS.append(Native(
    "colliding names in the generated JSON schema and XSD", ["C21"], "native.c21schema:bounded", kind="examples",
    bound="7 meta-models (two properties of one class / an inherited and an own property that become one JSON / XML "
          "name; two classes, class and enumeration, class and constrained primitive, two enumerations that become one "
          "definition name; a control without collision) x the 2 schema targets: a run either reports an error or its "
          "output has no object key, 'required' entry, top-level XSD type / group / element or content-model element "
          "twice, and schema.json is a valid draft 2019-09 schema (judged on the output, not with the generators' "
          "naming functions).  Constants and functions are not covered", args={}, timeout_s=900))

UNITS.append(Native(
    "constants, verification functions and accessor names in the SDK targets", ["C21"], "native.c21members:bounded",
    kind="examples",
    bound="5 meta-models (two constants / two verification functions whose names differ in the letter case of a part or "
          "in an underscore; a property foo with an implementation-specific method get_foo / set_foo) x the 6 SDK "
          "targets; snippets for implementation-specific parts are created on demand from the keys reported as missing. "
          "If the naming function that the target's generator applies maps both names to one identifier, the run must "
          "report a clash (a run that fails for another reason is recorded as inconclusive, not as a failure)",
    args={}, timeout_s=900))

# ---- collisions *between* types: the six ``_verify_structure_name_collisions``.  Proved per iteration (body lemmas):
# every generated structure name is either reported as colliding or recorded -- none is dropped; every error of the
# intra-structure verifier is kept; the function returns the collected errors.  (That two recorded names differ is the
# dict's own semantics; *which* names have to be compared per target is checked by the examples unit above.)
KINDS = ("(1 if is_kind({x}, intermediate.Enumeration) or is_kind({x}, intermediate.AbstractClass) else "
         "(2 if is_kind({x}, intermediate.ConcreteClass) else 0))")
ONE_NAME = ("(1 if is_kind({x}, intermediate.Enumeration) or is_kind({x}, intermediate.AbstractClass) or "
            "is_kind({x}, intermediate.ConcreteClass) else 0)")
INTER = {
    # target: (dict variable, {loop ordinal: (loop variable, expected writes per iteration or None for the intra loop)})
    "python": ("observed_structure_names", {1: ("enum_or_cls", "1"), 2: ("our_type", None)}),
    "typescript": ("observed_structure_names", {1: ("our_type", ONE_NAME), 2: ("our_type", None)}),
    "csharp": ("observed_structure_names", {1: ("our_type", KINDS), 2: ("our_type", None)}),
    "java": ("observed_structure_names", {1: ("our_type", KINDS), 2: ("our_type", None)}),
}
for tgt, (dvar, loops_cfg) in INTER.items():
    mod = f"aas_core_codegen.{tgt}.lib._generate_types"
    loops = {}
    for ordinal, (lv, expected) in loops_cfg.items():
        if expected is None:
            loops[ordinal] = Loop(
                body_ensures=[("errors-of-the-intra-structure-check-are-kept",
                               "appended_count(errors) == (0 if collision_error is None else 1)")],
                body_twins=[("always-an-error", "appended_count(errors) == 1")])
        else:
            loops[ordinal] = Loop(
                body_ensures=[("every-structure-name-reported-or-recorded",
                               f"appended_count(errors) + dict_writes({dvar}) == {expected.format(x=lv)}")],
                body_twins=[("nothing-happens", f"appended_count(errors) + dict_writes({dvar}) == 0")])
    UNITS.append(Contract(
        f"{mod}:_verify_structure_name_collisions", ["C21"], name=f"{tgt}._verify_structure_name_collisions",
        loops=loops, ensures=[("returns-the-collected-errors", "result is final('errors')")],
        pure=[f"aas_core_codegen.{tgt}.naming:", f"{mod}:_human_readable_identifier"],
        opaque=[f"{mod}:_verify_intra_structure_collisions"], use_as_callee=False))

# C++ and Go: the names of one type are collected in a list first (one or two names) and checked in an inner loop over
# that concrete list; Go adds the enumeration literals, which are global constants there (nested loops)
for tgt, dvar, n_loops in (("cpp", "observed_type_names", 3), ("golang", "observed_structure_names", 5)):
    mod = f"aas_core_codegen.{tgt}.lib._generate_types"
    loops = {
        1: Loop(body_ensures=[("every-structure-name-reported-or-recorded",
                               f"appended_count(errors) + dict_writes({dvar}) == {KINDS.format(x='enum_or_cls')}")],
                body_twins=[("nothing-happens", f"appended_count(errors) + dict_writes({dvar}) == 0")]),
        n_loops: Loop(body_ensures=[("errors-of-the-intra-structure-check-are-kept",
                                     "appended_count(errors) == (0 if collision_error is None else 1)")],
                      body_twins=[("always-an-error", "appended_count(errors) == 1")]),
    }
    if tgt == "golang":
        loops[3] = Loop()
        loops[4] = Loop(body_ensures=[("every-literal-name-reported-or-recorded",
                                       f"appended_count(errors) + dict_writes({dvar}) == 1")],
                        body_twins=[("nothing-happens", f"appended_count(errors) + dict_writes({dvar}) == 0")])
    UNITS.append(Contract(
        f"{mod}:_verify_structure_name_collisions", ["C21"], name=f"{tgt}._verify_structure_name_collisions",
        loops=loops, ensures=[("returns-the-collected-errors", "result is final('errors')")],
        pure=[f"aas_core_codegen.{tgt}.naming:", f"{mod}:_human_readable_identifier"],
        opaque=[f"{mod}:_verify_intra_structure_collisions"], use_as_callee=False))

# ---- the two schema targets: property names of one class (own and inherited) that become one JSON / XML name.
# Nested loops: the map is fresh per class; per property the name is either reported or recorded; at the end of the
# iteration for a class: if no error has been collected so far, the names of any two of its properties differ (body
# lemma of the outer loop, from the inner loop's invariants).  The function returns the collected errors.  (That the
# error list only grows -- so an empty result means it was empty after every class -- is list.append's own semantics;
# the havoc of the inner loop forgets it, hence the per-class lemma instead of a function-level postcondition.)
for tgt, fn in (("jsonschema", "json_property"), ("xsd", "xml_property")):
    mod = f"aas_core_codegen.{tgt}.main"
    n_at = lambda c, k: f"naming.{fn}({c}.properties[{k}].name)"  # noqa: E731
    UNITS.append(Contract(
        f"{mod}:_verify_property_name_collisions", ["C21"], name=f"{tgt}._verify_property_name_collisions",
        ghost={"gi": "int", "gj": "int"},
        loops={
            1: Loop(body_ensures=[
                ("no-error-so-far-means-distinct-names-in-this-class",
                 f"implies(len(errors) == 0 and 0 <= gi and gi < gj and gj < len(cls.properties), "
                 f"{n_at('cls', 'gi')} != {n_at('cls', 'gj')})")],
                body_twins=[("names-always-distinct",
                             f"implies(0 <= gi and gi < gj and gj < len(cls.properties), "
                             f"{n_at('cls', 'gi')} != {n_at('cls', 'gj')})")]),
            2: Loop(invariants=[
                ("recorded", f"forall(0, _i, lambda k: {n_at('cls', 'k')} in observed)"),
                ("distinct-while-no-error",
                 f"implies(len(errors) == 0 and 0 <= gi and gi < gj and gj < _i, {n_at('cls', 'gi')} != {n_at('cls', 'gj')})"),
            ],
                body_ensures=[("every-name-reported-or-recorded", "appended_count(errors) + dict_writes(observed) == 1")],
                body_twins=[("nothing-happens", "appended_count(errors) + dict_writes(observed) == 0")]),
        },
        ensures=[("returns-the-collected-errors", "result is final('errors')")],
        pure=["aas_core_codegen.naming:"], use_as_callee=False))
