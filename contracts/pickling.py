"""C23 (bounded part): an unpickled symbol table answers every query like the original.

``__getstate__`` drops the ``*_id_set`` attributes (ids are not stable across processes) and ``__setstate__``
rebuilds them with ``setattr`` from ``self.__dict__``; pyvc does not model ``__dict__`` / ``setattr`` / ``id``-keyed
frozensets, so the data invariant  X_id_set == {id(e) for e in Xs}  is checked natively on every object reachable
from the symbol table, before and after a pickle round trip, together with all ``is_subclass_of`` queries.
Labelled bounded.
"""
from pyvc.units import Native

UNITS = [
    Native("pickle round trip keeps the id-set invariants", ["C23", "C24"], "native.c23:pickle_roundtrip", kind="bounded",
           bound="every accepted hierarchy of the C05 generator with <= 3 (thorough: 4) classes (3-level chains, "
                 "diamonds) with and without methods + the 43 recorded meta-models of dev/test_data (thorough: also "
                 "aas_core_meta.v3); all *_id_set attributes of all reachable objects and all is_subclass_of pairs",
           args={"max_classes": 3}, thorough_args={"max_classes": 4, "with_big_model": True}, timeout_s=1800),
]

UNITS.append(Native(
    "the cache is transparent when the model file is edited between runs", ["C23", "C04"], "native.c23:edited_models",
    kind="examples",
    bound="one meta-model with an error that is located in the generator phase (a missing snippet of an "
          "implementation-specific class); 8 texts in a row (original, blank lines / a comment prepended, final newline "
          "removed, blank lines appended / inserted, trailing blanks, original again), each run with --cache_model into a "
          "private cache directory and without: exit status, stdout, stderr (line and column numbers) and output files "
          "must be equal", args={}, timeout_s=600))
