"""C12 / C11 (JSON Schema) and C14 / C13 (XSD): the functions that turn inferred constraints into schema facets.

Only the *emission* of the facets is under contract: given the constraints inferred for a value (C15 covers the
inference), the emitted sub-schema carries each of them (C12 / C14: nothing is dropped) and nothing stricter than
them (C11 / C13: valid data is not rejected by an invented or mistranslated facet).  Whether a JSON Schema / XSD
validator then accepts or rejects a document is the semantics of that validator -- outside any contract on the
generator (DESIGN.md, not_applicable part of C11-C14).

Length of a byte array: JSON carries it base64-encoded; n bytes are 4 * ceil(n / 3) characters.  A facet on the
text is admissible (C11) iff it does not exclude the encoding of any admissible byte length.
"""
from pyvc.contract import Contract, Loop

J = "aas_core_codegen.jsonschema.main"
X = "aas_core_codegen.xsd.main"
S = ["specs.schemas"]

UNITS = [
    Contract(f"{J}:_translate_constraints", ["C12", "C11"], specs=S,
             pure=["fix_pattern"],
             requires=[("length-bounds-are-non-negative",
                        "implies(constraints is not None and constraints.len_constraint is not None, "
                        "(constraints.len_constraint.min_value is None or constraints.len_constraint.min_value >= 0) and "
                        "(constraints.len_constraint.max_value is None or constraints.len_constraint.max_value >= 0))")],
             loops={1: Loop(invariants=[("one-subschema-per-further-pattern", "len(additional_subschemas) == _i")],
                            body_ensures=[("the-further-pattern-is-emitted",
                                           "appended_count(additional_subschemas) == 1 and "
                                           "additional_subschema['pattern'] == fix_pattern(pattern_constraint.pattern)")],
                            body_twins=[("pattern-dropped", "appended_count(additional_subschemas) == 0")])},
             ensures=[
                 ("no-constraints-no-facets", "implies(constraints is None, result is None)"),
                 # ---- C12: nothing inferred is dropped
                 ("string-length-enforced",
                  "implies(constraints is not None and is_str(type_annotation) and constraints.len_constraint is not None "
                  "and (constraints.len_constraint.min_value is not None or constraints.len_constraint.max_value is not None), "
                  "result is not None and facet_is(result.subschemas[0], 'minLength', constraints.len_constraint.min_value) "
                  "and facet_is(result.subschemas[0], 'maxLength', constraints.len_constraint.max_value))"),
                 ("list-size-enforced",
                  "implies(constraints is not None and is_kind(type_annotation, intermediate.ListTypeAnnotation) "
                  "and constraints.len_constraint is not None "
                  "and (constraints.len_constraint.min_value is not None or constraints.len_constraint.max_value is not None), "
                  "result is not None and facet_is(result.subschemas[0], 'minItems', constraints.len_constraint.min_value) "
                  "and facet_is(result.subschemas[0], 'maxItems', constraints.len_constraint.max_value))"),
                 # (the further patterns: one sub-schema each, see the loop-body lemma; their conjunction over the whole
                 # list is not re-derived at the exit)
                 ("first-pattern-enforced-and-one-subschema-per-pattern",
                  "implies(constraints is not None and is_str(type_annotation) and constraints.patterns is not None, "
                  "result is not None and len(result.subschemas) == len(constraints.patterns) and "
                  "result.subschemas[0]['pattern'] == fix_pattern(constraints.patterns[0].pattern))"),
                 # ---- C11: nothing stricter than inferred
                 ("byte-length-facets-admit-the-base64-text",
                  "implies(constraints is not None and is_bytes(type_annotation) and result is not None, "
                  "base64_facets_admissible(result.subschemas[0], constraints.len_constraint))"),
                 ("no-invented-facets",
                  "implies(result is not None and constraints is not None, "
                  "facets_justified(result.subschemas[0], is_str(type_annotation), is_bytes(type_annotation), "
                  "is_kind(type_annotation, intermediate.ListTypeAnnotation), constraints))"),
             ],
             twins=[("never-any-facet", "result is None")],
             use_as_callee=False, replay="native.c12:replay_translate_constraints"),

    # XSD: the facets of a simple type.  xs:minLength / xs:maxLength count characters of xs:string and octets of
    # xs:base64Binary, so the inferred bounds are emitted as they are.  Patterns go through greenery / a pattern
    # translator (external library, string rewriting): not under contract -- the unit covers values without patterns.
    Contract(f"{X}:_translate_to_simple_type", ["C14"], specs=S, name="xsd._translate_to_simple_type[no patterns]",
             requires=["constraints is None or constraints.patterns is None"],
             ensures=[
                 ("never-an-error-without-patterns", "result[1] is None and result[0] is not None"),
                 ("length-facets-are-the-inferred-bounds",
                  "implies(constraints is not None and constraints.len_constraint is not None and "
                  "(constraints.len_constraint.min_value is not None or constraints.len_constraint.max_value is not None), "
                  "result[0].restriction is not None and "
                  "result[0].restriction.min_length == constraints.len_constraint.min_value and "
                  "result[0].restriction.max_length == constraints.len_constraint.max_value and "
                  "result[0].restriction.pattern is None)"),
                 ("no-invented-restriction",
                  "implies(constraints is None or constraints.len_constraint is None or "
                  "(constraints.len_constraint.min_value is None and constraints.len_constraint.max_value is None), "
                  "result[0].restriction is None)"),
             ],
             twins=[("never-restricted", "result[0].restriction is None")],
             use_as_callee=False),
]
