"""C26 (the part within reach): the well-formedness clause "only the first statement of a subroutine has a label".

``_split_in_subroutines`` cuts the labelled statement list into blocks; every ``Subroutine(block)`` construction
has the repository's own ``@require`` (first statement labelled, the others not, block non-empty) as a call-site
obligation.  The behavioural clause of C26 (the state machine simulates the structured flow) is covered only by the
bounded unit in contracts/rules.py.
"""
from pyvc.contract import Contract, Loop

L = "aas_core_codegen.yielding.linear"

UNITS = [
    Contract(f"{L}:_split_in_subroutines", ["C26"],
             requires=[("starts-with-a-label", "len(statements) == 0 or statements[0].label is not None")],
             loops={1: Loop(invariants=[
                 ("block-is-one-subroutine-so-far",
                  "implies(len(block) > 0, block[0].label is not None and "
                  "forall(1, len(block), lambda j: block[j].label is None))"),
                 ("a-block-is-open-after-the-first-statement", "implies(_i > 0, len(block) > 0)")],
                 modifies=["block", "result"])},
             ensures=[("no-statement-before-the-first-label-is-dropped",
                       "implies(len(statements) > 0, len(result) >= 1)")],
             twins=[("never-any-subroutine", "len(result) == 0")],
             use_as_callee=False),
]
