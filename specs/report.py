"""Spec functions for error reports and locations (properties C03, C04), from the property texts."""


def entry_ok(text: str) -> bool:
    """An error entry can be put after a '* ' bullet: non-empty, does not begin with a line break or
    a bullet of its own and does not end with a line break (C03: '* '-bulleted, indented entries)."""
    return (
        len(text) > 0
        and not text.startswith("\n")
        and not text.startswith("*")
        and not text.endswith("\n")
    )


def headline_ok(text: str) -> bool:
    """A headline to which ':' and a line break are appended: one line, no trailing colon."""
    return (
        not text.endswith(":")
        and not text.endswith("\n")
        and not text.startswith("\n")
        and not text.startswith("*")
    )
