"""Spec functions for error reports and locations (properties C03, C04), from the property texts."""


def entry_ok(text: str) -> bool:
    """An error entry can be put after a '* ' bullet: non-empty, does not begin with a line break or
    a bullet of its own and does not end with a line break (C03: '* '-bulleted, indented entries)."""
    return (
        len(text) > 0
        and not text.startswith("\n")
        and not text.startswith("*")
        and not text.endswith("\n")
    )


def headline_ok(text: str) -> bool:
    """A headline to which ':' and a line break are appended: one line, no trailing colon."""
    return (
        not text.endswith(":")
        and not text.endswith("\n")
        and not text.startswith("\n")
        and not text.startswith("*")
    )


def only_model_touched(trace: str) -> bool:
    """No file-system operation of the run concerned anything but the model file (C23)."""
    return all(item.partition(":")[2] == "model_path" for item in trace.split(";") if item)


CACHE = "Path(str)/x/x"        # tempdir / "aas-core-codegen-<version>" / "model-<sha256>.pickle"
CACHE_DIR = "Path(str)/x"
TMP = "Path(str)/x/x.tmp-suffix"  # cache_path.with_suffix(".<uuid4>.tmp")


def cache_trace_ok(trace: str) -> bool:
    """The file-system operations of one run, in order, obey the cache protocol of C24:

    * the shared entry is only ever *read* (exists/open-read) or *replaced by rename* of this run's
      temporary file, and only after that file was completely written (``dump-complete``) and closed
      (``close``: buffered data has reached the file before it becomes visible under the shared name);
    * nothing is written in place to the shared entry, the only other writes go to this run's own
      temporary file (fresh uuid) and to mkdir of the cache directory;
    * besides, only the model file is read.

    Every prefix of an accepted trace is accepted too (prefix = crash point), so the shared entry is at
    every instant either absent or a complete pickle.
    """
    complete = False
    closed = False
    for item in [x for x in trace.split(";") if x]:
        op, _, path = item.partition(":")
        if path == "model_path":
            if op not in ("read", "exists", "is_file"):
                return False
        elif path == CACHE:
            if op in ("exists", "open-read"):
                pass
            elif op == "rename-to":
                if not (complete and closed):
                    return False
            else:
                return False
        elif path == CACHE_DIR:
            if op != "mkdir":
                return False
        elif path == TMP:
            if op == "open-write":
                complete = False
                closed = False
            elif op == "dump-complete":
                complete = True
            elif op == "close":
                closed = True
            elif op in ("rename-from", "unlink"):
                pass
            else:
                return False
        else:
            return False
    return True
