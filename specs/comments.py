"""How the target languages read comments and docstrings (property C20), from the language references.

* Python: a triple-double-quoted string literal ends at the first unescaped ``\"\"\"``; a backslash escapes
  the next character (Python Language Reference 2.4.1).
* Java / TypeScript: a ``/* ... */`` comment ends at the first ``*/`` (JLS 3.7, ECMAScript 12.4).
* Line comments (``//``, ``///``, ``#:``) end at a line terminator of the language: LF, CR (all), and
  additionally U+2028 / U+2029 (ECMAScript, C# and - as Unicode newlines - treated the same here), U+0085 (C#).
"""
from typing import List, Optional

PY_ESC = {"\\": 92, '"': 34, "'": 39, "n": 10, "r": 13, "t": 9, "a": 7, "b": 8, "f": 12, "v": 11}


def py_triple(lit: str) -> Optional[List[int]]:
    """The value of ``lit`` if it is exactly one Python \"\"\"-string literal, else None."""
    if len(lit) < 6 or ord(lit[0]) != 34 or ord(lit[1]) != 34 or ord(lit[2]) != 34:
        return None
    out = []  # type: List[int]
    i = 3
    n = len(lit)
    while i < n:
        c = ord(lit[i])
        if c == 92:
            if i + 1 >= n:
                return None
            e = ord(lit[i + 1])
            found = False
            for key in PY_ESC:
                if e == ord(key):
                    out.append(PY_ESC[key])
                    found = True
            if not found:
                if e == 10:
                    pass  # line continuation
                else:
                    out.append(92)
                    out.append(e)
            i = i + 2
            continue
        if c == 34 and i + 2 < n and ord(lit[i + 1]) == 34 and ord(lit[i + 2]) == 34:
            # the closing quotes: the literal must end here
            if i + 3 == n:
                return out
            return None
        if c == 0:
            return None
        out.append(c)
        i = i + 1
    return None


def block_comment_ok(lit: str) -> bool:
    """``lit`` is exactly one /* ... */ comment: the first ``*/`` after the opening is its end."""
    n = len(lit)
    if n < 4 or ord(lit[0]) != 47 or ord(lit[1]) != 42:
        return False
    i = 2
    while i + 1 < n:
        if ord(lit[i]) == 42 and ord(lit[i + 1]) == 47:
            return i + 2 == n
        i = i + 1
    return False


def is_line_terminator(c: int) -> bool:
    return c == 10 or c == 13 or c == 0x2028 or c == 0x2029 or c == 0x85


def line_comment_ok(lit: str, prefix: str) -> bool:
    """Every line of ``lit`` (lines as the target compilers see them) starts with the comment prefix."""
    n = len(lit)
    k = len(prefix)
    i = 0
    at_line_start = True
    while i < n:
        if at_line_start:
            if is_line_terminator(ord(lit[i])):
                i = i + 1  # an empty line (or the LF of a CR LF pair)
                continue
            if i + k > n:
                return False
            j = 0
            while j < k:
                if ord(lit[i + j]) != ord(prefix[j]):
                    return False
                j = j + 1
            at_line_start = False
            i = i + k
            continue
        if is_line_terminator(ord(lit[i])):
            at_line_start = True
        i = i + 1
    return True


def no_line_continuation(lit: str) -> bool:
    """No physical line of ``lit`` -- the last one included: code follows the comment -- ends in a backslash,
    optionally followed by blanks or tabs: C and C++ splice such a line with the next one (translation phase 2; GCC
    also with white space in between), which would pull the following line of code into a ``//`` comment."""
    n = len(lit)
    i = 0
    last = 0  # the last character of the current line that is neither a blank nor a tab (0: none yet)
    while i < n:
        c = ord(lit[i])
        if is_line_terminator(c):
            if last == 92:
                return False
            last = 0
        elif c != 32 and c != 9:
            last = c
        i = i + 1
    return last != 92
