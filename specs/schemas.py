"""Spec functions for the facets that the JSON Schema / XSD generators emit for inferred constraints."""
from aas_core_codegen import intermediate


def is_str(type_annotation: object) -> bool:
    return intermediate.try_primitive_type(type_annotation) is intermediate.PrimitiveType.STR


def is_bytes(type_annotation: object) -> bool:
    return intermediate.try_primitive_type(type_annotation) is intermediate.PrimitiveType.BYTEARRAY


def facet_is(subschema: object, key: str, value: object) -> bool:
    """The facet is present with exactly the inferred value, and absent if nothing was inferred."""
    if value is None:
        return key not in subschema
    return key in subschema and subschema[key] == value


def base64_len(n: int) -> int:
    """Number of characters of the base64 text of ``n`` bytes."""
    return 4 * ((n + 2) // 3)


def base64_facets_admissible(subschema: object, len_constraint: object) -> bool:
    """No length facet on the base64 text excludes the encoding of an admissible byte length."""
    if len_constraint is None:
        return "minLength" not in subschema and "maxLength" not in subschema
    ok = True
    if "minLength" in subschema:
        ok = ok and len_constraint.min_value is not None and subschema["minLength"] <= base64_len(len_constraint.min_value)
    if "maxLength" in subschema:
        ok = ok and len_constraint.max_value is not None and subschema["maxLength"] >= base64_len(len_constraint.max_value)
    return ok


def facets_justified(subschema: object, a_str: bool, a_bytes: bool, a_list: bool, constraints: object) -> bool:
    """A facet is only there if the kind of value and an inferred constraint call for it."""
    ok = True
    if "minLength" in subschema or "maxLength" in subschema:
        ok = ok and (a_str or a_bytes) and constraints.len_constraint is not None
    if "minItems" in subschema or "maxItems" in subschema:
        ok = ok and a_list and constraints.len_constraint is not None
    if "pattern" in subschema:
        ok = ok and a_str and constraints.patterns is not None
    if a_str and "minLength" in subschema:
        ok = ok and subschema["minLength"] == constraints.len_constraint.min_value
    if a_str and "maxLength" in subschema:
        ok = ok and subschema["maxLength"] == constraints.len_constraint.max_value
    if "minItems" in subschema:
        ok = ok and subschema["minItems"] == constraints.len_constraint.min_value
    if "maxItems" in subschema:
        ok = ok and subschema["maxItems"] == constraints.len_constraint.max_value
    return ok
