"""UTF-16 encoding and the one-character languages of regex terms (property C17).

``units(c)`` is the UTF-16 code-unit sequence of the scalar value ``c`` (Unicode standard, D91).
``set_admits`` is the language of a character set over *code points* (the original pattern);
``terms_match_units`` is the language of the rewritten terms over *code units* (what a UTF-16-only
engine sees): each non-quantified Char / CharSet consumes exactly one unit, a group is the union of its
concatenations.
"""
from typing import List

from aas_core_codegen.parse.retree import _types as T


def hi(c: int) -> int:
    return 0xD800 + (c - 0x10000) // 0x400


def lo(c: int) -> int:
    return 0xDC00 + (c - 0x10000) % 0x400


def units(c: int) -> List[int]:
    return [c] if c < 0x10000 else [hi(c), lo(c)]


def decode_pair(h: int, l: int) -> int:
    """The scalar value encoded by a surrogate pair."""
    return 0x10000 + (h - 0xD800) * 0x400 + (l - 0xDC00)


def range_admits(r: object, c: int) -> bool:
    return (
        (ord(r.start.character) == c)
        if r.end is None
        else (ord(r.start.character) <= c and c <= ord(r.end.character))
    )


def set_admits(cs: object, c: int) -> bool:
    """A (non-complementing or complementing) character set admits the code point ``c``."""
    inside = any(range_admits(r, c) for r in cs.ranges)
    return (not inside) if cs.complementing else inside


def one_matches(value: object, u: int) -> bool:
    """A Char or CharSet (as a UTF-16 engine reads it) matches the single unit ``u``."""
    if isinstance(value, T.Char):
        return ord(value.character) == u
    if isinstance(value, T.CharSet):
        return set_admits(value, u)
    return False


def concatenation_matches(conc: object, us: List[int]) -> bool:
    if len(conc.concatenants) != len(us):
        return False
    ok = True
    for k in range(len(us)):
        t = conc.concatenants[k]
        ok = ok and t.quantifier is None and one_matches(t.value, us[k])
    return ok


def term_matches_units(term: object, us: List[int]) -> bool:
    """One occurrence of the (possibly grouped) term matches exactly the unit sequence ``us``."""
    if isinstance(term.value, T.Group):
        return any(concatenation_matches(conc, us) for conc in term.value.union.uniates)
    return len(us) == 1 and one_matches(term.value, us[0])


def terms_match_units(terms: List[object], us: List[int]) -> bool:
    """A list of unquantified-or-single terms in sequence matches ``us`` (only the shapes the
    rewriting produces: one term, or two single-unit terms)."""
    if len(terms) == 1:
        return term_matches_units(terms[0], us)
    if len(terms) == 2 and len(us) == 2:
        return (term_matches_units(terms[0], [us[0]]) and term_matches_units(terms[1], [us[1]])
                and terms[0].quantifier is None and terms[1].quantifier is None)
    return False
