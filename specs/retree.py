"""Spec functions for the regex parser (properties C16, C01): the cursor's representation invariant
over a pattern given as one string (``values == [s]``)."""


def cursor_ok(c: object) -> bool:
    """The cursor is either inside / at the end of the only string, or past it."""
    return (
        len(c.values) == 1
        and (
            (c._major_cursor == 0 and c._minor_cursor is not None
             and 0 <= c._minor_cursor and c._minor_cursor <= len(c.values[0]))
            or (c._major_cursor == 1 and c._minor_cursor is None)
        )
    )


def pos(c: object) -> int:
    """Number of characters consumed so far."""
    return len(c.values[0]) if c._minor_cursor is None else (c._minor_cursor + 0)
