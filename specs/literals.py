"""How the *target language* reads a string literal: one decoder per language, written from the language
specifications (not from the generator's code).  Each returns the list of code points the literal denotes,
or None if the text is not a valid literal of that language.

References: Python Language Reference 2.4.1; ISO C++ [lex.ccon]/[lex.string] (hex escape sequences are
greedy, universal-character-names \\uXXXX \\UXXXXXXXX); ECMA-334 C# 6.4.5.6 (regular string literals, no raw
new_line_character U+000A U+000D U+0085 U+2028 U+2029); JLS 3.10.5-3.10.7 (after unicode-escape translation);
ECMAScript 2023 12.9.4 (string literals) and 12.9.6 (template literals, CR/CRLF normalised to LF, ``${``);
The Go Programming Language Specification, "String literals" / "Rune literals" (\\x needs exactly two hex
digits, \\u four, \\U eight; no surrogate halves).
"""
from typing import List, Optional

SIMPLE = {
    "python": {"a": 7, "b": 8, "f": 12, "n": 10, "r": 13, "t": 9, "v": 11, "\\": 92, "'": 39, '"': 34},
    "cpp": {"a": 7, "b": 8, "f": 12, "n": 10, "r": 13, "t": 9, "v": 11, "\\": 92, "'": 39, '"': 34, "?": 63},
    "csharp": {"a": 7, "b": 8, "f": 12, "n": 10, "r": 13, "t": 9, "v": 11, "\\": 92, "'": 39, '"': 34, "0": 0},
    "java": {"b": 8, "f": 12, "n": 10, "r": 13, "t": 9, "s": 32, "\\": 92, "'": 39, '"': 34},
    "ts": {"b": 8, "f": 12, "n": 10, "r": 13, "t": 9, "v": 11, "\\": 92, "'": 39, '"': 34, "`": 96, "$": 36},
    "go": {"a": 7, "b": 8, "f": 12, "n": 10, "r": 13, "t": 9, "v": 11, "\\": 92, '"': 34},
}


def is_hex(c: int) -> bool:
    return (48 <= c <= 57) or (97 <= c <= 102) or (65 <= c <= 70)


def hexval(c: int) -> int:
    return (c - 48) if c <= 57 else ((c - 87) if c >= 97 else (c - 55))


def raw_ok(lang: str, c: int, quote: int) -> bool:
    """May the character stand for itself inside the literal?"""
    if c == quote or c == 92:
        return False
    if lang == "python":
        # no NUL in source code, no raw line break in a one-line literal
        return c != 0 and c != 10 and c != 13
    if lang == "cpp":
        return c != 10
    if lang == "csharp":
        return c != 10 and c != 13 and c != 0x85 and c != 0x2028 and c != 0x2029
    if lang == "java":
        return c != 10 and c != 13
    if lang == "ts":
        return c != 10 and c != 13
    if lang == "ts-template":
        return True
    if lang == "go":
        return c != 10 and c != 0
    return False


def decode(lit: str, lang: str, start: int, end: int, quote: int) -> Optional[List[int]]:
    """Decode ``lit[start:end]`` (the text between the enclosing quotes)."""
    table = SIMPLE["ts" if lang == "ts-template" else lang]
    out = []  # type: List[int]
    i = start
    while i < end:
        c = ord(lit[i])
        if c != 92:
            if lang == "ts-template":
                if c == 96:
                    return None
                if c == 36 and i + 1 < end and ord(lit[i + 1]) == 123:
                    return None  # "${" opens a substitution
                if c == 13:
                    # <CR> and <CR><LF> are normalised to <LF> in the cooked value
                    out.append(10)
                    i = i + (2 if (i + 1 < end and ord(lit[i + 1]) == 10) else 1)
                    continue
            if not raw_ok(lang, c, quote):
                return None
            out.append(c)
            i = i + 1
            continue
        # an escape sequence
        if i + 1 >= end:
            return None
        e = ord(lit[i + 1])
        if e == 120:  # \x
            j = i + 2
            if lang == "cpp":
                # greedy: as many hex digits as follow
                v = 0
                n = 0
                while j < end and is_hex(ord(lit[j])):
                    v = v * 16 + hexval(ord(lit[j]))
                    j = j + 1
                    n = n + 1
                if n == 0:
                    return None
                out.append(v)
                i = j
                continue
            if lang == "csharp":
                v = 0
                n = 0
                while j < end and n < 4 and is_hex(ord(lit[j])):
                    v = v * 16 + hexval(ord(lit[j]))
                    j = j + 1
                    n = n + 1
                if n == 0:
                    return None
                out.append(v)
                i = j
                continue
            if lang == "java":
                return None
            # python, ts, go: exactly two hex digits
            if j + 1 >= end or not is_hex(ord(lit[j])) or not is_hex(ord(lit[j + 1])):
                return None
            v = hexval(ord(lit[j])) * 16 + hexval(ord(lit[j + 1]))
            if lang == "go" and v >= 128:
                # in Go, \xhh is one *byte* of the UTF-8 encoded string, not a code point: a lone byte >= 0x80 is not
                # the character U+00hh (the decoder does not piece multi-byte sequences together: none is emitted)
                return None
            out.append(v)
            i = j + 2
            continue
        if e == 117 or e == 85:  # \u \U
            n = 4 if e == 117 else 8
            if e == 85 and (lang == "java" or lang == "ts" or lang == "ts-template"):
                return None
            if i + 2 + n > end:
                return None
            v = 0
            k = 0
            while k < n:
                d = ord(lit[i + 2 + k])
                if not is_hex(d):
                    return None
                v = v * 16 + hexval(d)
                k = k + 1
            if v > 0x10FFFF:
                return None
            if (lang == "go" or lang == "cpp") and 0xD800 <= v <= 0xDFFF:
                return None  # surrogate halves are not valid universal character names / runes
            out.append(v)
            i = i + 2 + n
            continue
        if 48 <= e <= 55 and lang != "csharp" and lang != "ts" and lang != "ts-template":
            # octal escape: C++/Python/Java one to three digits (Java: \0-\377), Go exactly three
            j = i + 1
            v = 0
            n = 0
            while j < end and n < 3 and 48 <= ord(lit[j]) <= 55:
                v = v * 8 + (ord(lit[j]) - 48)
                j = j + 1
                n = n + 1
            if lang == "go" and n != 3:
                return None
            if (lang == "go" or lang == "java") and v > 255:
                return None
            out.append(v)
            i = j
            continue
        found = False
        for key in table:
            if e == ord(key):
                out.append(table[key])
                found = True
        if not found:
            return None
        i = i + 2
    return out


def python_str(lit: str) -> Optional[List[int]]:
    """A one-line, non-raw Python string literal in single or double quotes."""
    if len(lit) < 2:
        return None
    q = ord(lit[0])
    if (q != 39 and q != 34) or ord(lit[len(lit) - 1]) != q:
        return None
    return decode(lit, "python", 1, len(lit) - 1, q)


def cpp_wide(lit: str) -> Optional[List[int]]:
    if len(lit) < 3 or lit[0] != "L" or lit[1] != '"' or lit[len(lit) - 1] != '"':
        return None
    return decode(lit, "cpp", 2, len(lit) - 1, 34)


def cpp_narrow(lit: str) -> Optional[List[int]]:
    if len(lit) < 2 or lit[0] != '"' or lit[len(lit) - 1] != '"':
        return None
    return decode(lit, "cpp", 1, len(lit) - 1, 34)


def cpp_wchar(lit: str) -> Optional[List[int]]:
    if len(lit) < 4 or lit[0] != "L" or lit[1] != "'" or lit[len(lit) - 1] != "'":
        return None
    return decode(lit, "cpp", 2, len(lit) - 1, 39)


def double_quoted(lit: str, lang: str) -> Optional[List[int]]:
    if len(lit) < 2 or lit[0] != '"' or lit[len(lit) - 1] != '"':
        return None
    return decode(lit, lang, 1, len(lit) - 1, 34)


def ts_template(lit: str) -> Optional[List[int]]:
    if len(lit) < 2 or lit[0] != "`" or lit[len(lit) - 1] != "`":
        return None
    return decode(lit, "ts-template", 1, len(lit) - 1, 96)


LINE_BOUNDARIES = (10, 11, 12, 13, 0x1C, 0x1D, 0x1E, 0x85, 0x2028, 0x2029)


def no_line_boundary(literal: str) -> bool:
    """The literal contains none of the characters at which ``str.splitlines`` breaks a line: the generators
    indent the emitted code line by line (``textwrap.indent``, ``indent_but_first_line``), which would tear such a
    literal apart and insert the indention into the text."""
    return all(ord(ch) not in LINE_BOUNDARIES for ch in literal)
