"""Spec functions for the snippet directory (property C25)."""
from aas_core_codegen import specific_implementations


def hidden(rel: object) -> bool:
    """Hidden file or a file below a hidden directory: some component of the path relative to the
    snippets directory starts with a dot ("ignores hidden files and directories")."""
    return any(part.startswith(".") for part in rel.parts)


def valid_key(key: str) -> bool:
    """A valid snippet key, by the pattern the tool documents in its error message."""
    return specific_implementations.IMPLEMENTATION_KEY_RE.fullmatch(key) is not None
