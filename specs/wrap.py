"""Spec vocabulary for C27 (common.wrap_text_into_lines)."""
from typing import List, Optional


def pending_join(tokens: List[str], article: Optional[str]) -> str:
    """The text that the tokens collected so far stand for, the pending article included: parts joined by blanks."""
    if article is None:
        return " ".join(tokens)
    if len(tokens) == 0:
        return article
    return " ".join(tokens) + " " + article


def one_token(segment: str) -> bool:
    """Ghost predicate: ``segment`` is one of the tokens (a part, or an article glued to the part after it, with
    the blank that follows).  Uninterpreted in the proof (Contract.pure): it is introduced for the token of the
    current iteration only, so it can be concluded of a segment only if that segment *is* a token."""
    raise NotImplementedError("ghost predicate")
