"""Meaning of length constraints (from the text of property C15)."""
from typing import Optional


def admits(min_value: Optional[int], max_value: Optional[int], n: int) -> bool:
    """A length range admits ``n`` (both bounds inclusive, None = unbounded)."""
    return (min_value is None or min_value <= n) and (max_value is None or n <= max_value)


def sat(c: object, n: int) -> bool:
    """One recognised constraint holds for the length ``n``."""
    from aas_core_codegen.infer_for_schema import _len

    return (
        (n >= c.value)
        if isinstance(c, _len._MinLength)
        else ((n <= c.value) if isinstance(c, _len._MaxLength) else (n == c.value))
    )
