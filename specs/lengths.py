"""Meaning of length constraints, written from the text of property C15 (not from the code).

Every function is a pure expression so that it can be translated to SMT and also run
natively in replays.
"""
from typing import Optional

from aas_core_codegen.infer_for_schema import _len
from aas_core_codegen.parse import tree as parse_tree


def admits(min_value: Optional[int], max_value: Optional[int], n: int) -> bool:
    """A length range admits ``n`` (both bounds inclusive, None = unbounded)."""
    return (min_value is None or min_value <= n) and (max_value is None or n <= max_value)


def admits_c(c: object, n: int) -> bool:
    """An optional LenConstraint admits ``n`` (no constraint admits everything)."""
    return c is None or admits(c.min_value, c.max_value, n)


def sat(c: object, n: int) -> bool:
    """One recognised constraint (at least / at most / exactly ``value``) holds for the length ``n``."""
    return (
        (n >= c.value)
        if isinstance(c, _len._MinLength)
        else ((n <= c.value) if isinstance(c, _len._MaxLength) else (n == c.value))
    )


def opt_min(a: Optional[int], b: Optional[int]) -> Optional[int]:
    return b if a is None else (a if b is None else (a if a <= b else b))


def opt_max(a: Optional[int], b: Optional[int]) -> Optional[int]:
    return b if a is None else (a if b is None else (a if a >= b else b))


def is_len_call(e: object) -> bool:
    """``len(x)`` with x a name or a member access."""
    return (
        isinstance(e, parse_tree.FunctionCall)
        and e.name.identifier == "len"
        and len(e.args) == 1
        and isinstance(e.args[0], (parse_tree.Name, parse_tree.Member))
    )


def is_int_const(e: object) -> bool:
    return isinstance(e, parse_tree.Constant) and isinstance(e.value, int)


def len_on_left(node: object) -> bool:
    return is_len_call(node.left) and is_int_const(node.right)


def len_on_right(node: object) -> bool:
    return is_int_const(node.left) and is_len_call(node.right)


def is_len_comparison(node: object) -> bool:
    """The invariant form the property calls "recognised": len(x) op c, or c op len(x)."""
    return isinstance(node, parse_tree.Comparison) and (len_on_left(node) or len_on_right(node))


def cmp_holds(op: parse_tree.Comparator, a: int, b: int) -> bool:
    return (
        (a < b) if op is parse_tree.Comparator.LT
        else (a <= b) if op is parse_tree.Comparator.LE
        else (a > b) if op is parse_tree.Comparator.GT
        else (a >= b) if op is parse_tree.Comparator.GE
        else (a == b) if op is parse_tree.Comparator.EQ
        else (a != b)
    )


def comparison_holds(node: object, n: int) -> bool:
    """Truth of the comparison when the measured length is ``n`` (Python semantics)."""
    return (
        cmp_holds(node.op, n, node.right.value)
        if len_on_left(node)
        else cmp_holds(node.op, node.left.value, n)
    )


def len_operand(node: object) -> object:
    return node.left.args[0] if len_on_left(node) else node.right.args[0]


def ranges_intersect(a: object, b: object) -> bool:
    """Two LenConstraints admit a common length (over the integers)."""
    return (
        opt_max(a.min_value, b.min_value) is None
        or opt_min(a.max_value, b.max_value) is None
        or opt_max(a.min_value, b.min_value) <= opt_min(a.max_value, b.max_value)
    )


def is_self_prop(e: object) -> bool:
    """``self.<name>``"""
    return (
        isinstance(e, parse_tree.Member)
        and isinstance(e.instance, parse_tree.Name)
        and e.instance.identifier == "self"
    )


def is_guard_implication(node: object) -> bool:
    """``not (self.p is not None) or C`` (parsed as an implication)."""
    return (
        isinstance(node, parse_tree.Implication)
        and isinstance(node.antecedent, parse_tree.IsNotNone)
        and is_self_prop(node.antecedent.value)
    )


def is_guard_disjunction(node: object) -> bool:
    """``self.p is None or C`` -- exactly two disjuncts."""
    return (
        isinstance(node, parse_tree.Or)
        and len(node.values) == 2
        and isinstance(node.values[0], parse_tree.IsNone)
        and is_self_prop(node.values[0].value)
    )


def is_guarded_form(node: object) -> bool:
    """The "optional guard" forms the property admits."""
    return is_guard_implication(node) or is_guard_disjunction(node)


def guard_prop(node: object) -> str:
    return node.antecedent.value.name if is_guard_implication(node) else node.values[0].value.name


def guarded_consequent(node: object) -> object:
    return node.consequent if is_guard_implication(node) else node.values[1]
